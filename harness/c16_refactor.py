"""C16 — real refactorings as the edit, on small multi-module projects whose modules carry interpreter lines, coding
lines (line 1 or 2), comment headers, imports or none, different encodings and newline conventions.

For every file a refactoring changes, the intended edit is the text the refactoring itself computed
(ChangeContents.new_contents).  Everything else has to survive: the file afterwards must be that text in the encoding
the file DECLARED BEFORE and in its newline convention (oracle: CPython's reading of the bytes before + str.encode).
The same (bytes before, new text, bytes after) triple goes to Coq as a ChangeContents case of the single-step model.
"""
import codecs
import os
import shutil
import tempfile
import warnings

from harness import c16

ENCODINGS = [("latin-1", "latin-1", "éà\xa0ÿ"), ("iso-8859-15", "iso-8859-15", "é€Š"), ("cp1252", "cp1252", "é€œ"),
             ("utf-8", "utf-8", "é中😀"), ("utf-8", None, "éλ中"), ("koi8-r", "koi8-r", "Жя")]
KINDS = ["move_function", "move_function", "move_class", "rename", "extract_variable", "extract_method",
         "organize_imports", "move_module", "inline_variable"]


def header(rng, decl):
    """lines in front of the code: interpreter line, coding line (line 1 or 2), other comments"""
    cookie = None if decl is None else rng.choice(["# -*- coding: %s -*-", "# coding=%s", "# vim: set fileencoding=%s :"]) % decl
    k = rng.random()
    if cookie is None:
        return rng.choice([[], ["#!/usr/bin/env python"], ["# a module"], ["#!/usr/bin/env python", "# a script"]])
    if k < 0.35:
        return ["#!/usr/bin/env python", cookie]
    if k < 0.6:
        return [cookie]
    if k < 0.7:
        return ["", cookie]
    if k < 0.85:
        return ["# a module", cookie]
    return ["#!/usr/bin/env python", cookie, "# more words"]


def gen_module(rng, role, kind):
    enc_name, decl, pool = rng.choice(ENCODINGS)
    ch = "".join(rng.choice(pool) for _ in range(rng.randint(1, 3)))
    lines = header(rng, decl)
    if lines and rng.random() < 0.5:
        lines.append("")                               # blank line between the header and the code
    imports = rng.random() < 0.5
    if role == "origin":
        if imports or kind == "organize_imports":
            lines += ["import os", "import sys", ""] if kind == "organize_imports" else ["import os", ""]
        if rng.random() < 0.3 and lines and lines[-1] == "":
            lines.append("# helper: does the work")
        if kind == "move_class":
            lines += ["class Helper(object):", "    def run(self, a=1):", "        return a + 42", "", ""]
        else:
            lines += ["def helper(a=1):", "    b = a + 42", "    return b * 2", "", ""]
        lines += ["OTHER = '%s'  # %s" % (ch, ch), "print(OTHER, os.sep)" if imports and kind != "organize_imports" else "print(OTHER)"]
    elif role == "dest":
        if imports:
            lines += ["import sys", ""]
        lines += ["GREETING = '%s'  # %s" % (ch, ch), "print(GREETING, sys.argv)" if imports else "print(GREETING)"]
    else:
        name = "Helper" if kind == "move_class" else "helper"
        style = rng.choice(["import", "from", "none"])
        if style == "import":
            lines += ["import origin", "print(origin.%s, '%s')" % (name, ch)]
        elif style == "from":
            lines += ["from origin import %s" % name, "print(%s, '%s')" % (name, ch)]
        else:
            lines += ["print('%s')" % ch]
    text = "\n".join(lines) + ("\n" if rng.random() < 0.8 else "")
    nl = rng.choice(["\n", "\n", "\r\n", "\r\n", "\r"])
    return {"text": text, "encoding": enc_name, "newline": nl}


def gen_project(rng):
    kind = rng.choice(KINDS)
    files = {"origin.py": gen_module(rng, "origin", kind), "dest.py": gen_module(rng, "dest", kind),
             "user.py": gen_module(rng, "user", kind)}
    prefs = {}
    if rng.random() < 0.4:
        prefs["pull_imports_to_top"] = False
    return {"kind": kind, "files": files, "prefs": prefs}


def collect(change, acc):
    from rope.base.change import ChangeContents, ChangeSet
    if isinstance(change, ChangeSet):
        for c in change.changes:
            collect(c, acc)
    elif isinstance(change, ChangeContents):
        acc[change.resource.path] = change.new_contents


def make_changes(project, kind):
    from rope.refactor.move import create_move
    from rope.refactor.rename import Rename
    from rope.refactor.extract import ExtractVariable, ExtractMethod
    from rope.refactor.inline import create_inline
    from rope.refactor.importutils import ImportOrganizer
    origin = project.get_resource("origin.py")
    text = origin.read()
    if kind in ("move_function", "move_class"):
        name = "Helper" if kind == "move_class" else "helper"
        return create_move(project, origin, text.index(name) + 1).get_changes(project.get_resource("dest.py"))
    if kind == "rename":
        return Rename(project, origin, text.index("helper") + 1).get_changes("renamed")
    if kind == "extract_variable":
        i = text.index("a + 42")
        return ExtractVariable(project, origin, i, i + 6).get_changes("v")
    if kind == "extract_method":
        i = text.index("b * 2")
        return ExtractMethod(project, origin, i, i + 5).get_changes("twice")
    if kind == "inline_variable":
        return create_inline(project, origin, text.index("b = a") + 0).get_changes()
    if kind == "organize_imports":
        return ImportOrganizer(project).organize_imports(origin)
    if kind == "move_module":
        os.mkdir(os.path.join(project.address, "pkg"))
        open(os.path.join(project.address, "pkg", "__init__.py"), "w").close()
        return create_move(project, origin).get_changes(project.get_resource("pkg"))
    raise ValueError(kind)


def run_project(proj):
    """Returns (outcome, per-file records).  A record: name, before, new text or None, after, read/reread, undone."""
    c16.rope_ready()
    from rope.base.project import Project
    from rope.base import fscommands
    root = tempfile.mkdtemp(prefix="ropeverif-")
    try:
        before = {}
        for name, m in proj["files"].items():
            before[name] = m["text"].replace("\n", m["newline"]).encode(m["encoding"])
            with open(os.path.join(root, name), "wb") as f:
                f.write(before[name])
        with warnings.catch_warnings():
            warnings.simplefilter("ignore")
            p = Project(root, ropefolder=None, **proj["prefs"])
            try:
                reads = {}
                for name in before:
                    fo = p.get_file(name)
                    reads[name] = (fo.read(), fo.newlines)
                try:
                    changes = make_changes(p, proj["kind"])
                    if changes is None:
                        return "no-change", []
                    new = {}
                    collect(changes, new)
                    p.do(changes)
                except Exception as e:
                    from rope.base.exceptions import RopeError
                    if isinstance(e, RopeError):
                        return "refused:%s" % type(e).__name__, []       # a conservative refusal
                    return "crash:%s: %s" % (type(e).__name__, str(e)[:200]), []
                recs = []
                for name in before:
                    path = os.path.join(root, name)
                    if not os.path.exists(path):
                        continue                      # the module itself was moved
                    with open(path, "rb") as f:
                        after = f.read()
                    fo = p.get_file(name)
                    recs.append({"name": name, "before": before[name], "new": new.get(name), "after": after,
                                 "read": reads[name], "reread": (fo.read(), fo.newlines),
                                 "cookie": fscommands.read_str_coding(before[name])})
                p.history.undo()
                for r in recs:
                    with open(os.path.join(root, r["name"]), "rb") as f:
                        r["undone"] = f.read()
                return "done", recs
            finally:
                p.close()
    finally:
        shutil.rmtree(root, ignore_errors=True)


# --------------------------------------------------------------------------------------------- oracle
def decl_line(data):
    """the line (bytes) among the first two that carries the PEP 263 declaration, or None"""
    norm = data.replace(b"\r\n", b"\n").replace(b"\r", b"\n")
    for line in norm.split(b"\n", 2)[:2]:
        if c16.py_cookie_name([line]) is not None:
            return line
    return None


def refactor_oracle(rec):
    spec = c16.spec_of_bytes(rec["before"])
    if spec is None:
        return None
    enc_name, text, style = spec
    if rec["new"] is None:
        if rec["after"] != rec["before"]:
            return "a file the change set does not mention was rewritten"
        return None
    try:
        expected = rec["new"].replace("\n", style or "\n").encode(enc_name)
    except UnicodeEncodeError:
        return None
    if rec["after"] != expected:
        return ("bytes afterwards are not the refactoring's new text in the encoding the file declared (%s) and its "
                "newline convention %r" % (enc_name, style or "\n"))
    if rec.get("undone") is not None and rec["undone"] != rec["before"]:
        return "undo of the refactoring does not restore the bytes"
    return None


def header_above_definition(proj):
    """In origin.py the declaration stands directly above the moved definition (only '#' lines in between): returns
    that declaration line (str) or None."""
    m = proj["files"]["origin.py"]
    d = decl_line(m["text"].encode(m["encoding"]))
    if d is None or proj["kind"] not in ("move_function", "move_class"):
        return None
    lines = m["text"].split("\n")
    dl = d.decode(m["encoding"])
    name = "class Helper" if proj["kind"] == "move_class" else "def helper"
    starts = [k for k, x in enumerate(lines) if x.startswith(name)]
    if not starts or dl not in lines:
        return None
    j = lines.index(dl)
    return dl if all(x.startswith("#") for x in lines[j:starts[0]]) else None


def shape(proj, rec):
    """structural class of a failing record + the predicted failure (the first two lines of the NEW TEXT no longer
    carry the file's own declaration, so the file is written in what those lines declare now, UTF-8 if nothing)"""
    if rec["new"] is None:
        return "other"
    spec = c16.spec_of_bytes(rec["before"])
    if spec is None:
        return "other"
    style = spec[2] or "\n"
    new_lines = rec["new"].split("\n")
    before_lines = spec[1].split("\n")
    raw = c16.py_cookie_name(rec["new"].encode("utf-8", "replace").split(b"\n", 2)[:2])
    try:
        predicted = rec["new"].replace("\n", style).encode(raw if raw is not None else "utf-8")
    except (LookupError, UnicodeError):
        return "other"
    if rec["after"] != predicted:
        return "other"
    travelling = header_above_definition(proj)
    d = decl_line(rec["before"])
    dl = d.decode("latin-1") if d is not None else None
    if travelling is not None:
        if rec["name"] == "origin.py" and travelling not in new_lines:
            return "move-takes-header"                  # the declaration left with the definition
        if rec["name"] == "dest.py" and travelling in new_lines[:2] and travelling not in before_lines:
            return "move-takes-header"                  # ... and arrived at the top of the destination
    if dl is None or dl in new_lines[:2]:
        return "other"
    if dl in new_lines and dl in before_lines:
        k = before_lines.index(dl)
        if (proj["prefs"].get("pull_imports_to_top") is False and new_lines[0].startswith(("import ", "from "))
                and new_lines[1:k + 2] == before_lines[:k + 1]):
            return "import-above-header"
        if (proj["kind"] in ("move_function", "move_class") and rec["name"] == "dest.py" and k == 1
                and before_lines[0].strip() == "" and new_lines[0].strip() != ""
                and rec["new"].endswith("\n".join(before_lines[1:]))):
            return "move-above-blank-header"
    return "other"


def signature(obj):
    """No refactoring finding of C16 is open (the three shapes below were fixed by 495d665, 0fb88c4, 40406b4 and are
    replayed from corpus/C16): nothing is attributed any more, a return of any of them is a VIOLATION.  The shape is
    kept in the replay file because it names the defect."""
    return "refactor:%s" % obj.get("shape", "other")


def proj_json(proj):
    return {"kind": proj["kind"], "prefs": proj["prefs"],
            "files": {n: {"text": [ord(c) for c in m["text"]], "encoding": m["encoding"], "newline": m["newline"]}
                      for n, m in proj["files"].items()}}


def proj_from_json(o):
    return {"kind": o["kind"], "prefs": o["prefs"],
            "files": {n: {"text": "".join(chr(c) for c in m["text"]), "encoding": m["encoding"], "newline": m["newline"]}
                      for n, m in o["files"].items()}}


def replay(ctx, obj):
    proj = proj_from_json(obj["project"])
    outcome, recs = run_project(proj)
    return outcome.startswith("crash") or any(refactor_oracle(r) for r in recs)


FIXED_PROJECTS = []
for _enc, _nl in (("latin-1", "\n"), ("cp1252", "\r\n")):
    _h = "#!/usr/bin/env python\n# -*- coding: %s -*-\n" % _enc
    _o = _h + "\ndef helper(a=1):\n    b = a + 42\n    return b * 2\n\n\nOTHER = 'é'\nprint(OTHER)\n"
    _d = _h + "GREETING = 'café'  # déjà\nprint(GREETING)\n"
    _u = _h + "import origin\nprint(origin.helper, 'é')\n"
    for _kind in ("move_function", "rename", "extract_method", "inline_variable", "move_module"):
        for _prefs in ({}, {"pull_imports_to_top": False}):
            FIXED_PROJECTS.append({"kind": _kind, "prefs": _prefs, "files": {
                "origin.py": {"text": _o, "encoding": _enc, "newline": _nl},
                "dest.py": {"text": _d, "encoding": _enc, "newline": _nl},
                "user.py": {"text": _u, "encoding": _enc, "newline": _nl}}})


# --------------------------------------------------------------------------------------------- run
def run(ctx):
    n = ctx.scale(100, 1000)
    projects = [dict(p) for p in FIXED_PROJECTS] + [gen_project(ctx.rng) for _ in range(n)]
    cases, results, owners = [], [], []
    per_project = []
    for proj in projects:
        outcome, recs = run_project(proj)
        ctx.count("refactor:%s:%s" % (proj["kind"], outcome.split(":")[0]))
        per_project.append((proj, recs))
        if outcome.startswith("crash"):
            ctx.violation({"kind": "refactor-file", "project": proj_json(proj), "file": None, "observed": outcome, "shape": "crash"},
                          "C16 %s (prefs %r): the refactoring raised %s" % (proj["kind"], proj["prefs"], outcome))
            if ctx.too_many(8):
                return
        for r in recs:
            if r["new"] is None or "\ud800" in r["new"]:
                continue
            cases.append({"data": r["before"], "op": 1, "new": r["new"]})
            results.append({"read": r["read"], "cookie": r["cookie"], "res": 0,
                            "after": r["after"], "reread": r["reread"]})
            owners.append((proj, r))
    mism, unmod = {}, []
    if cases:
        _, mism, unmod = c16.evaluate(ctx, cases, None, results=results)
    by_rec = {}
    for idx, (proj, r) in enumerate(owners):
        code = mism.get(idx, 0)
        modelled = not (code == 100 and unmod[idx])
        by_rec[id(r)] = (code, modelled)
    for proj, recs in per_project:
        for r in recs:
            fail = refactor_oracle(r)
            code, modelled = by_rec.get(id(r), (0, False))
            ctx.case(("refactor", proj["kind"], r["name"], r["before"].hex(), repr(proj["prefs"])),
                     nontrivial=r["new"] is not None and any(b >= 128 for b in r["before"]))
            ctx.count("stream:refactor-file")
            if r["new"] is not None and modelled:
                ctx.traces += 1
            reported = False
            if fail:
                obj = {"kind": "refactor-file", "project": proj_json(proj), "file": r["name"], "observed": fail,
                       "after": repr(r["after"])[:400], "new_text": repr(r["new"])[:400],
                       "shape": shape(proj, r), "model_agrees": (not modelled) or code == 0}
                reported = ctx.violation(obj, "C16 %s (%s, prefs %r): %s: %s" % (
                    proj["kind"], r["name"], proj["prefs"], fail, repr(r["after"])[:120]))
            if code != 0 and modelled and not reported:
                what = c16.CODES.get(code, "code %d" % code)
                ctx.violation({"kind": "refactor-file", "project": proj_json(proj), "file": r["name"], "mismatch": what,
                               "broken": "correspondence RopeVerif.C16.Runner.run_case on a refactoring's ChangeContents (%s): "
                                         "C16_change_preserves_rest no longer speaks about the code" % what},
                              "C16 %s (%s): %s" % (proj["kind"], r["name"], what), no_input=True)
            if ctx.too_many(8):
                return
