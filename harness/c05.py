"""C05 — moving/renaming definitions and modules keeps every importer working.

Streams:
  layout     generated trees -> rope's get_source_folders / libutils.modname / find_module /
             find_relative_module vs the Gallina model (coq/C05/Layout.v); oracle: CPython's importlib.
  refactor   generated projects x one mover x every legal destination x clients in every import style through
             the real MoveModule / Rename(module) / ModuleToPackage; rope's output text is abstracted back to
             import tables + references and compared in Coq with the model's rewriting (coq/C05/Move.v);
             what every reference IS, before and after, is observed by executing CPython on both trees and
             compared with the model's resolve_ref (the spec) and with an independent resolver.
  moveglobal MoveGlobal through the execution oracle only (not modelled).
"""
import copy
import json
import os

from harness import c05_gen as G
from harness import c05_lib as L
from harness.common import g_N, g_nat, g_bool, g_list, g_opt, g_pair

PROPERTY = "C05"

HEADER = ("From Coq Require Import List NArith ZArith Bool.\nImport ListNotations.\n"
          "From RopeVerif.C05 Require Import Layout Move Domain Runner.\n")


# ----------------------------------------------------------------------------- which variant is under test
_VARIANT = None


def detect_variant():
    """Probe the code under test: does MoveModule's import context know the importing module's folder
    (relctx), and does it rewrite from-imports when the destination is the project root (rootfrom)?
    The matching variant of the model (coq/C05/Move.v, Record variant) is evaluated for every case."""
    global _VARIANT
    if _VARIANT is None:
        M = L.mk_module
        base = {"a/__init__.py": M(), "a/b.py": M(globals_=["f"]), "c/__init__.py": M()}
        t1 = {"files": dict(base, **{"a/k.py": M([("F", 1, (), [("b", "x")])], [("x", "f")])}), "dirs": []}
        o1 = L.run_rope_op(t1, ("move", ("P", ("a",), "b"), ("c",)))
        relctx = "from c import b as x" in o1["files"].get("a/k.py", "")
        t2 = {"files": dict(base, **{"k.py": M([("F", 0, ("a",), [("b", "x")])], [("x", "f")])}), "dirs": []}
        o2 = L.run_rope_op(t2, ("move", ("P", ("a",), "b"), ()))
        rootfrom = "import b as x" in o2["files"].get("k.py", "") and "from a import" not in o2["files"].get("k.py", "")
        t3 = {"files": {"c/__init__.py": M(), "c/b/__init__.py": M(), "c/b/b.py": M(globals_=["f"]), "d/__init__.py": M(),
                        "c/k.py": M([("F", 1, ("b",), [("b", None)])], [("b", "f")])}, "dirs": []}
        o3 = L.run_rope_op(t3, ("move", ("D", ("c", "b")), ("d",)))
        case3abs = "from d.b import b" in o3["files"].get("c/k.py", "")
        _VARIANT = {"relctx": relctx, "rootfrom": rootfrom, "case3abs": case3abs}
    return _VARIANT


def g_variant():
    v = detect_variant()
    return "{| v_relctx := %s; v_rootfrom := %s; v_case3abs := %s |}" % (
        g_bool(v["relctx"]), g_bool(v["rootfrom"]), g_bool(v["case3abs"]))


# ----------------------------------------------------------------------------- relpath maps
def map_rel(op, rel):
    """where the file `rel` lives after the refactoring"""
    if op[0] == "move":
        src, dest = op[1], tuple(op[2])
        if src[0] == "P":
            return "/".join(dest + (src[2] + ".py",)) if rel == L.relpath_of_res(src) else rel
        pre = "/".join(src[1]) + "/"
        if rel.startswith(pre):
            return "/".join(dest + (src[1][-1],)) + "/" + rel[len(pre):]
        return rel
    if op[0] == "rename":
        src, new = op[1], op[2]
        if src[0] == "P":
            return "/".join(src[1] + (new + ".py",)) if rel == L.relpath_of_res(src) else rel
        pre = "/".join(src[1]) + "/"
        if rel.startswith(pre):
            return "/".join(src[1][:-1] + (new,)) + "/" + rel[len(pre):]
        return rel
    if op[0] == "topackage":
        src = op[1]
        return "/".join(src[1] + (src[2], "__init__.py")) if rel == L.relpath_of_res(src) else rel
    return rel


def g_op(op):
    if op[0] == "move":
        return "(OpMove %s %s)" % (L.g_res(op[1]), L.g_path(op[2]))
    if op[0] == "rename":
        return "(OpRename %s %s)" % (L.g_res(op[1]), g_N(L.nid(op[2])))
    return "(OpToPackage %s)" % L.g_res(op[1])


# ----------------------------------------------------------------------------- scenarios
def gen_scenario(rng, kind):
    # the generator is total: a tree without a suitable mover is regenerated, and after a few attempts a module
    # is added to the first package
    for attempt in range(8):
        tree, pkgs = G.gen_tree(rng)
        movers = G.movers_of(tree, pkgs)
        if kind == "topackage":
            movers = [m for m in movers if m[0] == "P"]
        if movers:
            break
    if not movers:
        rel = "/".join(tuple(pkgs[0]) + ("b.py",))
        tree["files"][rel] = L.mk_module(globals_=["f"])
        movers = [L.res_of_relpath(rel)]
    mover = rng.choice(movers)
    if kind == "move" and mover[0] == "P" and mover[1] and rng.random() < 0.6:
        # give some legal destination a module whose name merely starts with the mover's (c/bb.py for a/b.py)
        longer = G.LONGER.get(mover[2])
        cands = [d for d in G.legal_dests(tree, pkgs, mover, include_root=False)
                 if longer and "/".join(d + (longer + ".py",)) not in tree["files"]
                 and "/".join(d + (longer,)) not in L.tree_dirs(tree)]
        if cands:
            d = rng.choice(cands)
            tree["files"]["/".join(d + (longer + ".py",))] = L.mk_module(globals_=["f"])
    # the mover itself (a file) or modules inside a moved package may import things
    inner = []
    if mover[0] == "P" and rng.random() < (0.9 if kind == "topackage" else 0.5):
        inner.append(L.relpath_of_res(mover))
    if mover[0] == "D":
        for rel in sorted(tree["files"]):
            if rel.startswith("/".join(mover[1]) + "/") and not rel.endswith("__init__.py") and rng.random() < 0.4:
                inner.append(rel)
    for rel in inner:
        r = L.res_of_relpath(rel)
        m = G.gen_client(rng, tree, pkgs, mover, r[1], nstmts=rng.choice([1, 2, 3]), focus=0.0, prefer_rel=0.85, near=True)
        m["globals"] = tree["files"][rel]["globals"]
        # a module does not import itself
        rs = L.Resolver(tree["files"], L.tree_dirs(tree))
        m["imports"] = [_realias(s, m["globals"]) for s in m["imports"]]
        m["imports"] = [s for s in m["imports"] if not _mentions(rs, s, r, rel, m["globals"])
                        and not G.is_crashy(L.mk_module([s]), G.res_name(mover))]
        cands = G.candidate_refs(rs, rel, m)
        m["refs"] = rng.sample(cands, min(len(cands), 3)) if cands else []
        tree["files"][rel] = m
    folders = [()] + list(pkgs)
    clients = []
    for i in range(rng.choice([5, 7, 9])):
        folder = rng.choice(folders)
        m = G.gen_client(rng, tree, pkgs, mover, folder)
        clients.append(("/".join(tuple(folder) + ("k%d.py" % i,)), m))
    if kind in ("move", "rename") and mover[0] == "P" and not tree["files"][L.relpath_of_res(mover)]["imports"]:
        for j, (folder, m) in enumerate(G.style_clients(rng, tree, pkgs, mover)):
            clients.append(("/".join(tuple(folder) + ("s%d.py" % j,)), m))
    forced = []
    if kind == "move":
        extra, forced = G.prefix_sibling_clients(rng, tree, pkgs, mover)
        for j, (folder, m) in enumerate(extra):
            clients.append(("/".join(tuple(folder) + ("x%d.py" % j,)), m))
    if kind == "move":
        ops = [("move", mover, d) for d in G.legal_dests(tree, pkgs, mover)]
    elif kind == "rename":
        ops = [("rename", mover, rng.choice(["nb", "nm"]))]
        ops = [o for o in ops if not _name_taken(tree, mover, o[2])]
    else:
        ops = [("topackage", mover)]
    return {"tree": tree, "pkgs": pkgs, "mover": mover, "clients": clients, "ops": ops, "kind": kind,
            "forced": [("move", mover, d) for d in forced]}


def _realias(stmt, own_globals):
    """give imported names that clash with the module's own globals an alias"""
    if stmt[0] == "F" and not (stmt[3] and stmt[3][0][0] == "*"):
        return ("F", stmt[1], stmt[2], [(n, ("v" + n) if (a or n) in own_globals else a) for n, a in stmt[3]])
    return stmt


def _mentions(rs, stmt, r, rel, own_globals):
    """the statement imports the module r itself (directly or as a name), or rebinds one of its globals"""
    d = G.res_path(L.canon(r))
    if stmt[0] == "N" and any(tuple(x[:len(d)]) == tuple(d) for x, _ in stmt[1]):
        return True
    if stmt[0] == "F" and rs.from_base(r[1], stmt[1], stmt[2]) == L.canon(r):
        return True
    env, ok, loaded = rs.analyse(rel, L.mk_module([stmt]))
    if L.canon(r) in loaded:
        return True
    return any(v == ("M", L.canon(r)) or k in own_globals for k, v in env.items())


def _name_taken(tree, mover, new):
    parent = G.res_parent(mover)
    child = "/".join(parent + (new,))
    return child in L.tree_dirs(tree) or (child + ".py") in tree["files"]


def full_tree(sc, clients):
    t = {"files": dict(sc["tree"]["files"]), "dirs": list(sc["tree"].get("dirs", []))}
    for rel, m in clients:
        t["files"][rel] = m
    return t


# ----------------------------------------------------------------------------- one project through rope + CPython
def run_project(tree, op, preview=None):
    """-> dict with before/after observations for every python file of the tree"""
    before_texts = {rel: L.module_text(m, m.get("token", rel)) for rel, m in tree["files"].items()}
    dirs_before = sorted(L.tree_dirs(tree))
    names_before = {rel: L.modname_of_rel(rel) for rel in before_texts}
    ob = L.oracle_on_texts(before_texts, dirs_before, [n for n in names_before.values() if n])
    out = L.run_rope_op(tree, op, preview)
    names_after = {rel: L.modname_of_rel(rel) for rel in out["files"]}
    oa = L.oracle_on_texts(out["files"], out["dirs"], [n for n in names_after.values() if n])
    parsed = {}
    for rel, text in out["files"].items():
        try:
            parsed[rel] = L.parse_module(text)
        except L.ParseError as e:
            parsed[rel] = e
    return {"before_texts": before_texts, "names_before": names_before, "ob": ob,
            "raised": out["raised"], "after_texts": out["files"], "after_dirs": out["dirs"],
            "names_after": names_after, "oa": oa, "parsed": parsed}


def oracle_verdict(op, raised, rel, pr, _in_own_check=False):
    """None when the module behaves the same after the refactoring, else a description"""
    nb = pr["names_before"][rel]
    b = pr["ob"].get(nb)
    if not nb or b is None or b["error"]:
        return None     # not a working module before
    rel2 = rel if raised else map_rel(op, rel)
    na = pr["names_after"].get(rel2)
    if na is None:
        return "module %s is gone after the refactoring" % rel
    a = pr["oa"].get(na)
    if a is None or a["error"]:
        if not _in_own_check:
            # the exception may have been raised while another project module was executing: report the module
            # at the end of the blame chain (or one member of a blame cycle), everybody else is a consequence
            inv = {(r if raised else map_rel(op, r)): r for r in pr["names_before"]}

            def fails(r2):
                o = inv.get(r2)
                return o is not None and bool(oracle_verdict(op, raised, o, pr, True))

            def culprit_of(r2):
                e = pr["oa"].get(pr["names_after"].get(r2))
                return e.get("culprit") if e and e["error"] else None

            failing = {r2 for r2 in pr["names_after"] if fails(r2)}
            if L.blame_root(rel2, culprit_of, failing) != rel2:
                return None
        return "module %s no longer imports: %s" % (rel2, a and a["error"])
    if len(a["obs"]) != len(b["obs"]):
        return "module %s shows %d objects instead of %d" % (rel2, len(a["obs"]), len(b["obs"]))
    for i, (x, y) in enumerate(zip(b["obs"], a["obs"])):
        if x[0] != y[0]:
            return "reference %d of %s changed kind" % (i, rel2)
        if x[0] == "M":
            want = x[2] if raised else map_rel(op, x[2]) if not x[2].endswith("/") else x[2]
            if op[0] == "topackage" and not raised and x[2] == L.relpath_of_res(op[1]):
                want = map_rel(op, x[2])
            if y[2] != want:
                return "reference %d of %s is module %s, expected %s" % (i, rel2, y[2], want)
        elif x[0] == "G":
            want = x[3] if raised else map_rel(op, x[3])
            if y[3] != want or y[2] != x[2] or y[4] != x[4]:
                return "reference %d of %s is %s in %s, expected %s in %s" % (i, rel2, y[2], y[3], x[2], want)
    return None


def obs_objs(entry, n, own_rel=None):
    """oracle entry -> abstract objects of the references that were evaluated; a failure is None and ends
    the list (what follows a failing reference is not observed).  When the exception was raised while another
    project module was executing (a broken module imported by this one) nothing is observed."""
    if entry is None:
        return []
    if entry["error"] and entry.get("culprit") not in (None, own_rel):
        return []
    got = [L.obs_to_obj(o) for o in entry["obs"]][:n]
    if entry["error"] and len(got) < n:
        got.append(None)
    return got


def rcase_term(wname, op, tree, rel, pr, after_layout_name):
    m = tree["files"][rel]
    r = L.res_of_relpath(rel)
    rel2 = rel if pr["raised"] else map_rel(op, rel)
    nb = pr["names_before"][rel]
    pyb = obs_objs(pr["ob"].get(nb), len(m["refs"]), rel)
    if pr["raised"]:
        out = "None"
        pya, hsa = [], []
    else:
        pm = pr["parsed"].get(rel2)
        if pm is None or isinstance(pm, Exception):
            return None
        out = "(Some %s)" % L.g_pymod(L.res_of_relpath(rel2), pm)
        pya = obs_objs(pr["oa"].get(pr["names_after"][rel2]), len(pm["refs"]), rel2)
        files_after = {k: v for k, v in pr["parsed"].items() if not isinstance(v, Exception)}
        rs = L.Resolver(files_after, pr["after_dirs"])
        hsa, _ = rs.resolve_all(rel2, pm)
    return ("{| c_variant := cvariant; c_world := %s; c_op := %s; c_layout_after := %s; c_mod := %s; c_out := %s;\n"
            "    c_py_before := %s; c_py_after := %s; c_hs_after := %s |}" % (
                wname, g_op(op), after_layout_name, L.g_pymod(r, m), out,
                g_list([L.g_obj(o) for o in pyb]), g_list([L.g_obj(o) for o in pya]),
                g_list([L.g_obj(o) for o in hsa])))


def after_layout_term(pr):
    lay = [("D", tuple(d.split("/"))) for d in sorted(pr["after_dirs"])]
    lay += [L.res_of_relpath(rel) for rel in sorted(pr["after_texts"])]
    return g_list([L.g_res(r) for r in lay])


# ----------------------------------------------------------------------------- findings: structural signatures
def _occurrence_stmt(s, mover):
    """does the statement name the mover (syntactically: by its dotted path or as an imported name)?"""
    d = G.res_path(mover)
    if s[0] == "N":
        return any(tuple(x[:len(d)]) == tuple(d) for x, _ in s[1])
    return any(n == d[-1] for n, _ in s[3]) or (s[1] == 0 and tuple(s[2][:len(d)]) == tuple(d))


def classify(tree, op, rel):
    """structural signature of (project, refactoring, module): the known defect shapes of MoveModule.
    Mirrors the boolean side conditions of Domain.v (move_domain)."""
    m = tree["files"][rel]
    mv = op[1]
    mvp = tuple(G.res_path(mv))
    common = []
    for s in m["imports"]:
        if s[0] == "F" and s[1] >= 3 and s[2]:
            common.append("from-import-with-three-or-more-dots")
    if op[0] == "rename":
        if common:
            return common[0]
        bound = []
        for s in m["imports"]:
            bound.append({a or d[0] for d, a in s[1]} if s[0] == "N" else {a or n for n, a in s[3] if n != "*"})
        if any(bound[i] & bound[j] for i in range(len(bound)) for j in range(i + 1, len(bound))):
            return "same-name-bound-by-two-import-statements"
        return "none"
    if op[0] != "move":
        return "none"
    mover, dest = op[1], tuple(op[2])
    b = G.res_name(mover)
    folder = L.res_of_relpath(rel)[1]
    variant = detect_variant()
    sigs = list(common)
    # a.b.c style access to a package that was loaded only as a side effect of importing the mover (or of
    # being the mover's own package)
    rs = L.Resolver(tree["files"], L.tree_dirs(tree))
    env, ok, _loaded = rs.analyse(rel, m)
    for r in m["refs"]:
        o = env.get(r[0])
        for k in range(1, len(r)):
            if o is None or o[0] != "M":
                break
            o = rs.attr(o[1], r[k], None)
            if o is not None and o[0] == "M" and o[1][0] == "D" and len(o[1][1]) < len(mvp) \
                    and tuple(o[1][1]) == mvp[:len(o[1][1])] and len(o[1][1]) >= 2:
                sigs.append("ancestor-package-of-mover-reached-by-attribute")
    # relative from-imports naming the mover are invisible to _change_import_statements (its ImportContext has
    # no folder): aliased ones stay stale, doubled ones are half rewritten, deeper ones raise AttributeError
    # Case 3 of _change_import_statements keeps the level of a relative `from .b import b` (module part = the mover,
    # one imported name spelled like the mover) although the new module name is absolute: `from .dest.b import b`
    for s in m["imports"]:
        if s[0] == "F" and s[1] >= 1 and s[2] and any(n == b for n, _ in s[3]) \
                and rs.from_base(folder, s[1], s[2]) == L.canon(mover) and not variant["case3abs"]:
            sigs.append("relative-from-import-from-mover-keeps-level")
    # (the plain `from . import b` alone is handled: remove_old_imports + `import dest.b`)
    for i, s in enumerate(m["imports"]):
        if s[0] == "F" and s[1] >= 1 and any(n == b for n, _ in s[3]) and not variant["relctx"]:
            aliased = any(n == b and a is not None for n, a in s[3])
            deeper = s[1] >= 2 or bool(s[2])
            doubled = any(j != i and t[0] == "F" and any((a or n) == b for n, a in t[3])
                          for j, t in enumerate(m["imports"]))
            if aliased or deeper or doubled:
                sigs.append("relative-from-import-names-mover")
    if not dest and not variant["rootfrom"]:
        for s in m["imports"]:
            if s[0] == "F" and any(n == b and a is not None for n, a in s[3]):
                sigs.append("dest-root-aliased-from-import-of-mover")
    bound = []
    for s in m["imports"]:
        if s[0] == "N":
            bound.append({a or d[0] for d, a in s[1]})
        else:
            bound.append({a or n for n, a in s[3] if n != "*"})
    if any(bound[i] & bound[j] for i in range(len(bound)) for j in range(i + 1, len(bound))):
        sigs.append("same-name-bound-by-two-import-statements")
    mp = tuple(G.res_path(mover))
    heads = set()
    for s in m["imports"]:
        if s[0] == "N":
            for d, a in s[1]:
                if a is None and len(d) >= 2 and tuple(d[:len(mp)]) == mp:
                    heads.add(d[0])
    for h in sorted(heads):
        rebound = False
        for s in m["imports"]:
            if s[0] == "N":
                rebound |= any((a == h) or (a is None and d[0] == h and tuple(d[:len(mp)]) != mp) for d, a in s[1])
            else:
                rebound |= any((a or n) == h for n, a in s[3])
        used = any(r[0] == h and tuple(r[:len(mp)]) != mp for r in m["refs"])
        if used and not rebound:
            sigs.append("package-name-bound-only-by-import-of-mover")
    new_head = dest[0] if dest else b
    for s in m["imports"]:
        names = [a for d, a in s[1] if a] if s[0] == "N" else [a or n for n, a in s[3]]
        if new_head in names:
            sigs.append("head-of-new-module-name-already-bound")
    if new_head in m["globals"]:
        sigs.append("head-of-new-module-name-already-bound")
    if dest:
        for s in m["imports"]:
            if s[0] == "F" and s[1] == 0 and tuple(s[2]) == dest and s[3] and s[3][0][0] == "*":
                sigs.append("star-import-of-destination-package")
    if mover[0] == "D" and rel.startswith("/".join(mover[1]) + "/"):
        for s in m["imports"]:
            if s[0] == "F" and s[1] >= 1:
                depth_inside = len(folder) - len(mover[1])
                if s[1] - 1 > depth_inside:
                    sigs.append("relative-import-leaving-the-moved-package")
    return sigs[0] if sigs else "none"


def signature(obj):
    if obj.get("kind") == "refactor":
        tree = obj["tree"]
        op = _op_from_json(obj["op"])
        base = "refactor:" + obj["op"][0] + ":" + classify(tree, op, obj["module"])
        # the model must have predicted the failure for it to count as the known defect
        return base + (":unpredicted" if obj.get("unpredicted") else "")
    if obj.get("kind") == "moveglobal":
        from harness import c05_global
        return c05_global.signature(obj)
    if obj.get("kind") == "movemethod":
        from harness import c05_method
        return c05_method.signature(obj)
    return None


def _op_to_json(op):
    return [op[0]] + [list(x) if isinstance(x, tuple) else x for x in op[1:]]


def _res_from_json(x):
    return ("D", tuple(x[1])) if x[0] == "D" else ("P", tuple(x[1]), x[2])


def _op_from_json(j):
    if j[0] == "move":
        return ("move", _res_from_json(j[1]), tuple(j[2]))
    if j[0] == "rename":
        return ("rename", _res_from_json(j[1]), j[2])
    if j[0] == "topackage":
        return ("topackage", _res_from_json(j[1]))
    return tuple(j)


def _tree_to_json(tree):
    return {"files": {rel: {"imports": [list(s) for s in m["imports"]], "refs": [list(d) for d in m["refs"]],
                            "globals": list(m["globals"])} for rel, m in tree["files"].items()},
            "dirs": list(tree.get("dirs", []))}


def _tree_from_json(j):
    files = {}
    for rel, m in j["files"].items():
        imps = []
        for s in m["imports"]:
            if s[0] == "N":
                imps.append(("N", [(tuple(d), a) for d, a in s[1]]))
            else:
                imps.append(("F", s[1], tuple(s[2]), [(n, a) for n, a in s[3]]))
        files[rel] = L.mk_module(imps, [tuple(d) for d in m["refs"]], m["globals"])
    return {"files": files, "dirs": list(j.get("dirs", []))}


def replay_obj(tree, op, rel, lib_rels):
    """the smallest project showing the failure of module rel: the library files + that module"""
    small = {"files": {r: tree["files"][r] for r in tree["files"] if r in lib_rels or r == rel},
             "dirs": list(tree.get("dirs", []))}
    return {"kind": "refactor", "tree": _tree_to_json(small), "op": _op_to_json(op), "module": rel}


def replay(ctx, obj):
    if obj.get("kind") == "refactor":
        tree = _tree_from_json(obj["tree"])
        op = _op_from_json(obj["op"])
        pr = run_project(tree, op)
        bad = [oracle_verdict(op, pr["raised"], rel, pr) for rel in sorted(tree["files"])]
        return any(bad)
    if obj.get("kind") == "moveglobal":
        from harness import c05_global
        return c05_global.replay(ctx, obj)
    if obj.get("kind") == "movemethod":
        from harness import c05_method
        return c05_method.replay(ctx, obj)
    if obj.get("kind") == "layout":
        return False
    return False


# ----------------------------------------------------------------------------- refactoring stream
CODES = {1: "rope's new text differs from the model's rewriting (or only one of them raises)",
         2: "tree after the refactoring differs from the model's",
         3: "CPython (before) differs from the spec resolve_ref",
         4: "CPython (after) differs from resolve_ref on rope's output",
         5: "harness resolver differs from resolve_ref on rope's output",
         6: "inside the theorem's domain, but a reference does not reach the moved object (model)",
         7: "inside the theorem's domain, but CPython says a reference does not reach the moved object",
         8: "inside the theorem's domain, but an import statement of the rewritten module is stale"}


def run_refactor_stream(ctx, n_scen):
    defs, terms, meta = [], [], []
    kinds = ["move", "move", "rename", "move", "topackage", "move", "rename", "move", "topackage"]
    for si in range(n_scen):
        kind = kinds[si % len(kinds)]
        sc = gen_scenario(ctx.rng, kind)
        if not sc["ops"]:
            continue
        ops = sc["ops"]
        if kind == "move" and len(ops) > ctx.scale(2, 4):
            must = [o for o in ops if o in sc.get("forced", [])][:1]
            ops = must + [o for o in ctx.rng.sample(ops, ctx.scale(2, 4)) if o not in must][:ctx.scale(2, 4) - len(must)]
        mover_name = G.res_name(sc["mover"])
        plain = [c for c in sc["clients"] if not G.is_crashy(c[1], mover_name)]
        crashy = [c for c in sc["clients"] if G.is_crashy(c[1], mover_name)]
        lib_rels = set(sc["tree"]["files"])
        projects = [plain] + [[c] for c in crashy[:2]]
        for oi, op in enumerate(ops):
            for pi, clients in enumerate(projects):
                if not clients and pi > 0:
                    continue
                tree = full_tree(sc, clients)
                preview = None
                if op[0] == "move" and oi % 2 == 1 and len(ops) > 1:
                    preview = tuple(ops[oi - 1][2])      # previewed (and discarded) before the real destination
                    ctx.count("refactor:move:after-preview")
                pr = run_project(tree, op, preview)
                ctx.traces += 1
                ctx.count("refactor:" + op[0] + (":raised" if pr["raised"] else ":done"))
                wname = "w_%d_%d_%d" % (si, oi, pi)
                defs.append("Definition %s : world := %s." % (wname, L.g_world(tree)))
                defs.append("Definition la_%d_%d_%d : layout := %s." % (si, oi, pi, after_layout_term(pr)))
                for rel in sorted(tree["files"]):
                    m = tree["files"][rel]
                    is_client = rel not in lib_rels
                    if pr["raised"] and pi > 0 and not is_client:
                        continue    # rope raised on the designated client; the other modules were never reached
                    verdict = oracle_verdict(op, pr["raised"], rel, pr)
                    sig = classify(tree, op, rel)
                    term = None
                    if m["imports"] or m["refs"]:
                        term = rcase_term(wname, op, tree, rel, pr, "la_%d_%d_%d" % (si, oi, pi))
                    if verdict:
                        ctx.count("oracle_failures:" + sig)
                        if term is None:
                            # no model case for this module: the structural signature alone decides
                            ctx.violation(replay_obj(tree, op, rel, lib_rels), "C05 %s: %s" % (op[0], verdict))
                        # otherwise attribution waits for the model's verdict on rope's output (eval_rcases)
                    if not (m["imports"] or m["refs"]):
                        continue
                    if term is None:
                        if not verdict:
                            ctx.violation(dict(replay_obj(tree, op, rel, lib_rels),
                                               broken="rope's output for %s leaves the modelled fragment; "
                                                      "correspondence RopeVerif.C05.Runner.run_rcase cannot be evaluated" % rel),
                                          "C05: output text of %s is outside the fragment" % rel, no_input=True)
                        continue
                    affected = _occurrence_any(m, sc["mover"])
                    ctx.case(("ref", json.dumps(_op_to_json(op)), rel, repr(m["imports"]), repr(m["refs"]),
                              repr(sorted(sc["tree"]["files"]))), nontrivial=affected)
                    ctx.count("module:" + ("client" if is_client else "inner") + (":affected" if affected else ":bystander"))
                    for s in m["imports"]:
                        ctx.count("style:" + _style(s))
                    terms.append(term)
                    meta.append((tree, op, rel, lib_rels, verdict, sig))
                    if len(ctx.samples) < 3 and affected and is_client and not pr["raised"]:
                        ctx.sample({"op": _op_to_json(op), "module": rel,
                                    "before": pr["before_texts"][rel],
                                    "after": pr["after_texts"].get(map_rel(op, rel))})
        if ctx.too_many():
            break
    return defs, terms, meta


def _occurrence_any(m, mover):
    return any(_occurrence_stmt(s, mover) for s in m["imports"])


def _style(s):
    if s[0] == "N":
        return "import" + ("-as" if any(a for _, a in s[1]) else "") + ("-multi" if len(s[1]) > 1 else "")
    base = "from" + ("-rel%d" % s[1] if s[1] else "")
    if s[3] and s[3][0][0] == "*":
        return base + "-star"
    return base + ("-as" if any(a for _, a in s[3]) else "") + ("-multi" if len(s[3]) > 1 else "")


def eval_rcases(ctx, defs, terms, meta):
    shard = 120
    bodies = []
    for s in range(0, len(terms), shard):
        body = HEADER + "Definition cvariant : variant := %s.\n" % g_variant() + "\n".join(defs) + "\n"
        body += "Definition cases : list rcase := %s.\n" % g_list(terms[s:s + shard]).replace("; {|", ";\n {|")
        body += ("Eval vm_compute in (mismatches cases).\nEval vm_compute in (predictions cases).\n"
                 "Eval vm_compute in (count_domain cases).\n")
        bodies.append(body)
    outs = ctx.coq_files_parallel(bodies)
    indom = 0
    for si, out in enumerate(outs):
        pairs = ctx.parse_pairs(out)
        nums = ctx.parse_nums(out)
        indom += nums[-1][0] if nums and nums[-1] else 0
        codes = dict(pairs[0] if pairs else [])
        preds = nums[-2] if len(nums) >= 2 else []
        for i in range(len(meta[si * shard:(si + 1) * shard])):
            tree, op, rel, lib_rels, verdict, sig = meta[si * shard + i]
            code = codes.get(i)
            if code is not None:
                ctx.count("coq_mismatch_code_%d" % code)
            if verdict:
                # a failure observed by CPython is attributed to a known finding only if rope's output is the
                # model's (no code 1/2) and the spec predicts, from that output, that the module breaks
                ro = replay_obj(tree, op, rel, lib_rels)
                predicted = i < len(preds) and preds[i] == 1
                if code in (1, 2) or not predicted:
                    ro["unpredicted"] = True
                    ro["mismatch"] = CODES.get(code) if code else "the spec does not predict a failure from rope's output"
                    ctx.count("oracle_failures_not_predicted_by_model")
                ctx.violation(ro, "C05 %s: %s" % (op[0], verdict))
                continue
            if code is None:
                continue
            ro = replay_obj(tree, op, rel, set(tree["files"]))
            ro["mismatch"] = CODES.get(code, str(code))
            ro["broken"] = ("correspondence RopeVerif.C05.Runner.run_rcase code %d (%s); theorems C05_move_module_refs / "
                            "C05_rename_module_refs / C05_to_package_refs / C05_all_import no longer speak about the code" % (code, CODES.get(code)))
            ctx.violation(ro, "C05 %s %s: %s" % (op[0], rel, CODES.get(code, code)), no_input=True)
    ctx.extra["cases_in_theorem_domain"] = indom


# ----------------------------------------------------------------------------- layout stream
def run(ctx):
    ctx.rule = ("refactor: random project (2-3 top packages, sub-packages to depth 3, modules b/s/t, globals f/g), one "
                "mover (module or package) x sampled legal destinations x 5-9 clients with 1-3 import statements in "
                "every style (import, import as, from pkg import mod [as], from mod import name [as], star, relative "
                "levels 1-3, multi-name) and 1-4 references; non-trivial = the module names the mover in an import; "
                "distinct by (op, module text, tree); plus one-statement clients in each style of the theorems. "
                "layout: coverage.layout_rule; MoveGlobal: coverage.moveglobal_rule; MoveMethod: coverage.movemethod_rule")
    v = detect_variant()
    ctx.extra["variant_under_test"] = dict(v)
    ctx.count("variant:relctx=%s,rootfrom=%s" % (v["relctx"], v["rootfrom"]))
    if not (v["relctx"] and v["rootfrom"] and v["case3abs"]):
        # the repaired behaviour (commits 9f7c670, 4ab2467, 0b4a7b3) is the expected one: falling back to the
        # as-found behaviour is a regression, reported here and by the corpus replays
        ctx.violation({"kind": "variant", "variant": dict(v),
                       "broken": "MoveModule behaves like the as-found variant again (relctx=%s, rootfrom=%s, case3abs=%s): the "
                                 "headline theorems C05_move_module_refs_repaired / C05_move_to_root_refs_repaired no "
                                 "longer speak about the code" % (v["relctx"], v["rootfrom"], v["case3abs"])},
                      "C05: MoveModule no longer shows the repaired behaviour (relative from-imports / root destination / absolute Case 3)",
                      no_input=True)
    from harness import c05_layout
    c05_layout.run(ctx)
    defs, terms, meta = run_refactor_stream(ctx, ctx.scale(18, 120))
    eval_rcases(ctx, defs, terms, meta)
    try:
        from harness import c05_global
    except ImportError:
        c05_global = None
    if c05_global is not None:
        c05_global.run(ctx)
    try:
        from harness import c05_method
    except ImportError:
        c05_method = None
    if c05_method is not None:
        c05_method.run(ctx)
