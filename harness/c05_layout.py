"""C05 layout stream: libutils.modname / Project.find_module / find_relative_module / get_source_folders on
generated trees (including non-package folders, nested source folders, file/folder name clashes) against the
Gallina model of coq/C05/Layout.v; oracle: CPython's importlib with sys.path = rope's source folders."""
import json
import os
import shutil
import subprocess
import tempfile

from harness import c05_lib as L
from harness.common import g_N, g_nat, g_bool, g_list, g_opt, g_pair

NAMES = ["a", "b", "c"]

SPEC_DRIVER = r'''
import sys, os, json, importlib.util
root = sys.argv[1]
job = json.loads(sys.argv[2])
sys.path[:0] = [os.path.join(root, s) if s else root for s in job["sources"]]
sys.dont_write_bytecode = True
out = []
for name, want in job["queries"]:
    ok = False
    try:
        spec = importlib.util.find_spec(name)
        if spec is not None:
            if spec.origin is not None:
                w = os.path.realpath(os.path.join(root, want))
                ok = os.path.realpath(spec.origin) in (w, os.path.join(w, "__init__.py"))
            elif spec.submodule_search_locations is not None:
                ok = any(os.path.realpath(x) == os.path.realpath(os.path.join(root, want))
                         for x in spec.submodule_search_locations)
    except BaseException:
        ok = False
    out.append(ok)
print(json.dumps(out))
'''


def gen_layout(rng):
    """-> (dirs, files) as relpaths; files are python files"""
    dirs, files = [], []

    def fill(path, depth):
        if rng.random() < (0.65 if path else 0.04):
            files.append("/".join(path + ("__init__.py",)))
        for n in rng.sample(NAMES + ["m"], rng.choice([0, 1, 1, 2])):
            files.append("/".join(path + (n + ".py",)))
        if depth < 3:
            for n in rng.sample(NAMES, rng.choice([0, 1, 2, 2] if depth < 2 else [0, 0, 1])):
                dirs.append("/".join(path + (n,)))
                fill(path + (n,), depth + 1)

    fill((), 0)
    return dirs, files


def walk_listdir_order(root):
    """resources in the order rope enumerates them (os.listdir per folder), preorder"""
    out = []

    def rec(absdir, rel):
        for name in os.listdir(absdir):
            p = os.path.join(absdir, name)
            r = (rel + "/" + name) if rel else name
            if os.path.isdir(p):
                out.append(("D", tuple(r.split("/"))))
                rec(p, r)
            elif name.endswith(".py"):
                out.append(L.res_of_relpath(r))

    rec(root, "")
    return out


def rope_res_to_abs(res):
    if res is None:
        return None
    if res.is_folder():
        return ("D", tuple(x for x in res.path.split("/") if x))
    if not res.path.endswith(".py"):
        return ("?", res.path)
    return L.res_of_relpath(res.path)


def one_layout(ctx, rng):
    from rope.base import libutils
    dirs, files = gen_layout(rng)
    root = tempfile.mkdtemp(prefix="ropeverif-")
    try:
        for d in dirs:
            os.makedirs(os.path.join(root, d), exist_ok=True)
        for f in files:
            fp = os.path.join(root, f)
            os.makedirs(os.path.dirname(fp), exist_ok=True)
            open(fp, "w").close()
        layout = walk_listdir_order(root)
        project = L.new_project(root)
        try:
            sources = [tuple(x for x in s.path.split("/") if x) for s in project.get_source_folders()]
            queries, spec_q = [], []
            for r in layout:
                res = project.get_resource(L.relpath_of_res(r))
                name = libutils.modname(res)
                found = rope_res_to_abs(project.find_module(name)) if name else None
                queries.append((r, tuple(name.split(".")) if name else (), found))
                if name:
                    spec_q.append((name, L.relpath_of_res(r)))
            finds = []
            folders = [()] + [r[1] for r in layout if r[0] == "D"]
            for _ in range(6):
                d = tuple(rng.choice(NAMES + ["m", "__init__"]) for _ in range(rng.choice([1, 1, 2, 2, 3])))
                f = rng.choice(folders)
                fr = project.get_resource("/".join(f)) if f else project.root
                finds.append((d, f, rope_res_to_abs(project.find_module(".".join(d), folder=fr))))
            rels = []
            for _ in range(6):
                d = tuple(rng.choice(NAMES + ["m"]) for _ in range(rng.choice([0, 1, 1, 2])))
                f = rng.choice(folders)
                k = rng.choice([1, 1, 2, 3])
                fr = project.get_resource("/".join(f)) if f else project.root
                rels.append((d, f, k, rope_res_to_abs(project.find_relative_module(".".join(d), fr, k))))
        finally:
            project.close()
        p = subprocess.run([L.PY, "-I", "-c", SPEC_DRIVER, root,
                            json.dumps({"sources": ["/".join(s) for s in sources], "queries": spec_q})],
                           stdout=subprocess.PIPE, stderr=subprocess.PIPE, text=True, timeout=120)
        if p.returncode != 0:
            raise RuntimeError("spec driver failed: " + p.stderr[-1500:])
        spec_ok = dict(zip([q[1] for q in spec_q], json.loads(p.stdout)))
    finally:
        shutil.rmtree(root, ignore_errors=True)
    if any(x is not None and x[0] == "?" for _, _, x in queries):
        return None
    term = ("{| lc_layout := %s; lc_sources := %s; lc_queries := %s;\n lc_finds := %s; lc_rels := %s; lc_spec := %s |}" % (
        g_list([L.g_res(r) for r in layout]),
        g_list([L.g_path(s) for s in sources]),
        g_list(["{| q_res := %s; q_modname := %s; q_find := %s |}" % (
            L.g_res(r), L.g_path(n), g_opt(L.g_res(f) if f else None)) for r, n, f in queries]),
        g_list(["(%s, %s, %s)" % (L.g_path(d), L.g_path(f), g_opt(L.g_res(x) if x else None)) for d, f, x in finds]),
        g_list(["(%s, %s, %s, %s)" % (L.g_path(d), L.g_path(f), g_nat(k), g_opt(L.g_res(x) if x else None))
                for d, f, k, x in rels]),
        g_list([g_pair(L.g_res(r), g_bool(spec_ok.get(L.relpath_of_res(r), True))) for r in layout])))
    return {"term": term, "dirs": dirs, "files": files, "layout": layout, "sources": sources,
            "queries": queries}


LCODES = {1: "get_source_folders differs from the model", 2: "libutils.modname differs from the model",
          3: "find_module(modname) differs from the model", 4: "find_module(name, folder) differs from the model",
          5: "find_relative_module differs from the model",
          6: "theorem C05_modname_inverse contradicted: find_module(modname(r)) is not r inside its domain",
          7: "CPython's importlib does not find the resource under rope's module name inside the theorem's domain"}

HEADER = ("From Coq Require Import List NArith ZArith Bool.\nImport ListNotations.\n"
          "From RopeVerif.C05 Require Import Layout Move Domain Runner.\n")


def run(ctx):
    n = ctx.scale(60, 600)
    cases = []
    for _ in range(n):
        c = one_layout(ctx, ctx.rng)
        if c is None:
            continue
        cases.append(c)
        multi = len(c["sources"]) > 1
        ctx.case(("layout", repr(c["layout"])), nontrivial=len(c["layout"]) >= 4)
        ctx.traces += 1
        ctx.count("layout:source_folders=%d" % min(len(c["sources"]), 3))
        ctx.count("layout:resources", len(c["layout"]))
    ctx.extra["layout_rule"] = ("random folder trees to depth 3 over names a/b/c, __init__.py with p=0.65 per folder, "
                                "0-2 modules per folder (file/folder name clashes allowed); every resource queried for "
                                "modname and find_module(modname); 6 random find_module(name, folder) and 6 random "
                                "find_relative_module queries per tree; layout listed in os.listdir order")
    shard = 100
    bodies = []
    for s in range(0, len(cases), shard):
        terms = [c["term"] for c in cases[s:s + shard]]
        bodies.append(HEADER + "Definition cases : list lcase := %s.\n"
                      "Eval vm_compute in (lmismatches cases).\nEval vm_compute in (count_linverse cases).\n"
                      % g_list(terms).replace("; {| lc_layout", ";\n {| lc_layout"))
    outs = ctx.coq_files_parallel(bodies)
    indom = 0
    for si, out in enumerate(outs):
        pairs = ctx.parse_pairs(out)
        nums = ctx.parse_nums(out)
        indom += nums[-1][0] if nums and nums[-1] else 0
        for (i, code) in (pairs[0] if pairs else []):
            c = cases[si * shard + i]
            ctx.count("layout_mismatch_code_%d" % code)
            ctx.violation({"kind": "layout", "dirs": c["dirs"], "files": c["files"],
                           "mismatch": LCODES.get(code, str(code)),
                           "broken": "correspondence RopeVerif.C05.Runner.run_lcase code %d; theorem C05_modname_inverse "
                                     "no longer speaks about the code" % code},
                          "C05 layout: " + LCODES.get(code, str(code)), no_input=(code not in (6, 7)))
    ctx.extra["layout_resources_in_inverse_domain"] = indom
