"""C19 part D — similarfinder.CodeTemplate against its model coq/C19/CodeTemplate.v.

Random texts mixing placeholders, string literals of every prefix / quoting style (also unterminated ones),
comments, f-strings and stray `$ { }`: rope's `CodeTemplate(text).names` and `substitute` are compared inside Coq
with `find_names` / `cut`.  Independent oracle: `substitute` is positional, every recorded region holds its
placeholder, and -- where Python's tokenizer accepts the text -- a `${name}` is a placeholder iff it does not lie
inside a STRING or COMMENT token.
"""
import io
import re
import tokenize

from harness import c19

TPL_PIECES = [
    "${a}", "${?b}", "${x1}", " ", "f(", ")", ", ", "\n", "'s ${a}'", '"t ${x1} \\" ${a}"', "# c ${a}\n", "# ${?b}",
    '"""d ${a} " "" \' """', "'''e ${x1}'''", 'f"${a}"', "rb'${a}'", 'u"${a}"', 'bR"${a}"', 'xu"${a}"',
    "$", "{", "}", "${}", "${a b}", "${a$}", "${a", '"', "'", "\\", "'un ${a}\n", '"""open ${a}', "x = ", "1",
    "F'${x1}'", "fr'${a}'", "'a\\\n${a}'", "${a}${?b}", "$${a}", "{${a}}", "r'\\' ${a}", "''", '""""', "b",
]
FIXED = ["g('${a}', ${a})  # ${a}", 'f"${a}" + "${a}"', "${a} ${?b}", 'x = "${a}"\n${a}', "'''${a}''' ${a}"]


APPLIED = [0]          # how often the tokenizer expectation had something to say


def gen_template_text(rng):
    return "".join(rng.choice(TPL_PIECES) for _ in range(rng.randint(1, 9)))


def tokenizer_expectation(text, occ):
    if re.search(r"(?i)f['\"]|f[rb]['\"]|[rb]f['\"]", text):
        return None                                 # f-strings: left to the model comparison
    if any(not re.fullmatch(r"\??\w*", m.group(1)) for m in re.finditer(r"\$\{([^\s$}]*)\}", text)):
        # a candidate whose "name" holds quotes, brackets or a backslash (${a)"""\}) is a legitimate match of rope's
        # regular expression but cuts Python's tokens apart: the tokenizer says nothing about such a text
        return None
    try:
        toks = list(tokenize.generate_tokens(io.StringIO(text).readline))
    except (tokenize.TokenError, SyntaxError, IndentationError):
        return None
    starts = [0]
    for ln in text.split("\n")[:-1]:
        starts.append(starts[-1] + len(ln) + 1)
    hidden = []
    for t in toks:
        if t.type in (tokenize.STRING, tokenize.COMMENT):
            if t.start[0] - 1 >= len(starts) or t.end[0] - 1 >= len(starts):
                return None
            hidden.append((starts[t.start[0] - 1] + t.start[1], starts[t.end[0] - 1] + t.end[1]))
        elif t.type == tokenize.ERRORTOKEN:
            return None
    want = [(m.group(1), m.start(), m.end()) for m in re.finditer(r"\$\{([^\s$}]*)\}", text)
            if not any(a <= m.start() < b for a, b in hidden)]
    APPLIED[0] += 1
    if want != occ:
        return "placeholders %r, the tokenizer says %r" % (occ, want)
    return None


def run_case(obj):
    from rope.refactor import similarfinder
    text = obj["text"]
    tpl = similarfinder.CodeTemplate(text)
    occ = sorted(((n, s, e) for n, regs in tpl.names.items() for (s, e) in regs), key=lambda t: t[1])
    mapping = {n: "<%s|%d>" % (n, i) for i, n in enumerate(tpl.get_names())}
    out = tpl.substitute(mapping)
    pos, pieces = 0, []
    for n, s, e in occ:
        pieces.append(text[pos:s] + mapping[n])
        pos = e
    pieces.append(text[pos:])
    if "".join(pieces) != out:
        bad = "substitute gives %r, positional substitution gives %r" % (out[:120], "".join(pieces)[:120])
    elif any(text[s:e] != "${%s}" % n for n, s, e in occ):
        bad = "a recorded region does not hold its placeholder"
    else:
        bad = tokenizer_expectation(text, occ)
    return {"occ": occ, "mapping": mapping, "out": out, "oracle": ("template", bad) if bad else None}


def run(ctx):
    rng = ctx.rng
    cases = [{"kind": "template", "text": t} for t in FIXED]
    for _ in range(ctx.scale(250, 2500)):
        cases.append({"kind": "template", "text": gen_template_text(rng)})
    APPLIED[0] = 0
    results = [run_case(c) for c in cases]
    ctx.count("template:tokenizer_oracle_applied", APPLIED[0])
    terms = []
    for c, r in zip(cases, results):
        terms.append("{| t_text := %s; t_occ := [%s]; t_map := [%s]; t_subst := %s |}" % (
            c19.g_text(c["text"]), ";".join("(%s, %d, %d)" % (c19.g_text(n), s, e) for n, s, e in r["occ"]),
            ";".join("(%s, %s)" % (c19.g_text(k), c19.g_text(v)) for k, v in r["mapping"].items()), c19.g_text(r["out"])))
    bodies, shard = [], 400
    for s0 in range(0, len(terms), shard):
        bodies.append(c19.HEADER + "Definition cases : list tcase := [\n%s].\nEval vm_compute in (tmismatches cases).\n"
                      % ";\n".join(terms[s0:s0 + shard]))
    outs = ctx.coq_files_parallel(bodies)
    mism = {}
    for k, out in enumerate(outs):
        pairs = ctx.parse_pairs(out)
        for (i, code) in (pairs[0] if pairs else []):
            mism[k * shard + i] = code
    for idx, (c, r) in enumerate(zip(cases, results)):
        ctx.case(("template", c["text"]), nontrivial=bool(r["occ"]))
        ctx.traces += 1
        ctx.count("template:placeholders=%s" % (len(r["occ"]) if len(r["occ"]) < 3 else "3+"))
        if r["oracle"]:
            ctx.violation(dict(c, category="template", observed=r["oracle"][1]), "C19 CodeTemplate: " + r["oracle"][1][:240])
        elif idx in mism:
            ctx.violation(dict(c, mismatch="CodeTemplate model differs from rope (code %d)" % mism[idx],
                               broken="correspondence RopeVerif.C19.Runner.run_tcase (CodeTemplate.find_names / cut vs "
                                      "similarfinder.CodeTemplate)"),
                          "C19 CodeTemplate: model and rope disagree on %r" % c["text"][:120], no_input=True)
        if ctx.too_many(8):
            break


def replay(ctx, obj):
    return bool(run_case(obj)["oracle"])
