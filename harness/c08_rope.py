"""C08 — driver for rope's patched-AST walker with run-time capture of the templates.

Nothing in /repo is edited: `_PatchingASTWalker.__call__/_handle` and the two lazily compiled regular
expressions of `_Source` are wrapped inside this process.  For every `_handle` call we record a *frame*:
the node, the template (`base_children`) it was called with, the flags, the cursor at entry, and for
String/Number items the list of `(pos, span)` results the regular expression returned (the model takes
them as an oracle).  Frames nest exactly like the recursive calls, which gives the template tree the
Gallina model `RopeVerif.C08.Template.patch` is run on.
"""
import ast
import warnings

_installed = {}


class Frame:
    __slots__ = ("node", "cls", "items", "eat_parens", "eat_spaces", "entry", "joined", "nofmt",
                 "sub", "regex_calls", "skipped", "parent", "done", "events")

    def __init__(self, node, items, eat_parens, eat_spaces, entry, parent):
        self.node = node
        self.cls = type(node).__name__
        self.items = items
        self.eat_parens = bool(eat_parens)
        self.eat_spaces = bool(eat_spaces)
        self.entry = entry
        self.joined = isinstance(node, (ast.JoinedStr, ast.FormattedValue))
        self.nofmt = isinstance(node, ast.JoinedStr)
        self.sub = {}            # id(child ast node) -> Frame
        self.regex_calls = []    # one list of (pos, span|None) per String/Number item, in order
        self.skipped = False
        self.parent = parent
        self.done = False
        self.events = []         # consumption log: ("tok", start, end) / ("sub", node), in order


class Recorder:
    def __init__(self):
        self.stack = []
        self.root = None
        self.dispatching = False
        self.cur_regex = None
        self.frames = []
        self.unknown = []
        self.crash = None        # frames in progress (outermost first) when the first exception was raised
        self.crash_offset = 0    # cursor at that moment
        self.raised_in_dispatch = None


_rec = None


class _PatternProxy:
    """Stands in for a compiled pattern; logs every search made through it."""

    def __init__(self, real):
        self.real = real
        self.pattern = real.pattern

    def search(self, string, pos=0, endpos=None):
        m = self.real.search(string, pos, len(string) if endpos is None else endpos)
        if _rec is not None and _rec.cur_regex is not None:
            _rec.cur_regex.append((pos, None if m is None else m.span()))
        return m


def install():
    """Idempotent; must be called after rope has been put on sys.path."""
    from rope.refactor import patchedast
    key = id(patchedast)
    if _installed.get("key") == key:
        return patchedast
    W = patchedast._PatchingASTWalker
    S = patchedast._Source
    orig_handle = W._handle
    orig_call = W.__call__
    orig_cs = S.consume_string
    orig_cn = S.consume_number

    # force the lazy compilation, then replace the compiled patterns by logging proxies
    s = S("'a' 1\n")
    orig_cs(s)
    orig_cn(s)
    if not isinstance(S._string_pattern, _PatternProxy):
        S._string_pattern = _PatternProxy(S._string_pattern)
    if not isinstance(S._number_pattern, _PatternProxy):
        S._number_pattern = _PatternProxy(S._number_pattern)

    def handle(self, node, base_children, eat_parens=False, eat_spaces=False):
        rec = _rec
        if rec is None:
            return orig_handle(self, node, base_children, eat_parens, eat_spaces)
        items = list(base_children)
        parent = rec.stack[-1] if rec.stack else None
        fr = Frame(node, items, eat_parens, eat_spaces, self.source.offset, parent)
        fr.skipped = hasattr(node, "region")
        rec.frames.append(fr)
        if parent is None:
            if rec.root is None:
                rec.root = fr
        else:
            parent.sub[id(node)] = fr
        rec.dispatching = False
        rec.stack.append(fr)
        try:
            r = orig_handle(self, node, items, eat_parens, eat_spaces)
            fr.done = True
            return r
        except BaseException:
            if rec.crash is None:
                rec.crash = list(rec.stack)
                rec.crash_offset = self.source.offset
            raise
        finally:
            rec.stack.pop()

    def call(self, node):
        rec = _rec
        if rec is not None:
            if rec.stack:
                rec.stack[-1].events.append(("sub", node))
            rec.dispatching = True
            if getattr(self, "_" + node.__class__.__name__, None) is None:
                rec.unknown.append(node.__class__.__name__)
        try:
            return orig_call(self, node)
        except BaseException:
            if rec is not None and rec.raised_in_dispatch is None and rec.stack \
                    and id(node) not in rec.stack[-1].sub and rec.crash is None:
                rec.raised_in_dispatch = id(node)     # the _<NodeType> method raised before calling _handle
                rec.crash = list(rec.stack)
                rec.crash_offset = self.source.offset
            raise
        finally:
            if rec is not None:
                rec.dispatching = False

    def _wrap_regex(orig):
        def consume(self, *a, **k):
            rec = _rec
            if rec is None or rec.dispatching or not rec.stack:
                # `_JoinedStr` probes the string before calling `_handle` and resets the cursor
                return orig(self, *a, **k)
            calls = []
            rec.stack[-1].regex_calls.append(calls)
            rec.cur_regex = calls
            try:
                return orig(self, *a, **k)
            finally:
                rec.cur_regex = None
        return consume

    def _wrap_consume(orig):
        def consume(self, *a, **k):
            r = orig(self, *a, **k)
            rec = _rec
            if rec is not None and not rec.dispatching and rec.stack:
                rec.stack[-1].events.append(("tok", r[0], r[1]))
            return r
        return consume

    S.consume = _wrap_consume(S.consume)
    S.consume_joined_string = _wrap_consume(S.consume_joined_string)
    S._consume_pattern = _wrap_consume(S._consume_pattern)
    W._handle = handle
    W.__call__ = call
    S.consume_string = _wrap_regex(orig_cs)
    S.consume_number = _wrap_regex(orig_cn)
    _installed["key"] = key
    _installed["mod"] = patchedast
    _installed["options"] = detect_options(patchedast)
    return patchedast


def detect_options(pa):
    """Which version of the two repaired places does the running rope have?  Decided by behaviour:
    (opens_from_entry, tuple_comments) -- see `options` in coq/C08/Template.v."""
    import ast as _ast
    opens = False
    try:
        src = 'x = f("#", (a).b)\n'
        tree = pa.get_patched_ast(src, True)
        att = [n for n in _ast.walk(tree) if isinstance(n, _ast.Attribute)][0]
        opens = att.region[0] == 11
    except Exception:   # noqa: BLE001
        opens = False
    try:
        pa._Source("( # c\n)").consume_empty_tuple()
        tup = True
    except Exception:   # noqa: BLE001
        tup = False
    return (opens, tup)


def options():
    install()
    return _installed["options"]


class Result:
    """Outcome of one run of rope on a source text."""

    def __init__(self):
        self.tree = None        # the ast.Module (patched as far as rope got)
        self.error = None       # exception class name, or None
        self.error_msg = ""
        self.warnings = []
        self.rec = None
        self.written = None
        self.write_error = None


def run_rope(source):
    global _rec
    pa = install()
    from rope.base import ast as rast
    res = Result()
    try:
        tree = rast.parse(source)
    except (SyntaxError, ValueError, RecursionError, MemoryError) as e:
        res.error = "parse:" + type(e).__name__
        res.error_msg = str(e)
        return res
    res.tree = tree
    rec = Recorder()
    res.rec = rec
    _rec = rec
    try:
        with warnings.catch_warnings(record=True) as w:
            warnings.simplefilter("always")
            try:
                pa.patch_ast(tree, source, True)
            except RecursionError as e:
                res.error = "RecursionError"
                res.error_msg = str(e)[:200]
            except Exception as e:   # noqa: BLE001 - every exception is an observable here
                res.error = type(e).__name__
                res.error_msg = str(e)[:200]
        res.warnings = [str(x.message) for x in w]
    finally:
        _rec = None
    if res.error is None:
        try:
            res.written = pa.write_ast(tree)
        except Exception as e:   # noqa: BLE001
            res.write_error = type(e).__name__ + ": " + str(e)[:100]
    return res


# ------------------------------------------------------------------------------------------------
# abstraction of the captured frames


def item_kind(walker_cls, it):
    if it is None:
        return "none"
    if isinstance(it, ast.AST):
        return "sub"
    if it is walker_cls.String:
        return "str"
    if it is walker_cls.Number:
        return "num"
    if it is walker_cls.empty_tuple:
        return "empty_tuple"
    if it is walker_cls.with_or_comma_context_manager:
        return "with_or_comma"
    if isinstance(it, str):
        return "tok"
    return "other"


def frame_supported(fr):
    """True when the frame (recursively) only uses what the model covers."""
    W = _installed["mod"]._PatchingASTWalker
    if fr.skipped:
        return False
    for it in fr.items:
        k = item_kind(W, it)
        if k == "other":
            return False
        if k == "sub":
            sub = fr.sub.get(id(it))
            if sub is None:
                if fr.done:
                    return False      # dispatched to something that never called _handle
                continue              # never reached (rope raised before)
            if not frame_supported(sub):
                return False
    return True
