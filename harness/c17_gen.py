"""C17 — generator of small multi-module projects in the Obj fragment, printer to Python source (with layout
variation), parser of (refactored) Python source back to the Obj IR, and Gallina printer.

IR (tuples)
  expr:  ('int', z) ('none',) ('var', x) ('paren', e) ('attr', tag, e, f) ('bin', op, a, b)
         ('call', f, args) ('meth', e, m, args) ('new', c, args) ('static', c, m, args)
  stmt:  ('pass',) ('assign', x, e) ('write', tag, p, f, e, lay) ('aug', tag, p, f, op, e, lay)
         ('expr', e) ('print', e) ('return', e) ('if', c, a, b) ('while', c, b)
  mdef:  {'name', 'static', 'params', 'body': ('code', [stmt]) | ('forward', cname)}
  cdef:  {'name', 'methods': [mdef]}
  project: {'classes': [cdef], 'funcs': [mdef], 'main': [stmt], 'where': {funcname: module}, 'style': {...}}
tag = the generator's claim "rope's occurrence finder resolves this occurrence to C.x" (checked on every
case by the correspondence).  lay = layout of the statement's text (see LAYOUTS).
"""
import ast

OPS = {'+': 'Add', '-': 'Sub', '*': 'Mul', '//': 'FloorDiv', '%': 'Mod', '<': 'Lt', '==': 'Eq'}
PREC = {'<': 1, '==': 1, '+': 2, '-': 2, '*': 3, '//': 3, '%': 3}
AST_OPS = {ast.Add: '+', ast.Sub: '-', ast.Mult: '*', ast.FloorDiv: '//', ast.Mod: '%'}
AST_CMP = {ast.Lt: '<', ast.Eq: '=='}
AUG_OPS = ['+', '-', '*', '//', '%']

# layouts of a write / augmented write statement
LAYOUTS_OK = ['plain', 'tight', 'wide', 'paren_ml', 'backslash']
LAYOUTS_HAZARD = ['comment', 'semicolon', 'chained']


# ----------------------------------------------------------------------------------------- printer
def p_expr(e, st):
    k = e[0]
    if k == 'int':
        return str(e[1]) if e[1] >= 0 else '(%d)' % e[1]
    if k == 'none':
        return 'None'
    if k == 'var':
        return e[1]
    if k == 'paren':
        return '(' + p_expr(e[1], st) + ')'
    if k == 'attr':
        return p_expr(e[2], st) + '.' + e[3]
    if k == 'bin':
        return '%s %s %s' % (p_expr(e[2], st), e[1], p_expr(e[3], st))
    if k == 'call':
        return '%s(%s)' % (st['func'](e[1]), ', '.join(p_expr(a, st) for a in e[2]))
    if k == 'meth':
        return '%s.%s(%s)' % (p_expr(e[1], st), e[2], ', '.join(p_expr(a, st) for a in e[3]))
    if k == 'new':
        if st.get('kw_new') and len(e[2]) == 1 and e[2][0][0] == 'int':
            return '%s(v=%s)' % (st['cls'](e[1]), p_expr(e[2][0], st))     # keyword spelling of the only parameter
        return '%s(%s)' % (st['cls'](e[1]), ', '.join(p_expr(a, st) for a in e[2]))
    if k == 'static':
        return '%s.%s(%s)' % (st['cls'](e[1]), e[2], ', '.join(p_expr(a, st) for a in e[3]))
    raise ValueError(e)


def p_rhs(e, st, lay, ind):
    """text of a right-hand side under a layout; returns (text, trailer)"""
    t = p_expr(e, st)
    if lay == 'paren_ml' and e[0] == 'bin':
        return '(%s %s\n%s    %s)' % (p_expr(e[2], st), e[1], ind, p_expr(e[3], st)), ''
    if lay == 'backslash' and e[0] == 'bin':
        return '%s %s \\\n%s    %s' % (p_expr(e[2], st), e[1], ind, p_expr(e[3], st)), ''
    if lay == 'comment':
        return t, '  # set'
    if lay == 'semicolon':
        return t, '; pass'
    return t, ''


def p_stmt(c, st, ind, out):
    k = c[0]
    if k == 'pass':
        out.append(ind + 'pass')
    elif k == 'assign':
        out.append('%s%s = %s' % (ind, c[1], p_expr(c[2], st)))
    elif k == 'write':
        lay = c[5]
        eq = {'tight': '=', 'wide': '  =  '}.get(lay, ' = ')
        rhs, trailer = p_rhs(c[4], st, lay, ind)
        pre = 'zz = ' if lay == 'chained' else ''
        if lay == 'tuple':
            out.append('%s%s.%s, zz = %s, 0' % (ind, p_expr(c[2], st), c[3], rhs))
        else:
            out.append('%s%s%s.%s%s%s%s' % (ind, pre, p_expr(c[2], st), c[3], eq, rhs, trailer))
    elif k == 'aug':
        lay = c[6]
        eq = {'tight': '%s=' % c[4], 'wide': '  %s=  ' % c[4]}.get(lay, ' %s= ' % c[4])
        rhs, trailer = p_rhs(c[5], st, lay, ind)
        out.append('%s%s.%s%s%s%s' % (ind, p_expr(c[2], st), c[3], eq, rhs, trailer))
    elif k == 'expr':
        out.append(ind + p_expr(c[1], st))
    elif k == 'print':
        out.append('%sprint(%s)' % (ind, p_expr(c[1], st)))
    elif k == 'return':
        out.append('%sreturn %s' % (ind, p_expr(c[1], st)))
    elif k == 'return0':
        out.append(ind + 'return')
    elif k == 'if':
        out.append('%sif %s:' % (ind, p_expr(c[1], st)))
        p_block(c[2], st, ind + '    ', out)
        if c[3]:
            out.append(ind + 'else:')
            p_block(c[3], st, ind + '    ', out)
    elif k == 'while':
        out.append('%swhile %s:' % (ind, p_expr(c[1], st)))
        p_block(c[2], st, ind + '    ', out)
    else:
        raise ValueError(c)


def p_block(b, st, ind, out):
    if not b:
        out.append(ind + 'pass')
    for c in b:
        p_stmt(c, st, ind, out)


def p_def(d, st, ind, out):
    if d['static']:
        out.append(ind + '@staticmethod')
    out.append('%sdef %s(%s):' % (ind, d['name'], ', '.join(d['params'])))
    p_block(d['body'][1], st, ind + '    ', out)


def print_project(prj):
    """-> {module name: source}.  Modules: ma (classes + some functions), mb (functions), main."""
    style = prj['style']
    cls_mod = 'ma'
    srcs = {}
    classes = [c['name'] for c in prj['classes']]
    for mod in ('ma', 'mb', 'main'):
        out = []
        funcs_here = [d for d in prj['funcs'] if prj['where'][d['name']] == mod]
        imp_style = style.get(mod, 'from')

        def clsname(c, mod=mod, imp_style=imp_style):
            if mod == cls_mod or imp_style == 'from':
                return c
            return cls_mod + '.' + c

        def funcname(f, mod=mod, imp_style=imp_style):
            m = prj['where'][f]
            if m == mod or imp_style == 'from':
                return f
            return m + '.' + f
        st = {'cls': clsname, 'func': funcname, 'kw_new': style.get('kw_new')}
        if mod != 'ma':
            others = ['ma'] if mod == 'mb' else ['ma', 'mb']
            for o in others:
                names = (classes if o == 'ma' else []) + [d['name'] for d in prj['funcs'] if prj['where'][d['name']] == o]
                if imp_style == 'from':
                    if names:
                        out.append('from %s import %s' % (o, ', '.join(names)))
                else:
                    out.append('import %s' % o)
            out.append('')
        if mod != 'ma' and style.get('noise'):
            # the factory's / class's names in a comment and in a string statement of the client
            out.append('# create C here; C.create, create_all')
            out.append('"create C create"')
            out.append('')
        if mod == 'ma':
            bases = {c.get('base') for c in prj['classes']}
            ordered = [c for c in prj['classes'] if c['name'] in bases] + [c for c in prj['classes'] if c['name'] not in bases]
            for c in ordered:
                out.append('class %s(%s):' % (c['name'], c.get('base') or 'object'))
                if style.get('docstring'):
                    out.append('    """a class"""')
                for d in c['methods']:
                    out.append('')
                    p_def(d, st, '    ', out)
                out.append('')
                out.append('')
        for d in funcs_here:
            p_def(d, st, '', out)
            out.append('')
            out.append('')
        if mod == 'main':
            p_block(prj['main'], st, '', out)
        srcs[mod] = '\n'.join(out).rstrip('\n') + '\n'
        if mod == 'main' and style.get('no_final_newline'):
            srcs[mod] = srcs[mod].rstrip('\n')          # the text ends with the last statement's last character
    return srcs


# ----------------------------------------------------------------------------------------- parser
class Unsupported(Exception):
    pass


class Parser:
    """Python source of the three modules -> project IR in erased form (no parens, tags False)."""

    def __init__(self, classes, mods=('ma', 'mb', 'main')):
        self.classes = set(classes)
        self.mods = set(mods)

    def expr(self, n):
        if isinstance(n, ast.Constant):
            if n.value is None:
                return ('none',)
            if isinstance(n.value, bool) or not isinstance(n.value, int):
                raise Unsupported(ast.dump(n))
            return ('int', n.value)
        if isinstance(n, ast.UnaryOp) and isinstance(n.op, ast.USub) and isinstance(n.operand, ast.Constant):
            return ('int', -n.operand.value)
        if isinstance(n, ast.Name):
            return ('var', n.id)
        if isinstance(n, ast.Attribute):
            return ('attr', False, self.expr(n.value), n.attr)
        if isinstance(n, ast.BinOp) and type(n.op) in AST_OPS:
            return ('bin', AST_OPS[type(n.op)], self.expr(n.left), self.expr(n.right))
        if isinstance(n, ast.Compare) and len(n.ops) == 1 and type(n.ops[0]) in AST_CMP:
            return ('bin', AST_CMP[type(n.ops[0])], self.expr(n.left), self.expr(n.comparators[0]))
        if isinstance(n, ast.Call):
            args = [self.expr(a) for a in n.args]
            f = n.func
            if n.keywords:
                # only the keyword spelling `C(v=e)` / `C.create(v=e)` of the constructor's single parameter
                if len(n.keywords) == 1 and n.keywords[0].arg == 'v' and not n.args:
                    args = [self.expr(n.keywords[0].value)]
                else:
                    raise Unsupported('keywords')
            # strip a module qualifier
            if isinstance(f, ast.Attribute) and isinstance(f.value, ast.Name) and f.value.id in self.mods:
                f = ast.Name(id=f.attr)
            if isinstance(f, ast.Call):
                return ('meth', self.expr(f), '__call__', args)       # K(params)()
            if isinstance(f, ast.Name):
                if f.id in self.classes:
                    return ('new', f.id, args)
                return ('call', f.id, args)
            if isinstance(f, ast.Attribute):
                v = f.value
                if isinstance(v, ast.Attribute) and isinstance(v.value, ast.Name) and v.value.id in self.mods \
                        and v.attr in self.classes:
                    return ('static', v.attr, f.attr, args)
                if isinstance(v, ast.Name) and v.id in self.classes:
                    return ('static', v.id, f.attr, args)
                return ('meth', self.expr(v), f.attr, args)
        raise Unsupported(ast.dump(n))

    def stmt(self, n):
        if isinstance(n, ast.Pass):
            return ('pass',)
        if isinstance(n, ast.Assign) and len(n.targets) == 1:
            t = n.targets[0]
            if isinstance(t, ast.Name):
                return ('assign', t.id, self.expr(n.value))
            if isinstance(t, ast.Attribute):
                return ('write', False, self.expr(t.value), t.attr, self.expr(n.value), 'plain')
        if isinstance(n, ast.AugAssign) and isinstance(n.target, ast.Attribute) and type(n.op) in AST_OPS:
            return ('aug', False, self.expr(n.target.value), n.target.attr, AST_OPS[type(n.op)],
                    self.expr(n.value), 'plain')
        if isinstance(n, ast.Expr):
            v = n.value
            if isinstance(v, ast.Call) and isinstance(v.func, ast.Name) and v.func.id == 'print' and len(v.args) == 1:
                return ('print', self.expr(v.args[0]))
            if isinstance(v, ast.Constant) and isinstance(v.value, str):
                return None          # docstring
            return ('expr', self.expr(v))
        if isinstance(n, ast.Return) and n.value is not None:
            return ('return', self.expr(n.value))
        if isinstance(n, ast.If):
            return ('if', self.expr(n.test), self.block(n.body), self.block(n.orelse))
        if isinstance(n, ast.While) and not n.orelse:
            return ('while', self.expr(n.test), self.block(n.body))
        raise Unsupported(ast.dump(n))

    def block(self, body):
        res = [self.stmt(c) for c in body]
        return [c for c in res if c is not None and c != ('pass',)]

    def fdef(self, n):
        a = n.args
        static = any(isinstance(d, ast.Name) and d.id == 'staticmethod' for d in n.decorator_list)
        if a.vararg is not None or a.kwarg is not None:
            # def name(*args, **kwds): return C(*args, **kwds)
            if (a.vararg and a.kwarg and not a.args and len(n.body) == 1 and isinstance(n.body[0], ast.Return)
                    and isinstance(n.body[0].value, ast.Call)):
                call = n.body[0].value
                f = call.func
                if (isinstance(f, ast.Name) and f.id in self.classes and len(call.args) == 1
                        and isinstance(call.args[0], ast.Starred) and isinstance(call.args[0].value, ast.Name)
                        and call.args[0].value.id == a.vararg.arg and len(call.keywords) == 1
                        and call.keywords[0].arg is None and isinstance(call.keywords[0].value, ast.Name)
                        and call.keywords[0].value.id == a.kwarg.arg):
                    return {'name': n.name, 'static': static, 'params': [], 'body': ('forward', f.id)}
            raise Unsupported('varargs')
        if a.defaults or a.kwonlyargs or a.posonlyargs:
            raise Unsupported('params')
        if n.decorator_list and not static:
            raise Unsupported('decorator')
        return {'name': n.name, 'static': static, 'params': [x.arg for x in a.args],
                'body': ('code', self.block(n.body))}

    def project(self, srcs, func_order=(), class_order=()):
        classes, funcs, main, where = [], [], [], {}
        for mod in ('ma', 'mb', 'main'):
            tree = ast.parse(srcs[mod])
            for n in tree.body:
                if isinstance(n, (ast.Import, ast.ImportFrom)):
                    continue
                if isinstance(n, ast.ClassDef):
                    ms = []
                    for b in n.body:
                        if isinstance(b, ast.FunctionDef):
                            ms.append(self.fdef(b))
                        elif isinstance(b, ast.Expr) and isinstance(b.value, ast.Constant):
                            continue
                        elif isinstance(b, ast.Pass):
                            continue
                        else:
                            raise Unsupported(ast.dump(b))
                    base = None
                    if n.bases and isinstance(n.bases[0], ast.Name) and n.bases[0].id != 'object':
                        base = n.bases[0].id
                    classes.append({'name': n.name, 'base': base, 'methods': ms})
                elif isinstance(n, ast.FunctionDef):
                    funcs.append(self.fdef(n))
                    where[n.name] = mod
                elif isinstance(n, ast.Expr) and isinstance(n.value, ast.Constant) and isinstance(n.value.value, str):
                    continue             # a string statement (docstring-like)
                elif mod == 'main':
                    s = self.stmt(n)
                    if s is not None and s != ('pass',):
                        main.append(s)
                else:
                    raise Unsupported('module-level statement in %s: %s' % (mod, ast.dump(n)))
        order = {f: i for i, f in enumerate(func_order)}
        funcs.sort(key=lambda d: order.get(d['name'], len(order)))
        corder = {c: i for i, c in enumerate(class_order)}
        classes.sort(key=lambda d: corder.get(d['name'], len(corder)))
        return {'classes': classes, 'funcs': funcs, 'main': main, 'where': where}


def erase_e(e):
    k = e[0]
    if k in ('int', 'none', 'var'):
        return e
    if k == 'paren':
        return erase_e(e[1])
    if k == 'attr':
        return ('attr', False, erase_e(e[2]), e[3])
    if k == 'bin':
        return ('bin', e[1], erase_e(e[2]), erase_e(e[3]))
    if k == 'call':
        return ('call', e[1], [erase_e(a) for a in e[2]])
    if k == 'meth':
        return ('meth', erase_e(e[1]), e[2], [erase_e(a) for a in e[3]])
    if k == 'new':
        return ('new', e[1], [erase_e(a) for a in e[2]])
    if k == 'static':
        return ('static', e[1], e[2], [erase_e(a) for a in e[3]])
    raise ValueError(e)


def erase_s(c):
    k = c[0]
    if k == 'pass':
        return c
    if k == 'assign':
        return ('assign', c[1], erase_e(c[2]))
    if k == 'write':
        return ('write', False, erase_e(c[2]), c[3], erase_e(c[4]), 'plain')
    if k == 'aug':
        return ('aug', False, erase_e(c[2]), c[3], c[4], erase_e(c[5]), 'plain')
    if k in ('expr', 'print', 'return'):
        return (k, erase_e(c[1]))
    if k == 'if':
        return ('if', erase_e(c[1]), erase_b(c[2]), erase_b(c[3]))
    if k == 'while':
        return ('while', erase_e(c[1]), erase_b(c[2]))
    raise ValueError(c)


def erase_b(b):
    return [erase_s(c) for c in b if c[0] != 'pass']


def erase_project(prj):
    def em(d):
        body = d['body'] if d['body'][0] == 'forward' else ('code', erase_b(d['body'][1]))
        return {'name': d['name'], 'static': d['static'], 'params': list(d['params']), 'body': body}
    return {'classes': [{'name': c['name'], 'base': c.get('base'), 'methods': [em(d) for d in c['methods']]}
                        for c in prj['classes']],
            'funcs': [em(d) for d in prj['funcs']], 'main': erase_b(prj['main'])}


# ----------------------------------------------------------------------------------------- Gallina
class Interner:
    def __init__(self):
        self.t = {'__init__': 0}

    def __call__(self, s):
        if s not in self.t:
            self.t[s] = len(self.t)
        return '%d%%N' % self.t[s]


def g_list(xs):
    return '[' + '; '.join(xs) + ']'


def g_bool(b):
    return 'true' if b else 'false'


def g_expr(e, I):
    k = e[0]
    if k == 'int':
        return '(EInt (%d)%%Z)' % e[1]
    if k == 'none':
        return 'ENone'
    if k == 'var':
        return '(EVar %s)' % I(e[1])
    if k == 'paren':
        return '(EParen %s)' % g_expr(e[1], I)
    if k == 'attr':
        return '(EAttr %s %s %s)' % (g_bool(e[1]), g_expr(e[2], I), I(e[3]))
    if k == 'bin':
        return '(EBin %s %s %s)' % (OPS[e[1]], g_expr(e[2], I), g_expr(e[3], I))
    if k == 'call':
        return '(ECall %s %s)' % (I(e[1]), g_list([g_expr(a, I) for a in e[2]]))
    if k == 'meth':
        return '(EMeth %s %s %s)' % (g_expr(e[1], I), I(e[2]), g_list([g_expr(a, I) for a in e[3]]))
    if k == 'new':
        return '(ENew %s %s)' % (I(e[1]), g_list([g_expr(a, I) for a in e[2]]))
    if k == 'static':
        return '(EStatic %s %s %s)' % (I(e[1]), I(e[2]), g_list([g_expr(a, I) for a in e[3]]))
    raise ValueError(e)


def g_stmt(c, I):
    k = c[0]
    if k == 'pass':
        return 'SPass'
    if k == 'assign':
        return '(SAssign %s %s)' % (I(c[1]), g_expr(c[2], I))
    if k == 'write':
        return '(SWrite %s %s %s %s)' % (g_bool(c[1]), g_expr(c[2], I), I(c[3]), g_expr(c[4], I))
    if k == 'aug':
        return '(SAug %s %s %s %s %s)' % (g_bool(c[1]), g_expr(c[2], I), I(c[3]), OPS[c[4]], g_expr(c[5], I))
    if k == 'expr':
        return '(SExpr %s)' % g_expr(c[1], I)
    if k == 'print':
        return '(SPrint %s)' % g_expr(c[1], I)
    if k == 'return':
        return '(SReturn %s)' % g_expr(c[1], I)
    if k == 'if':
        return '(SIf %s %s %s)' % (g_expr(c[1], I), g_block(c[2], I), g_block(c[3], I))
    if k == 'while':
        return '(SWhile %s %s)' % (g_expr(c[1], I), g_block(c[2], I))
    raise ValueError(c)


def g_block(b, I):
    return g_list([g_stmt(c, I) for c in b])


def g_mdef(d, I):
    body = ('(BForward %s)' % I(d['body'][1])) if d['body'][0] == 'forward' else '(BCode %s)' % g_block(d['body'][1], I)
    return '{| m_name := %s; m_static := %s; m_params := %s; m_body := %s |}' % (
        I(d['name']), g_bool(d['static']), g_list([I(p) for p in d['params']]), body)


def g_prog(prj, I):
    cs = ['{| c_name := %s; c_base := %s; c_methods := %s |}' % (
        I(c['name']), ('(Some %s)' % I(c['base'])) if c.get('base') else 'None',
        g_list([g_mdef(d, I) for d in c['methods']])) for c in prj['classes']]
    return '{| p_classes := %s; p_funcs := %s; p_main := %s |}' % (
        g_list(cs), g_list([g_mdef(d, I) for d in prj['funcs']]), g_block(prj['main'], I))


def g_value(s):
    s = s.strip()
    if s == 'None':
        return 'VNone'
    if s == 'True':
        return '(VBool true)'
    if s == 'False':
        return '(VBool false)'
    return '(VInt (%d)%%Z)' % int(s)


# ----------------------------------------------------------------------------------------- generator
class Gen:
    """One project.  opts: hazard in {None, 'aug-precedence', 'effectful-primary', 'comment', 'semicolon',
    'chained', 'name-clash'}; exactly one statement carrying the hazard is planted."""

    def __init__(self, rng, hazard=None, inherit=None):
        self.rng = rng
        self.hazard = hazard
        self.inherit = inherit          # None | 'clash' (base class defines get_x / set_x) | 'plain'
        self.planted = False
        self.counts = {}
        self.fld = 'x'
        self.has_d = rng.random() < 0.7
        self.d_has_x = self.has_d and rng.random() < 0.6
        self.funcs = []          # generated so far: dict name -> (params kinds, returns)
        self.fsig = {}
        self.where = {}
        self.cmethods = {}       # name -> (n int params, returns int)
        self.defining = '__init__'

    def cnt(self, key):
        self.counts[key] = self.counts.get(key, 0) + 1

    # ---- expressions ------------------------------------------------------------------------
    def int_atom(self, sc):
        r = self.rng
        ints = [v for v, t in sc['vars'].items() if t == 'int']
        k = r.random()
        if k < 0.3 or (not ints and k < 0.45):
            return ('int', r.choice([0, 1, 2, 3, 5, 7, -1]))
        if k < 0.55 and ints:
            return ('var', r.choice(ints))
        return self.field_read(sc)

    def simple_int(self, sc):
        ints = [v for v, t in sc['vars'].items() if t == 'int']
        if ints and self.rng.random() < 0.4:
            return ('var', self.rng.choice(ints))
        return ('int', self.rng.randint(0, 7))

    def recv(self, sc, for_write=False, pure_only=False):
        """(expr, tagged, kind) of an expression evaluating to a C instance"""
        r = self.rng
        cands = []
        for v, t in sc['vars'].items():
            if t == 'C':
                cands.append((('var', v), True, 'local'))
            elif t == 'Cparam':
                cands.append((('var', v), False, 'param'))
            elif t == 'D':
                cands.append((('attr', False, ('var', v), 'c'), True, 'chain'))
            elif t == 'selfC':
                cands.append((('var', v), True, 'self'))
        if not pure_only and not for_write and r.random() < 0.25:
            mk = [f for f, s in self.fsig.items() if s['ret'] == 'C' and s['params'] == ['int']]
            if mk:
                cands.append((('call', r.choice(mk), [('int', r.randint(1, 4))]), True, 'callret'))
            cands.append((('new', 'C', [('int', r.randint(1, 4))]), True, 'fresh'))
        if not cands:
            return None
        return r.choice(cands)

    def field_read(self, sc):
        r = self.rng
        rc = self.recv(sc)
        k = r.random()
        if rc is None or k < 0.15:
            ds = [v for v, t in sc['vars'].items() if t == 'D']
            if ds and self.d_has_x:
                self.cnt('shape:read-other-class-same-field')
                return ('attr', False, ('var', r.choice(ds)), 'x')
            if rc is None:
                return ('int', r.randint(0, 9))
        e, tagged, kind = rc
        f = 'x' if r.random() < 0.8 else 'y'
        if f == 'x':
            self.cnt('shape:read:' + kind)
        if r.random() < 0.1:
            e = ('paren', e)
        return ('attr', tagged and f == 'x', e, f)

    def int_expr(self, sc, depth=0):
        r = self.rng
        k = r.random()
        if depth >= 2 or k < 0.4:
            return self.int_atom(sc)
        if k < 0.8:
            op = r.choice(['+', '-', '*', '+', '-', '%', '//'])
            a = self.int_expr(sc, depth + 1)
            b = self.int_expr(sc, depth + 1)
            if op in ('%', '//'):
                b = ('int', r.choice([2, 3, 5]))
            return ('bin', op, self.wrap(a, PREC[op], False), self.wrap(b, PREC[op], True))
        if k < 0.9:
            # method call returning int
            rc = self.recv(sc, pure_only=True)
            ms = [(m, s) for m, s in self.cmethods.items() if s['ret'] == 'int' and m in sc['callable_methods']]
            if rc is not None and ms and rc[2] != 'self':
                m, s = r.choice(ms)
                self.cnt('shape:method-call')
                return ('meth', rc[0], m, [self.int_atom(sc) for _ in range(s['n'])])
            return self.int_atom(sc)
        fs = [(f, s) for f, s in self.fsig.items() if s['ret'] == 'int' and f in sc['callable_funcs']]
        if fs:
            f, s = r.choice(fs)
            args = self.args_for(s, sc)
            if args is not None:
                self.cnt('shape:function-call')
                return ('call', f, args)
        return self.int_atom(sc)

    def args_for(self, sig, sc):
        args = []
        for p in sig['params']:
            if p == 'int':
                args.append(self.int_atom(sc))
            else:
                rc = self.recv(sc, pure_only=True)
                if rc is None:
                    return None
                args.append(rc[0])
        return args

    def wrap(self, e, prec, right):
        if e[0] == 'bin' and (PREC[e[1]] < prec or (PREC[e[1]] == prec and right) or PREC[e[1]] == 1):
            return ('paren', e)
        if e[0] == 'bin' and self.rng.random() < 0.15:
            return ('paren', e)
        return e

    def cond(self, sc):
        r = self.rng
        a = self.int_expr(sc, 1)
        b = self.int_atom(sc)
        op = r.choice(['<', '=='])
        return ('bin', op, self.wrap(a, 2, False), self.wrap(b, 2, True))

    # ---- statements -------------------------------------------------------------------------
    def layout(self):
        r = self.rng
        return r.choice(['plain', 'plain', 'plain', 'tight', 'wide', 'paren_ml', 'backslash'])

    def pure_int(self, sc, depth=0):
        """effect-free int expression (no calls)"""
        r = self.rng
        k = r.random()
        if depth >= 2 or k < 0.5:
            ints = [v for v, t in sc['vars'].items() if t == 'int']
            if ints and r.random() < 0.5:
                return ('var', r.choice(ints))
            rc = self.recv(sc, pure_only=True)
            if rc is not None and r.random() < 0.5:
                f = 'x' if r.random() < 0.8 else 'y'
                return ('attr', rc[1] and f == 'x', rc[0], f)
            return ('int', r.randint(0, 9))
        op = r.choice(['+', '-', '*'])
        a = self.pure_int(sc, depth + 1)
        b = self.pure_int(sc, depth + 1)
        return ('bin', op, self.wrap(a, PREC[op], False), self.wrap(b, PREC[op], True))

    def write_stmt(self, sc):
        r = self.rng
        rc = self.recv(sc, for_write=True, pure_only=True)
        if rc is None:
            return None
        p, tagged, kind = rc
        f = 'x' if r.random() < 0.85 else 'y'
        tag = tagged and f == 'x'
        aug = r.random() < 0.45
        lay = self.layout()
        if aug:
            op = r.choice(AUG_OPS)
            e = self.int_expr(sc, 1)
            if op in ('//', '%'):
                e = ('int', r.choice([2, 3, 5]))
            # (since fix f343c81 rope parenthesises such a right-hand side itself: no parentheses are forced here)
            if f == 'x':
                self.cnt('shape:aug:' + kind)
            return ('aug', tag, p, f, op, e, lay)
        if kind == 'chain':
            e = self.pure_int(sc)
        else:
            e = self.int_expr(sc)
        if f == 'x':
            self.cnt('shape:write:' + kind)
        return ('write', tag, p, f, e, lay)

    def hazard_stmt(self, sc):
        """the one statement that carries the planted hazard (None if impossible in this scope)"""
        r = self.rng
        h = self.hazard
        locs = [v for v, t in sc['vars'].items() if t in ('C', 'selfC')]
        if not locs:
            return None
        p = ('var', r.choice(locs))
        if h == 'aug-precedence':
            op = r.choice(['*', '-', '*', '//', '%'])
            inner = r.choice(['+', '-']) if op != '-' else '-'
            e = ('bin', inner, ('int', r.randint(1, 5)), ('int', r.randint(1, 5)))
            return ('aug', True, p, 'x', op, e, 'plain')
        if h == 'effectful-primary':
            ids = [f for f, s in self.fsig.items() if s.get('noisy_id') and f in sc['callable_funcs']]
            if not ids:
                return None
            pe = ('call', ids[0], [p])
            if r.random() < 0.5:
                return ('aug', True, pe, 'x', '+', ('int', 1), 'plain')
            noisy = [f for f, s in self.fsig.items() if s.get('noisy_int') and f in sc['callable_funcs']]
            if not noisy:
                return ('aug', True, pe, 'x', '+', ('int', 1), 'plain')
            return ('write', True, pe, 'x', ('call', noisy[0], [('int', r.randint(1, 5))]), 'plain')
        if h == 'misread-write':
            ints = [v for v, t in sc['vars'].items() if t == 'int']
            n = ('var', r.choice(ints)) if ints else ('int', r.randint(0, 3))
            rd = ('attr', True, p, 'x')
            c = ('bin', '==', ('paren', ('bin', '+', n, rd)), ('int', r.randint(0, 9)))
            if r.random() < 0.5:
                return ('print', c)
            return ('if', c, [('print', ('int', 1))], [])
        if h == 'tuple':
            return ('write', True, p, 'x', ('int', r.randint(0, 9)), 'tuple')
        if h in ('comment', 'semicolon', 'chained'):
            if r.random() < 0.5 and h != 'chained':
                return ('aug', True, p, 'x', '+', ('int', r.randint(1, 5)), h)
            return ('write', True, p, 'x', self.pure_int(sc), h)
        return None

    def stmts(self, sc, n, depth=0, allow_return=False):
        r = self.rng
        out = []
        for _ in range(n):
            if self.hazard and not self.planted and self.hazard != 'name-clash' and r.random() < 0.4:
                hs = self.hazard_stmt(sc)
                if hs is not None:
                    self.planted = True
                    out.append(hs)
                    if self.hazard == 'chained':
                        out.append(('print', ('var', 'zz')))
                    continue
            k = r.random()
            if k < 0.30:
                w = self.write_stmt(sc)
                if w is not None:
                    out.append(w)
                    continue
            if k < 0.50:
                out.append(('print', self.int_expr(sc)))
            elif k < 0.62:
                v = r.choice(['i', 'n', 't', 'x'])
                if sc['vars'].get(v, 'int') == 'int' and v not in sc.get('frozen', ()):
                    e = self.int_expr(sc)
                    sc['vars'][v] = 'int'
                    out.append(('assign', v, e))
                else:
                    out.append(('print', self.int_expr(sc)))
            elif k < 0.72:
                v = r.choice(['a', 'b'])
                if sc['vars'].get(v, 'C') == 'C' and depth == 0:
                    mk = [f for f, s in self.fsig.items() if s['ret'] == 'C' and s['params'] == ['int']
                          and f in sc['callable_funcs']]
                    # no reference to the variable itself on the right-hand side (rope's inference gives up on
                    # `a = f(a.x)`; which occurrences are found is C02's subject)
                    arg = self.int_atom(sc) if v not in sc['vars'] else ('int', r.randint(0, 7))
                    if mk and r.random() < 0.3:
                        # rope's inference gives up on nested calls of the same function: f0(f0(1).y)
                        e = ('call', r.choice(mk), [self.simple_int(sc) if v not in sc['vars'] else arg])
                        self.cnt('shape:object-from-function')
                    else:
                        e = ('new', 'C', [arg])
                    out.append(('assign', v, e))
                    sc['vars'][v] = 'C'
                else:
                    out.append(('print', self.int_expr(sc)))
            elif k < 0.78 and self.has_d and depth == 0:
                if sc['vars'].get('d', 'D') == 'D':
                    arg = self.int_atom(sc) if 'd' not in sc['vars'] else ('int', r.randint(0, 7))
                    out.append(('assign', 'd', ('new', 'D', [arg])))
                    sc['vars']['d'] = 'D'
            elif k < 0.86 and depth < 2:
                c = self.cond(sc)
                sub = dict(sc, vars=dict(sc['vars']))
                a = self.stmts(sub, r.randint(1, 2), depth + 1)
                sub2 = dict(sc, vars=dict(sc['vars']))
                b = self.stmts(sub2, r.randint(0, 2), depth + 1) if r.random() < 0.5 else []
                out.append(('if', c, a, b))
                self.cnt('shape:if')
            elif k < 0.92 and depth < 1:
                # bounded loop on a fresh counter
                cv = 'k%d' % depth
                if cv in sc['vars']:
                    continue
                sc['vars'][cv] = 'int'
                sub = dict(sc, vars=dict(sc['vars']), frozen=set(sc.get('frozen', ())) | {cv})
                body = self.stmts(sub, r.randint(1, 2), depth + 1)
                body.append(('assign', cv, ('bin', '+', ('var', cv), ('int', 1))))
                out.append(('assign', cv, ('int', 0)))
                out.append(('while', ('bin', '<', ('var', cv), ('int', r.randint(1, 3))), body))
                self.cnt('shape:while')
            else:
                # expression statement: method call
                rc = self.recv(sc, pure_only=True)
                ms = [(m, s) for m, s in self.cmethods.items() if m in sc['callable_methods']]
                if rc is not None and ms and rc[2] != 'self':
                    m, s = r.choice(ms)
                    out.append(('expr', ('meth', rc[0], m, [self.int_atom(sc) for _ in range(s['n'])])))
                else:
                    out.append(('print', self.int_expr(sc)))
        return out

    # ---- definitions ------------------------------------------------------------------------
    def method(self, name, nparams, ret):
        r = self.rng
        params = ['self'] + ['n', 'x'][:nparams] if r.random() < 0.5 else ['self'] + ['n', 'i'][:nparams]
        sc = {'vars': {'self': 'selfC'}, 'callable_methods': set(), 'callable_funcs': set(self.early_funcs)}
        for p in params[1:]:
            sc['vars'][p] = 'int'
        if r.random() < 0.3:
            params.append('o')
            sc['vars']['o'] = 'Cparam'
            nobj = 1
        else:
            nobj = 0
        body = self.stmts(sc, r.randint(1, 4))
        if ret == 'int':
            body.append(('return', self.int_expr(sc)))
        if nobj == 0:
            self.cmethods[name] = {'n': nparams, 'ret': ret}
        return {'name': name, 'static': False, 'params': params, 'body': ('code', body)}

    def function(self, name, mod):
        r = self.rng
        kind = r.choice(['int', 'int', 'C', 'none'])
        params, ptypes = [], []
        sc = {'vars': {}, 'callable_methods': set(self.cmethods), 'callable_funcs': set(self.fsig)}
        for p in r.sample(['n', 'i', 'x'], r.randint(0, 2)):
            params.append(p)
            ptypes.append('int')
            sc['vars'][p] = 'int'
        if r.random() < 0.45:
            params.append('p')
            ptypes.append('C')
            sc['vars']['p'] = 'Cparam'
        if kind == 'C':
            params, ptypes = ['n'], ['int']
            sc['vars'] = {'n': 'int'}
        body = []
        if r.random() < 0.8 or kind == 'C':
            body.append(('assign', 'a', ('new', 'C', [self.int_atom(sc)])))
            sc['vars']['a'] = 'C'
        body += self.stmts(sc, r.randint(2, 5))
        if kind == 'int':
            body.append(('return', self.int_expr(sc)))
        elif kind == 'C':
            body.append(('return', ('var', 'a')))
        self.fsig[name] = {'params': ptypes, 'ret': kind}
        self.where[name] = mod
        return {'name': name, 'static': False, 'params': params, 'body': ('code', body)}

    def project(self):
        r = self.rng
        self.early_funcs = []
        funcs = []
        # noisy helpers (only used by the effectful-primary hazard)
        if self.hazard == 'effectful-primary':
            funcs.append({'name': 'ident', 'static': False, 'params': ['o'],
                          'body': ('code', [('print', ('int', 77)), ('return', ('var', 'o'))])})
            self.fsig['ident'] = {'params': ['C'], 'ret': 'obj', 'noisy_id': True}
            self.where['ident'] = 'ma'
            funcs.append({'name': 'noisy', 'static': False, 'params': ['n'],
                          'body': ('code', [('print', ('int', 88)), ('return', ('var', 'n'))])})
            self.fsig['noisy'] = {'params': ['int'], 'ret': 'int', 'noisy_int': True}
            self.where['noisy'] = 'ma'
            self.early_funcs = []
        # class C
        init = {'name': '__init__', 'static': False, 'params': ['self', 'v'],
                'body': ('code', [('write', True, ('var', 'self'), 'x', ('var', 'v'), 'plain'),
                                  ('write', False, ('var', 'self'), 'y', ('int', r.randint(0, 3)), 'plain')])}
        if r.random() < 0.3:
            init['body'][1].append(('aug', True, ('var', 'self'), 'x', '+', ('int', 1), 'plain'))
        methods = []
        names = r.sample(['inc', 'bump', 'peek', 'mix'], r.randint(0, 3))
        early = None
        if r.random() < 0.2:
            # a method that textually precedes __init__ and assigns the field: it becomes the defining method
            early = {'name': 'reset', 'static': False, 'params': ['self'],
                     'body': ('code', [('write', True, ('var', 'self'), 'x', ('int', 0), 'plain')])}
            self.defining = 'reset'
            self.cmethods['reset'] = {'n': 0, 'ret': 'none'}
            self.cnt('shape:defining-method-is-not-init')
        base = None
        if self.inherit:
            bm = []
            which = r.choice(['get', 'set', 'both']) if self.inherit == 'clash' else 'none'
            if which in ('get', 'both'):
                bm.append({'name': 'get_x', 'static': False, 'params': ['self'],
                           'body': ('code', [('return', ('bin', '*', ('attr', False, ('var', 'self'), 'x'), ('int', 10)))])})
                self.cmethods['get_x'] = {'n': 0, 'ret': 'int'}
            if which in ('set', 'both'):
                bm.append({'name': 'set_x', 'static': False, 'params': ['self', 'n'],
                           'body': ('code', [('write', False, ('var', 'self'), 'x', ('bin', '//', ('var', 'n'), ('int', 2)), 'plain')])})
                self.cmethods['set_x'] = {'n': 1, 'ret': 'none'}
            bm.append({'name': 'scaled', 'static': False, 'params': ['self'],
                       'body': ('code', [('return', ('bin', '+', ('bin', '*', ('attr', False, ('var', 'self'), 'x'), ('int', 3)), ('int', 1)))])})
            self.cmethods['scaled'] = {'n': 0, 'ret': 'int'}
            base = {'name': 'B', 'base': None, 'methods': bm}
            self.cnt('shape:inheritance:' + which)
        for nm in names:
            methods.append(self.method(nm, r.randint(0, 1), r.choice(['int', 'int', 'none'])))
        if self.hazard == 'name-clash':
            methods.append({'name': 'get_x', 'static': False, 'params': ['self'],
                            'body': ('code', [('return', ('bin', '+', ('attr', True, ('var', 'self'), 'x'), ('int', 100)))])})
            self.cmethods['get_x'] = {'n': 0, 'ret': 'int'}
            self.planted = True
        cm = ([early] if early else []) + [init] + methods
        if early and r.random() < 0.5:
            cm = [early, methods[0], init] + methods[1:] if methods else cm
        classes = [{'name': 'C', 'base': 'B' if base else None, 'methods': cm}]
        if self.has_d:
            dinit = [('write', False, ('var', 'self'), 'c', ('new', 'C', [('var', 'v')]), 'plain')]
            if self.d_has_x:
                dinit.append(('write', False, ('var', 'self'), 'x', ('bin', '+', ('var', 'v'), ('int', 10)), 'plain'))
            dm = [{'name': '__init__', 'static': False, 'params': ['self', 'v'], 'body': ('code', dinit)}]
            self.d_create = r.random() < 0.5
            if self.d_create:
                # an unrelated method that is spelled like the factory
                dm.append({'name': 'create', 'static': False, 'params': ['self', 'n'],
                           'body': ('code', [('return', ('bin', '+', ('attr', True, ('attr', False, ('var', 'self'), 'c'), 'x'), ('var', 'n')))])})
                self.cnt('shape:unrelated-method-named-like-the-factory')
            classes.append({'name': 'D', 'base': None, 'methods': dm})
        if base:
            classes.append(base)
        # functions
        nf = r.randint(1, 3)
        fnames = ['f0', 'f1', 'f2']
        if r.random() < 0.4:
            fnames[r.randint(0, 2)] = r.choice(['create_f', 'recreate', 'C_create'])
            self.cnt('shape:function-name-contains-factory-or-class-name')
        for i in range(nf):
            mod = 'ma' if (i == 0 and r.random() < 0.3) else 'mb'
            funcs.append(self.function(fnames[i], mod))
        # main
        sc = {'vars': {}, 'callable_methods': set(self.cmethods), 'callable_funcs': set(self.fsig)}
        main = [('assign', 'a', ('new', 'C', [('int', r.randint(1, 5))]))]
        sc['vars']['a'] = 'C'
        main += self.stmts(sc, r.randint(3, 7))
        for f, s in self.fsig.items():
            if s.get('noisy_id') or s.get('noisy_int'):
                continue
            args = self.args_for(s, sc)
            if args is None:
                continue
            if s['ret'] == 'C':
                args = [self.simple_int(sc) for _ in args]
            call = ('call', f, args)
            if s['ret'] == 'int':
                main.append(('print', call))
            elif s['ret'] == 'C':
                main.append(('print', ('attr', True, call, 'x')))
            else:
                main.append(('expr', call))
        if self.has_d and getattr(self, 'd_create', False):
            main.append(('assign', 'd', ('new', 'D', [('int', r.randint(1, 5))])))
            main.append(('print', ('meth', ('var', 'd'), 'create', [('int', r.randint(0, 4))])))
        if self.inherit:
            for m in ('get_x', 'scaled'):
                if m in self.cmethods:
                    main.append(('print', ('meth', ('var', 'a'), m, [])))
            if 'set_x' in self.cmethods:
                main.append(('expr', ('meth', ('var', 'a'), 'set_x', [('int', r.randint(4, 30))])))
        main.append(('print', ('attr', True, ('var', 'a'), 'x')))
        no_nl = r.random() < 0.3
        if no_nl:
            # the module ends with a (plain or augmented) write of the field and without a newline character
            if r.random() < 0.5:
                main.append(('write', True, ('var', 'a'), 'x', self.pure_int(sc), r.choice(['plain', 'tight', 'wide'])))
            else:
                main.append(('aug', True, ('var', 'a'), 'x', r.choice(['+', '-', '*']), ('int', r.randint(1, 9)), 'plain'))
            self.cnt('shape:module-ends-with-a-write-without-newline')
        style = {'mb': r.choice(['from', 'mod']), 'main': r.choice(['from', 'mod']), 'docstring': r.random() < 0.2,
                 'kw_new': r.random() < 0.3, 'noise': r.random() < 0.5, 'no_final_newline': no_nl}
        return {'classes': classes, 'funcs': funcs, 'main': main, 'where': dict(self.where), 'style': style,
                'defining': self.defining, 'hazard': self.hazard if self.planted else None, 'inherit': self.inherit}


# ----------------------------------------------------------------------------------------- UseFunction scenarios
def plant_use_function(prj, rng, hazard=None):
    """Adds a helper function to module ma and instances of its body to the clients.  Returns the helper's name.
    hazard: None | 'temp-live' (a temporary of the matched statements is read afterwards) |
            'dup-effect' (a parameter used twice in the body is matched by an expression with an effect)."""
    kind = rng.choice(['expr', 'expr2', 'stmts', 'show', 'guard'])
    if hazard == 'temp-live':
        kind = 'stmts'
    if hazard == 'dup-effect':
        kind = 'expr'
    K = rng.randint(1, 4)
    if kind == 'expr':
        name, params = 'sq', ['p']
        body = [('return', ('bin', '+', ('bin', '*', ('var', 'p'), ('var', 'p')), ('int', K)))]

        def inst(args, out):
            return [('print', ('bin', '+', ('bin', '*', args[0], args[0]), ('int', K)))]
    elif kind == 'expr2':
        name, params = 'mixq', ['p', 'q']
        body = [('return', ('bin', '-', ('bin', '*', ('var', 'p'), ('int', K)), ('var', 'q')))]

        def inst(args, out):
            return [('print', ('bin', '-', ('bin', '*', args[0], ('int', K)), args[1]))]
    elif kind == 'stmts':
        name, params = 'calc', ['p', 'q']
        body = [('assign', 't', ('bin', '+', ('var', 'p'), ('var', 'q'))),
                ('return', ('bin', '*', ('var', 't'), ('int', K)))]

        def inst(args, out):
            r = [('assign', 'u', ('bin', '+', args[0], args[1])),
                 ('assign', 'w', ('bin', '*', ('var', 'u'), ('int', K))),
                 ('print', ('var', 'w'))]
            if hazard == 'temp-live':
                r.append(('print', ('var', 'u')))
            return r
    elif kind == 'guard':
        # a function that leaves early through a bare `return` (guard clause) and returns no value; the clients have
        # the same statements with `pass` in place of the return (UseFunction turns bare returns into pass when it
        # builds the pattern; HEAD refuses such a function: the return is not the last statement)
        name, params = 'guarded', ['p']
        G0 = rng.randint(2, 5)
        body = [('if', ('bin', '<', ('var', 'p'), ('int', G0)), [('return0',)], []),
                ('print', ('var', 'p')), ('print', ('bin', '+', ('var', 'p'), ('int', K)))]

        def inst(args, out):
            return [('if', ('bin', '<', args[0], ('int', G0)), [], []),
                    ('print', args[0]), ('print', ('bin', '+', args[0], ('int', K)))]
    else:
        name, params = 'show', ['p']
        body = [('print', ('var', 'p')), ('print', ('bin', '+', ('var', 'p'), ('int', K)))]

        def inst(args, out):
            return [('print', args[0]), ('print', ('bin', '+', args[0], ('int', K)))]
    helper = {'name': name, 'static': False, 'params': params, 'body': ('code', body)}
    prj['funcs'].insert(0, helper)
    prj['where'][name] = 'ma'
    if hazard == 'dup-effect':
        prj['funcs'].insert(0, {'name': 'noisy', 'static': False, 'params': ['n'],
                                'body': ('code', [('print', ('int', 88)), ('return', ('var', 'n'))])})
        prj['where']['noisy'] = 'ma'

    def atom(scope_has_a):
        k = rng.random()
        if hazard == 'dup-effect':
            return ('call', 'noisy', [('int', rng.randint(1, 5))])
        if scope_has_a and k < 0.5:
            return ('attr', True, ('var', 'a'), rng.choice(['x', 'y']))
        return ('int', rng.randint(0, 6))
    # main always has `a`
    pos = len(prj['main']) - 1
    prj['main'][pos:pos] = inst([atom(True) for _ in params], None)
    n = 1
    for d in prj['funcs']:
        if d['name'] in (name, 'noisy', 'ident'):
            continue
        b = d['body'][1]
        if b and b[0][0] == 'assign' and b[0][1] == 'a' and rng.random() < 0.7:
            at = len(b) - 1 if b[-1][0] == 'return' else len(b)
            b[at:at] = inst([atom(True) for _ in params], None)
            n += 1
    prj['usef'] = {'helper': name, 'kind': kind, 'hazard': hazard, 'instances': n}
    return name


def method_locals(prj):
    """(method name, local name) of assigned locals (not parameters) in methods of class C"""
    res = []
    for d in prj['classes'][0]['methods']:
        seen = []

        def walk(b):
            for c in b:
                if c[0] == 'assign' and c[1] not in d['params'] and c[1] not in seen:
                    seen.append(c[1])
                elif c[0] == 'if':
                    walk(c[2])
                    walk(c[3])
                elif c[0] == 'while':
                    walk(c[2])
        walk(d['body'][1])
        res.extend((d['name'], v) for v in seen)
    return res


# ----------------------------------------------------------------------------------------- finder tags
def retag_project(prj, fld, tags_by_mod):
    """Rebuilds the project with the tag of every `.fld` node set from tags_by_mod[mod]: a list of booleans in the
    textual order of the `.fld` occurrences of that module (the traversal mirrors the printer).  Returns
    (new project, number of nodes whose tag changed)."""
    changed = [0]

    def E(e, it):
        k = e[0]
        if k in ('int', 'none', 'var'):
            return e
        if k == 'paren':
            return ('paren', E(e[1], it))
        if k == 'attr':
            inner = E(e[2], it)
            tag = e[1]
            if e[3] == fld:
                tag = next(it)
                if tag != e[1]:
                    changed[0] += 1
            return ('attr', tag, inner, e[3])
        if k == 'bin':
            a = E(e[2], it)
            return ('bin', e[1], a, E(e[3], it))
        if k == 'call':
            return ('call', e[1], [E(a, it) for a in e[2]])
        if k == 'meth':
            r = E(e[1], it)
            return ('meth', r, e[2], [E(a, it) for a in e[3]])
        if k == 'new':
            return ('new', e[1], [E(a, it) for a in e[2]])
        if k == 'static':
            return ('static', e[1], e[2], [E(a, it) for a in e[3]])
        raise ValueError(e)

    def S(c, it):
        k = c[0]
        if k == 'pass':
            return c
        if k == 'assign':
            return ('assign', c[1], E(c[2], it))
        if k in ('write', 'aug'):
            p = E(c[2], it)
            tag = c[1]
            if c[3] == fld:
                tag = next(it)
                if tag != c[1]:
                    changed[0] += 1
            if k == 'write':
                return ('write', tag, p, c[3], E(c[4], it), c[5])
            return ('aug', tag, p, c[3], c[4], E(c[5], it), c[6])
        if k in ('expr', 'print', 'return'):
            return (k, E(c[1], it))
        if k == 'if':
            t = E(c[1], it)
            a = [S(x, it) for x in c[2]]
            return ('if', t, a, [S(x, it) for x in c[3]])
        if k == 'while':
            t = E(c[1], it)
            return ('while', t, [S(x, it) for x in c[2]])
        raise ValueError(c)

    def M(d, it):
        if d['body'][0] != 'code':
            return d
        return dict(d, body=('code', [S(c, it) for c in d['body'][1]]))
    its = {m: iter(v) for m, v in tags_by_mod.items()}
    new = dict(prj)
    # same order as the printer: base classes first
    bases = {c.get('base') for c in prj['classes']}
    ordered = [c for c in prj['classes'] if c['name'] in bases] + [c for c in prj['classes'] if c['name'] not in bases]
    done = {c['name']: dict(c, methods=[M(d, its['ma']) for d in c['methods']]) for c in ordered}
    new['classes'] = [done[c['name']] for c in prj['classes']]
    fs = {}
    for mod in ('ma', 'mb', 'main'):
        for d in prj['funcs']:
            if prj['where'][d['name']] == mod:
                fs[d['name']] = M(d, its[mod])
    new['funcs'] = [fs[d['name']] for d in prj['funcs']]
    new['main'] = [S(c, its['main']) for c in prj['main']]
    for m, it in its.items():
        if next(it, None) is not None:
            raise ValueError('more .%s occurrences in %s than attribute nodes' % (fld, m))
    return new, changed[0]


# ----------------------------------------------------------------------------------------- nesting scenarios
def nest_project(rng):
    """A project (text only, execution oracle only) whose functions live at nesting depth 1-3 below the module, each
    followed by further members of its enclosing definitions: a method of a class nested in a class, a function
    nested in a method, a function nested in a function, plain functions (one takes an object as first parameter
    and has a local spelled like a field of that object), a module-level variable.
    Returns (sources, targets) with targets = [(module, kind, name, must_be_method_local)] ."""
    r = rng
    K = [r.randint(1, 5) for _ in range(8)]
    fld = r.choice(['x', 'val'])
    loc_plain = r.choice([fld, 't'])
    inner_cls, outer_cls = r.choice([('Entry', 'Registry'), ('Cell', 'Grid')])
    n_after_inner = r.randint(0, 2)
    n_after_deep = r.randint(1, 2)
    L = []
    L.append('class %s(object):' % outer_cls)
    L.append('')
    L.append('    class %s(object):' % inner_cls)
    L.append('')
    L.append('        def __init__(self, a, b):')
    L.append('            self.%s = a' % fld)
    L.append('            self.b = b')
    L.append('')
    L.append('        def score(self, w):')
    L.append('            bonus = self.b + %d  # bonus: added to the score' % K[0])
    L.append('            note = {"bonus": bonus, "w": w}')
    L.append('            if w < 0:')
    L.append('                print("bonus = %d" % note["bonus"])')
    L.append('            return self.%s * w + bonus' % fld)
    for i in range(n_after_inner):
        L.append('')
        L.append('        def extra%d(self):' % i)
        L.append('            return self.b * %d' % K[1 + i])
    L.append('')
    L.append('    def __init__(self):')
    L.append('        self.items = []')
    L.append('')
    L.append('    def add(self, a, b):')
    L.append('        self.items.append(%s.%s(a, b))' % (outer_cls, inner_cls))
    L.append('')
    L.append('    def deep(self, n):')
    L.append('        def helper(v, k):')
    L.append('            r = v * k + %d' % K[3])
    L.append('            return r + 1')
    L.append('        s = helper(n, %d)' % K[4])
    L.append('        return s + helper(s, 2)')
    for i in range(n_after_deep):
        L.append('')
        L.append('    def after%d(self, w):' % i)
        L.append('        tot = 0')
        L.append('        for e in self.items:')
        L.append('            tot = tot + e.score(w) + %d' % i)
        L.append('        print("tot is %d (tot)" % tot)  # tot')
        L.append('        return tot')
    L.append('')
    L.append('    def vary(self, first, *rest, **options):')
    L.append('        acc = first + len(self.items)')
    L.append('        for r in rest:')
    L.append('            acc = acc * 2 + r')
    L.append('        return acc + options.get("k", 0)')
    L.append('')
    L.append('')
    L.append('def spread(first, *rest, **options):')
    L.append('    acc = first')
    L.append('    for r in rest:')
    L.append('        acc = acc * 3 + r')
    L.append('    return acc + options.get("k", %d)' % K[6])
    L.append('')
    L.append('')
    L.append('def gather(*parts):')
    L.append('    return len(parts) + %d' % K[7])
    L.append('')
    L.append('')
    L.append('def top(n, q):')
    L.append('    def inner(v):')
    L.append('        z = v + %d' % K[5])
    L.append('        return z * 2')
    L.append('    u = inner(n)')
    L.append('    return u + inner(q)')
    L.append('')
    L.append('')
    L.append('def plain(e, step):')
    L.append('    %s = e.%s + step' % (loc_plain, fld))
    L.append('    return %s * %d' % (loc_plain, K[6]))
    L.append('')
    L.append('')
    L.append('def solo(n):')
    L.append('    acc = n + %d' % K[7])
    L.append('    return acc * acc')
    L.append('')
    L.append('')
    L.append('LIMIT = %d' % (K[2] + 10))
    ma = '\n'.join(L) + '\n'
    style = r.choice(['from', 'mod'])
    q = 'ma.' if style == 'mod' else ''
    M = ['import ma' if style == 'mod' else 'from ma import %s, top, plain, solo, LIMIT, spread, gather' % outer_cls, '']
    M.append('g = %s%s()' % (q, outer_cls))
    M.append('g.add(%d, %d)' % (K[0], K[1]))
    M.append('g.add(%d, %d)' % (K[2], K[3]))
    M.append('print(g.deep(%d))' % K[4])
    for i in range(n_after_deep):
        M.append('print(g.after%d(%d))' % (i, K[5]))
    M.append('e = g.items[0]')
    M.append('print(e.score(%d), e.%s, e.b)' % (K[6], fld))
    for i in range(n_after_inner):
        M.append('print(e.extra%d())' % i)
    M.append('print(g.vary(%d), g.vary(%d, %d, %d), g.vary(%d, %d, k=%d), g.vary(%d, k=%d))' % (
        K[0], K[1], K[2], K[3], K[4], K[5], K[6], K[7], K[0]))
    M.append('print(%sspread(%d), %sspread(%d, %d, %d), %sspread(%d, %d, k=%d))' % (
        q, K[0], q, K[1], K[2], K[3], q, K[4], K[5], K[6]))
    M.append('print(%sgather(), %sgather(%d), %sgather(%d, %d))' % (q, q, K[0], q, K[1], K[2]))
    M.append('print(e.score(-1))')
    M.append('print(%stop(%d, %d))' % (q, K[1], K[2]))
    M.append('print(%splain(e, %d), e.%s)' % (q, K[3], fld))
    M.append('print(%splain(e, %d), e.%s)' % (q, K[4], fld))
    M.append('print(%ssolo(%d), %sLIMIT)' % (q, K[5], q))
    # code similar to the bodies of the NESTED functions inner / helper (UseFunction on them must be refused)
    M.append('zz = %d + %d' % (K[0], K[5]))
    M.append('ww = zz * 2')
    M.append('print(ww)')
    M.append('rr = %d * %d + %d' % (K[1], K[2], K[3]))
    M.append('qq = rr + 1')
    M.append('print(qq)')
    srcs = {'ma': ma, 'main': '\n'.join(M) + '\n'}
    funcs = ['score', 'helper', 'deep', 'inner', 'top', 'plain', 'solo', 'add'] + ['after%d' % i for i in range(n_after_deep)]
    special = ['vary', 'spread', 'gather']          # hosts with *args / **kwds parameters
    # (text that starts at the variable, is it a local of a method)
    locs = [('bonus = self.b', True), ('note = {', True), ('r = v * k', False), ('z = v + ', False), ('%s = e.%s' % (loc_plain, fld), False),
            ('acc = n + ', False), ('s = helper', True), ('tot = 0', True), ('n, q)', False), ('w):\n            bonus', False),
            ('LIMIT = ', False), ('acc = first + len', True)]
    return srcs, funcs + special, locs


# ----------------------------------------------------------------------------------------- right-hand sides of augmented writes
def augrhs_project(rng):
    """EncapsulateField text scenario (text-level model + execution oracle): augmented writes of C.x whose right-hand
    side is, by Python's grammar, NOT a primary although it is not a binary operation: an unparenthesised tuple, a
    conditional expression, a boolean operation, `not`, a comparison chain, a unary minus; next to primaries
    (call, subscript, attribute, parenthesised forms, displays in brackets)."""
    r = rng
    tup = r.random() < 0.5           # x holds a tuple / an int
    flag = r.randint(0, 1)
    if tup:
        init = '(%d,)' % r.randint(0, 3)
        shapes = ['%d, %d' % (r.randint(1, 5), r.randint(1, 5)), '(%d, %d)' % (r.randint(1, 5), r.randint(1, 5)),
                  '(%d,) if flag else (%d, 0)' % (r.randint(1, 5), r.randint(1, 5)), 'tuple([%d])' % r.randint(1, 5),
                  '[(%d,), (0,)][flag]' % r.randint(1, 5), 'a.x', '%d, ' % r.randint(1, 5),
                  '(%d,) and (%d,)' % (r.randint(1, 5), r.randint(1, 5)), 'flag, flag < 3']
        ops = ['+=']
    else:
        init = str(r.randint(1, 5))
        shapes = ['%d if flag else %d' % (r.randint(1, 5), r.randint(1, 5)), 'flag or %d' % r.randint(1, 5),
                  'not flag', 'flag < %d < 5' % r.randint(1, 4), '-%d' % r.randint(1, 5), '%d - %d' % (r.randint(1, 5), r.randint(1, 5)),
                  'abs(%d)' % r.randint(1, 5), '[%d, 7][flag]' % r.randint(1, 5), 'a.x', '(%d + 1)' % r.randint(1, 5),
                  'flag and %d' % r.randint(1, 5), '%d ** 2' % r.randint(1, 3), '~flag']
        ops = ['+=', '-=', '*=']
    ma = ('class C(object):\n\n    def __init__(self):\n        self.x = %s\n\n    def bump(self, flag):\n'
          '        self.x %s %s\n        return self.x\n' % (init, r.choice(ops), r.choice(shapes)))
    style = r.choice(['from', 'mod'])
    q = 'ma.' if style == 'mod' else ''
    L = ['import ma' if style == 'mod' else 'from ma import C', '', 'flag = %d' % flag, 'a = %sC()' % q, 'b = %sC()' % q]
    for sh in r.sample(shapes, r.randint(3, 5)):
        L.append('%s.x %s %s' % (r.choice(['a', 'b']), r.choice(ops), sh))
        if r.random() < 0.4:
            L.append('print(a.x, b.x)')
    L.append('print(a.bump(flag), b.x)')
    mb = ('import ma\n\n\ndef g(flag):\n    c = ma.C()\n    c.x %s %s\n    return c.x\n' % (r.choice(ops), r.choice(shapes)))
    L.insert(1, 'import mb')
    L.append('print(mb.g(flag))')
    return {'ma': ma, 'mb': mb, 'main': '\n'.join(L) + '\n'}


def compound_class_project(rng):
    """IntroduceFactory text scenario: the class is defined inside a module-level compound statement (its parent scope
    is the module but it is indented)."""
    r = rng
    K = [r.randint(1, 6) for _ in range(4)]
    kind = r.choice(['if', 'try', 'ifelse'])
    body = ['    class C(object):', '', '        def __init__(self, v):', '            self.x = v + %d' % K[0], '',
            '        def get(self):', '            return self.x * %d' % K[1]]
    # the other branch binds a different name (two definitions of the same class name are a different subject:
    # rope resolves the name to the last one)
    alt = ['    class E(object):', '', '        def get(self):', '            return %d' % K[2], '', '    OTHER = %d' % K[3]]
    if kind == 'if':
        L = ['FLAG = %d' % r.randint(1, 3), 'if FLAG:'] + body
    elif kind == 'ifelse':
        L = ['FLAG = %d' % r.randint(0, 1), 'if FLAG:'] + body + ['else:'] + alt
    else:
        L = ['try:'] + body + ['except ImportError:'] + alt
    L += ['', '', 'def make(n):', '    return C(n).get() + C(n + 1).get()', '', '', 'LAST = C(%d)' % K[3]]
    ma = '\n'.join(L) + '\n'
    style = r.choice(['from', 'mod'])
    q = 'ma.' if style == 'mod' else ''
    M = ['import ma' if style == 'mod' else 'from ma import C, make, LAST', '',
         'c = %sC(%d)' % (q, K[0]), 'print(c.get(), %smake(%d), %sLAST.get())' % (q, K[1], q)]
    return {'ma': ma, 'main': '\n'.join(M) + '\n'}


def factory_shape_project(rng, which):
    """IntroduceFactory text scenarios: 'tail' = the class has class-level statements after its last method;
    'clash' = a client module defines a top-level name spelled like the factory (from-import or import-module style)."""
    r = rng
    K = [r.randint(1, 6) for _ in range(4)]
    if which == 'tail':
        L = ['class C(object):', '', '    def __init__(self, v):', '        self.x = v', '',
             '    def get(self):', '        return self.x + self.limit', '', '    limit = %d' % K[0]]
        if r.random() < 0.5:
            L.append('    other = limit + %d' % K[1])
        else:
            L.append('    other = %d' % K[1])
        L += ['', '', 'def after(n):', '    return C(n).get() + %d' % K[2]]
        style = r.choice(['from', 'mod'])
        q = 'ma.' if style == 'mod' else ''
        M = ['import ma' if style == 'mod' else 'from ma import C, after', '', 'c = %sC(%d)' % (q, K[3]),
             'print(c.get(), %sC.other, %safter(%d))' % (q, q, K[0])]
        return {'ma': '\n'.join(L) + '\n', 'main': '\n'.join(M) + '\n'}
    ma = 'class C(object):\n\n    def __init__(self, v):\n        self.x = v + %d\n' % K[0]
    style = r.choice(['from', 'mod'])
    name = r.choice(['create', 'create', 'created'])
    head = 'from ma import C' if style == 'from' else 'import ma'
    q = '' if style == 'from' else 'ma.'
    mb = ('%s\n\n\ndef %s(n):\n    return n + %d\n\n\ndef f(n):\n    return %sC(%s(n)).x\n' % (head, name, K[1], q, name))
    main = 'from mb import f\nprint(f(%d))\n' % K[2]
    return {'ma': ma, 'mb': mb, 'main': main}
