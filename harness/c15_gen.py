"""Reusable front end for the program-level properties (C15, C02, C01, C20).

    to_gallina(source)  ->  Translation | None
        Python source -> PyF term of coq/C15/Syntax.v (CPython `ast` + `tokenize`; trusted parser).
        None when the source is outside the representable syntax (match, async, yield, await, type
        parameters, try-star) or does not parse.
        Translation.prog      Gallina term of type `program`
        Translation.layout    Gallina term of type `list lineinfo` (computed from `tokenize`, independently of rope)
        Translation.idents    interning table: spelling of identifier i is idents[i]
        Translation.occs      [(occurrence id, kind, spelling, line, col)] ; id = index of the NAME token in
                              tokenize.generate_tokens order, so ids and offsets are interchangeable
        Translation.intern(s) identifier number of a spelling (extends the table)

    gen_module(rng, features=(), size=...) -> source text
        Random module over a tiny identifier pool (so that shadowing and collisions are the norm), every
        binding construct, nesting, layout variation (blank lines, comments, continuation lines,
        one-line bodies).  `features` switches on PyF+ productions, one name per known departure of rope
        from CPython (see FEATURES).  Generated text always compiles (rejection sampling on `compile`).
"""
import ast
import io
import token as _token
import tokenize

# ============================================================================ translator


class Unsupported(Exception):
    pass


class Translation:
    def __init__(self, source):
        self.source = source
        self.idents = []
        self._index = {}
        self.occs = []
        self.prog = None
        self.layout = None
        self.nlines = source.count("\n") + 1
        self.tree = None

    def intern(self, s):
        i = self._index.get(s)
        if i is None:
            i = len(self.idents)
            self._index[s] = i
            self.idents.append(s)
        return i

    def g_ident(self, s):
        return "%d%%N" % self.intern(s)

    def g_idents(self, names):
        return "[" + "; ".join(self.g_ident(n) for n in names) + "]"


def _glist(items):
    return "[" + "; ".join(items) + "]"


def _gopt(x):
    return "None" if x is None else "(Some %s)" % x


class _Tokens:
    """NAME tokens of the source with their index in the full token stream."""

    def __init__(self, source):
        self.toks = list(tokenize.generate_tokens(io.StringIO(source).readline))
        self.by_start = {}
        self.by_end = {}
        self.order = []          # indices of all tokens that are not pure layout, in order
        for i, t in enumerate(self.toks):
            if t.type == _token.NAME:
                self.by_start[t.start] = i
                self.by_end[t.end] = i
            if t.type not in (_token.NL, _token.COMMENT, _token.INDENT, _token.DEDENT, _token.NEWLINE,
                              _token.ENDMARKER):
                self.order.append(i)
        self.pos_in_order = {i: k for k, i in enumerate(self.order)}

    def name_at(self, pos, spelling):
        i = self.by_start.get(pos)
        if i is None or self.toks[i].string != spelling:
            raise Unsupported("no NAME token %r at %r" % (spelling, pos))
        return i

    def name_ending(self, pos, spelling):
        i = self.by_end.get(pos)
        if i is None or self.toks[i].string != spelling:
            raise Unsupported("no NAME token %r ending at %r" % (spelling, pos))
        return i

    def scan(self, pos):
        """token indices (significant tokens) starting at the first token whose start >= pos"""
        lo, hi = 0, len(self.order)
        while lo < hi:
            mid = (lo + hi) // 2
            if self.toks[self.order[mid]].start < pos:
                lo = mid + 1
            else:
                hi = mid
        for k in range(lo, len(self.order)):
            yield self.order[k]


class _Tr:
    def __init__(self, tr, source):
        self.tr = tr
        self.src_lines = source.split("\n")
        self.tk = _Tokens(source)

    # ---- positions: ast columns are UTF-8 byte offsets, tokenize columns are characters
    def cpos(self, lineno, col):
        line = self.src_lines[lineno - 1]
        if line.isascii():
            return (lineno, col)
        return (lineno, len(line.encode("utf-8")[:col].decode("utf-8")))

    def start(self, node):
        return self.cpos(node.lineno, node.col_offset)

    def end(self, node):
        return self.cpos(node.end_lineno, node.end_col_offset)

    def occ(self, tokidx, kind, spelling):
        t = self.tk.toks[tokidx]
        self.tr.occs.append((tokidx, kind, spelling, t.start[0], t.start[1]))
        return "(Occ %d%%N %s %s)" % (tokidx, kind, self.tr.g_ident(spelling))

    def occ_at(self, pos, kind, spelling):
        return self.occ(self.tk.name_at(pos, spelling), kind, spelling)

    def next_name(self, pos, spelling, after=None):
        """first NAME token with this spelling at or after pos (optionally after a keyword token)"""
        seen_kw = after is None
        for i in self.tk.scan(pos):
            t = self.tk.toks[i]
            if not seen_kw:
                if t.type == _token.NAME and t.string == after:
                    seen_kw = True
                continue
            if t.type == _token.NAME and t.string == spelling:
                return i
        raise Unsupported("name %r not found after %r" % (spelling, pos))

    # ---- expressions
    def expr(self, e):
        m = getattr(self, "e_" + e.__class__.__name__, None)
        if m is None:
            raise Unsupported(e.__class__.__name__)
        return m(e)

    def exprs(self, es):
        return _glist([self.expr(e) for e in es])

    def oexpr(self, e):
        return _gopt(None if e is None else self.expr(e))

    def e_Name(self, e):
        kind = {"Load": "KUse", "Store": "KStore", "Del": "KDel"}[e.ctx.__class__.__name__]
        return "(EName %s)" % self.occ_at(self.start(e), kind, e.id)

    def e_Constant(self, e):
        return "EConst"

    def e_JoinedStr(self, e):
        return "(EOp %s)" % self.exprs([v for v in e.values if not isinstance(v, ast.Constant)])

    def e_FormattedValue(self, e):
        parts = [e.value] + ([e.format_spec] if e.format_spec is not None else [])
        return "(EOp %s)" % self.exprs(parts)

    def e_Attribute(self, e):
        v = self.expr(e.value)
        return "(EAttr %s %s)" % (v, self.occ(self.tk.name_ending(self.end(e), e.attr), "KAttr", e.attr))

    def e_Subscript(self, e):
        return "(ESub %s %s)" % (self.expr(e.value), self.expr(e.slice))

    def e_Slice(self, e):
        return "(EOp %s)" % self.exprs([x for x in (e.lower, e.upper, e.step) if x is not None])

    def e_Tuple(self, e):
        return "(ETuple %s)" % self.exprs(e.elts)

    e_List = e_Tuple

    def e_Starred(self, e):
        return "(ETuple [%s])" % self.expr(e.value)

    def _op(self, children):
        # rope visits operands in ast field order; where that is not source order, at most one operand may
        # contain a scope (otherwise the order of rope's sub-scopes is not the source order: outside PyF)
        return "(EOp %s)" % self.exprs(children)

    def _field_order_ok(self, children):
        bearing = [c for c in children if _has_scope(c)]
        if len(bearing) > 1:
            raise Unsupported("several scope-bearing operands where field order differs from source order")

    def e_BinOp(self, e):
        return self._op([e.left, e.right])

    def e_UnaryOp(self, e):
        return self._op([e.operand])

    def e_BoolOp(self, e):
        return self._op(e.values)

    def e_Compare(self, e):
        return self._op([e.left] + e.comparators)

    def e_IfExp(self, e):
        self._field_order_ok([e.test, e.body, e.orelse])
        return self._op([e.test, e.body, e.orelse])

    def e_Set(self, e):
        return self._op(e.elts)

    def e_Dict(self, e):
        ch = [k for k in e.keys if k is not None] + e.values
        self._field_order_ok(ch)
        return self._op(ch)

    def e_Call(self, e):
        if e.keywords and e.args:
            last_arg = max(self.start(a) for a in e.args)
            first_kw = min(self.start(k.value) for k in e.keywords)
            if first_kw < last_arg:
                self._field_order_ok(list(e.args) + [k.value for k in e.keywords])
        args = [self.expr(a) for a in e.args]
        for k in e.keywords:
            if k.arg is None:
                args.append(self.expr(k.value))
            else:
                o = self.occ_at(self.start(k), "KKwArg", k.arg)
                args.append("(EKw %s %s)" % (o, self.expr(k.value)))
        return "(ECall %s %s)" % (self.expr(e.func), _glist(args))

    def e_NamedExpr(self, e):
        o = self.occ_at(self.start(e.target), "KStore", e.target.id)
        return "(ENamed %s %s)" % (o, self.expr(e.value))

    def e_Lambda(self, e):
        ps, ae = self.params(e.args)
        body = self.expr(e.body)
        return "(ELambda %d%%N %d%%N %s %s %s)" % (e.lineno, e.end_lineno, ps, ae, body)

    def _comp(self, kind, e, elts):
        gens = []
        g_elts = self.exprs(elts)
        for g in e.generators:
            if g.is_async:
                raise Unsupported("async comprehension")
            gens.append("(Comp %s %s %s)" % (self.expr(g.target), self.expr(g.iter), self.exprs(g.ifs)))
        return "(EComp %s %d%%N %d%%N %s %s)" % (kind, e.lineno, e.end_lineno, g_elts, _glist(gens))

    def e_ListComp(self, e):
        return self._comp("CList", e, [e.elt])

    def e_SetComp(self, e):
        return self._comp("CSet", e, [e.elt])

    def e_GeneratorExp(self, e):
        return self._comp("CGen", e, [e.elt])

    def e_DictComp(self, e):
        return self._comp("CDict", e, [e.key, e.value])

    # ---- parameters
    def params(self, a):
        ps = []

        def one(kind, arg):
            ps.append("(Param %s %s)" % (kind, self.occ_at(self.start(arg), "KParam", arg.arg)))

        for x in a.posonlyargs:
            one("PPosOnly", x)
        for x in a.args:
            one("PArg", x)
        if a.vararg:
            one("PVarArg", a.vararg)
        for x in a.kwonlyargs:
            one("PKwOnly", x)
        if a.kwarg:
            one("PKwArg", a.kwarg)
        # expressions of the arguments node in ast field order (the order rope's generic_visit uses)
        ae = []
        for x in a.posonlyargs + a.args:
            if x.annotation is not None:
                ae.append(x.annotation)
        if a.vararg and a.vararg.annotation is not None:
            ae.append(a.vararg.annotation)
        for x in a.kwonlyargs:
            if x.annotation is not None:
                ae.append(x.annotation)
        ae.extend(d for d in a.kw_defaults if d is not None)
        if a.kwarg and a.kwarg.annotation is not None:
            ae.append(a.kwarg.annotation)
        ae.extend(a.defaults)
        return _glist(ps), self.exprs(ae)

    # ---- statements
    def stmts(self, body):
        return _glist([self.stmt(s) for s in body])

    def stmt(self, s):
        m = getattr(self, "s_" + s.__class__.__name__, None)
        if m is None:
            raise Unsupported(s.__class__.__name__)
        return m(s)

    def s_Expr(self, s):
        return "(SExpr %d%%N [%s])" % (s.lineno, self.expr(s.value))

    def s_Raise(self, s):
        return "(SExpr %d%%N %s)" % (s.lineno, self.exprs([x for x in (s.exc, s.cause) if x is not None]))

    def s_Assert(self, s):
        return "(SExpr %d%%N %s)" % (s.lineno, self.exprs([x for x in (s.test, s.msg) if x is not None]))

    def s_Return(self, s):
        return "(SReturn %d%%N %s)" % (s.lineno, self.oexpr(s.value))

    def s_Assign(self, s):
        return "(SAssign %d%%N %s %s)" % (s.lineno, self.exprs(s.targets), self.expr(s.value))

    def s_AugAssign(self, s):
        return "(SAug %d%%N %s %s)" % (s.lineno, self.expr(s.target), self.expr(s.value))

    def s_AnnAssign(self, s):
        return "(SAnn %d%%N %s %s %s)" % (s.lineno, self.expr(s.target), self.expr(s.annotation), self.oexpr(s.value))

    def s_Delete(self, s):
        return "(SDel %d%%N %s)" % (s.lineno, self.exprs(s.targets))

    def s_Pass(self, s):
        return "(SPass %d%%N)" % s.lineno

    s_Break = s_Pass
    s_Continue = s_Pass

    def s_If(self, s):
        return "(SIf %d%%N %s %s %s)" % (s.lineno, self.expr(s.test), self.stmts(s.body), self.stmts(s.orelse))

    def s_While(self, s):
        return "(SWhile %d%%N %s %s %s)" % (s.lineno, self.expr(s.test), self.stmts(s.body), self.stmts(s.orelse))

    def s_For(self, s):
        return "(SFor %d%%N %s %s %s %s)" % (s.lineno, self.expr(s.target), self.expr(s.iter),
                                             self.stmts(s.body), self.stmts(s.orelse))

    def s_With(self, s):
        items = ["(%s, %s)" % (self.expr(i.context_expr), self.oexpr(i.optional_vars)) for i in s.items]
        return "(SWith %d%%N %s %s)" % (s.lineno, _glist(items), self.stmts(s.body))

    def s_Try(self, s):
        hs = []
        for h in s.handlers:
            ty = self.oexpr(h.type)
            nm = None
            if h.name is not None:
                pos = self.end(h.type) if h.type is not None else self.start(h)
                nm = self.occ(self.next_name(pos, h.name, after="as"), "KExceptName", h.name)
            hs.append("(Handler %d%%N %s %s %s)" % (h.lineno, ty, _gopt(nm), self.stmts(h.body)))
        return "(STry %d%%N %s %s %s %s)" % (s.lineno, self.stmts(s.body), _glist(hs),
                                             self.stmts(s.orelse), self.stmts(s.finalbody))

    def s_FunctionDef(self, s):
        if getattr(s, "type_params", None):
            raise Unsupported("type parameters")
        decos = self.exprs(s.decorator_list)
        name = self.occ(self.next_name(self.start(s), s.name, after="def"), "KDefName", s.name)
        ps, ae = self.params(s.args)
        ret = self.oexpr(s.returns)
        return "(SDef %d%%N %d%%N %s %s %s %s %s %s)" % (s.lineno, s.end_lineno, decos, name, ps, ae, ret,
                                                         self.stmts(s.body))

    def s_ClassDef(self, s):
        if getattr(s, "type_params", None):
            raise Unsupported("type parameters")
        decos = self.exprs(s.decorator_list)
        name = self.occ(self.next_name(self.start(s), s.name, after="class"), "KClassName", s.name)
        bases = [self.expr(b) for b in s.bases]
        for k in s.keywords:
            if k.arg is None:
                bases.append(self.expr(k.value))
            else:
                bases.append("(EKw %s %s)" % (self.occ_at(self.start(k), "KKwArg", k.arg), self.expr(k.value)))
        return "(SClass %d%%N %d%%N %s %s %s %s)" % (s.lineno, s.end_lineno, decos, name, _glist(bases),
                                                     self.stmts(s.body))

    def _dotted(self, pos, dotted, kind):
        """occurrences of the components of a dotted name whose first token starts at or after pos"""
        out = []
        it = self.tk.scan(pos)
        for part in dotted.split("."):
            for i in it:
                t = self.tk.toks[i]
                if t.type == _token.NAME and t.string == part:
                    out.append(self.occ(i, kind, part))
                    break
            else:
                raise Unsupported("dotted name")
        return out

    def s_Import(self, s):
        names = []
        for a in s.names:
            path = self._dotted(self.start(a), a.name, "KImportMod")
            alias = None
            if a.asname is not None:
                alias = self.occ(self.tk.name_ending(self.end(a), a.asname), "KAlias", a.asname)
            names.append("(%s, %s)" % (_glist(path), _gopt(alias)))
        return "(SImport %d%%N %s)" % (s.lineno, _glist(names))

    def s_ImportFrom(self, s):
        mod = []
        if s.module:
            i_from = None
            for i in self.tk.scan(self.start(s)):
                if self.tk.toks[i].string == "from":
                    i_from = i
                    break
            mod = self._dotted(self.tk.toks[i_from].end, s.module, "KImportMod")
        if len(s.names) == 1 and s.names[0].name == "*":
            names = None
        else:
            items = []
            for a in s.names:
                o = self.occ_at(self.start(a), "KImportName", a.name)
                alias = None
                if a.asname is not None:
                    alias = self.occ(self.tk.name_ending(self.end(a), a.asname), "KAlias", a.asname)
                items.append("(%s, %s)" % (o, _gopt(alias)))
            names = _glist(items)
        return "(SFrom %d%%N %d%%N %s %s)" % (s.lineno, s.level or 0, _glist(mod), _gopt(names))

    def _decl(self, s, kw, kind, ctor):
        occs = []
        it = self.tk.scan(self.start(s))
        for i in it:
            if self.tk.toks[i].string == kw:
                break
        for n in s.names:
            for i in it:
                t = self.tk.toks[i]
                if t.type == _token.NAME and t.string == n:
                    occs.append(self.occ(i, kind, n))
                    break
        return "(%s %d%%N %s)" % (ctor, s.lineno, _glist(occs))

    def s_Global(self, s):
        return self._decl(s, "global", "KGlobalDecl", "SGlobal")

    def s_Nonlocal(self, s):
        return self._decl(s, "nonlocal", "KNonlocalDecl", "SNonlocal")


_SCOPE_NODES = (ast.Lambda, ast.ListComp, ast.SetComp, ast.DictComp, ast.GeneratorExp)


def _has_scope(e):
    return any(isinstance(n, _SCOPE_NODES) for n in ast.walk(e))


def count_line_indents(line):
    """same definition as rope.base.codeanalyze.count_line_indents (written independently)"""
    n = 0
    for ch in line:
        if ch == " ":
            n += 1
        elif ch == "\t":
            n += 8
        else:
            return n
    return 0


def layout_of(source):
    """per physical line: (indent, blank-or-comment, starts a logical line, ends a logical line), from tokenize.
    A comment on a line of its own outside brackets is a logical line of its own (rope's convention)."""
    lines = source.split("\n")
    n = len(lines)
    starts = [False] * (n + 2)
    ends = [False] * (n + 2)
    cur_start = None
    try:
        for t in tokenize.generate_tokens(io.StringIO(source).readline):
            if t.type in (_token.INDENT, _token.DEDENT, _token.ENDMARKER):
                continue
            if t.type == _token.NL:
                continue
            if t.type == _token.COMMENT:
                if cur_start is None:
                    # comment-only line outside any statement
                    starts[t.start[0]] = True
                    ends[t.start[0]] = True
                continue
            if t.type == _token.NEWLINE:
                if cur_start is not None:
                    starts[cur_start] = True
                    ends[t.start[0]] = True
                cur_start = None
                continue
            if cur_start is None:
                cur_start = t.start[0]
    except (tokenize.TokenError, IndentationError, SyntaxError):
        return None
    out = []
    for i, line in enumerate(lines, 1):
        stripped = line.strip()
        empty = stripped == "" or line.lstrip().startswith("#")
        out.append((count_line_indents(line), empty, starts[i], ends[i]))
    return out


def g_layout(lay):
    return "[" + "; ".join("LI %d%%N %s %s %s" % (i, "true" if e else "false", "true" if s else "false",
                                                  "true" if d else "false") for (i, e, s, d) in lay) + "]"


def inert_annotation_scopes(tree):
    """`from __future__ import annotations` makes annotations unevaluated text: a lambda / comprehension / walrus
    inside one is then not a scope of the program (CPython's symbol table keeps it apart in an annotation block).
    PyF has no notion of inert expressions, so such modules are outside it."""
    future = any(isinstance(st, ast.ImportFrom) and st.module == "__future__"
                 and any(a.name == "annotations" for a in st.names) for st in tree.body)
    if not future:
        return False
    anns = []
    for n in ast.walk(tree):
        if isinstance(n, ast.arg) and n.annotation is not None:
            anns.append(n.annotation)
        elif isinstance(n, (ast.FunctionDef, ast.AsyncFunctionDef)) and n.returns is not None:
            anns.append(n.returns)
        elif isinstance(n, ast.AnnAssign):
            anns.append(n.annotation)
    return any(isinstance(m, _SCOPE_NODES + (ast.NamedExpr,)) for a in anns for m in ast.walk(a))


def to_gallina(source):
    try:
        tree = ast.parse(source)
    except (SyntaxError, ValueError, RecursionError):
        return None
    if inert_annotation_scopes(tree):
        return None
    tr = Translation(source)
    tr.tree = tree
    try:
        t = _Tr(tr, source)
        tr.prog = t.stmts(tree.body)
    except (Unsupported, tokenize.TokenError, IndentationError, KeyError):
        return None
    lay = layout_of(source)
    if lay is None:
        return None
    tr.layout_list = lay
    tr.layout = g_layout(lay)
    return tr


# ============================================================================ generator
POOL = ["a", "b", "c", "x", "y", "f", "len"]
MODULES = ["m", "pkg.sub", "n"]

# PyF+ productions, one per known departure of rope from CPython (harness/c15.py classifies the
# resulting disagreements structurally; the names here only steer the generator)
FEATURES = (
    "kwonly",          # keyword-only parameters
    "posonly",         # positional-only parameters
    "nonlocal",        # nonlocal declarations
    "augonly",         # names bound only by augmented assignment / del
    "globalfresh",     # global declaration of a name the module does not bind / rebinding it by def or import
    "lambda",          # lambda expressions
    "walruscomp",      # walrus inside a comprehension
    "unvisited",       # comprehension in a position rope's visitors skip (return, for iterable, with, ...)
    "misattached",     # comprehension in a default / decorator / base / first iterable / method assignment
)


class _Gen:
    def __init__(self, rng, features=(), size=14):
        self.rng = rng
        self.f = set(features)
        self.budget = size
        self.lines = []

    # ---- helpers
    def name(self):
        return self.rng.choice(POOL)

    def emit(self, indent, text):
        self.lines.append(" " * indent + text)

    def layout_noise(self, indent):
        r = self.rng.random()
        if r < 0.06:
            self.lines.append("")
        elif r < 0.10:
            self.emit(self.rng.choice([indent, 0, indent + 4]), "# note " + self.name())
        elif r < 0.12:
            self.lines.append(" " * self.rng.choice([0, indent]))

    # ---- expressions
    def atom(self):
        r = self.rng.random()
        if r < 0.6:
            return self.name()
        if r < 0.8:
            return str(self.rng.randint(0, 9))
        if r < 0.9:
            return self.name() + "." + self.name()
        return "'" + self.rng.choice(["s", "x y", "#", "(", "def"]) + "'"

    def simple(self, depth=0):
        """expression without comprehension / lambda / walrus"""
        r = self.rng.random()
        if depth > 1 or r < 0.45:
            return self.atom()
        if r < 0.60:
            return "%s %s %s" % (self.simple(depth + 1), self.rng.choice(["+", "*", "<", "and", "in"]), self.simple(depth + 1))
        if r < 0.72:
            args = [self.simple(depth + 1) for _ in range(self.rng.randint(0, 2))]
            if self.rng.random() < 0.3:
                args.append("%s=%s" % (self.name(), self.simple(depth + 1)))
            return "%s(%s)" % (self.name(), ", ".join(args))
        if r < 0.80:
            return "(%s, %s)" % (self.simple(depth + 1), self.simple(depth + 1))
        if r < 0.86:
            return "%s[%s]" % (self.name(), self.simple(depth + 1))
        if r < 0.91:
            return "(%s if %s else %s)" % (self.simple(depth + 1), self.simple(depth + 1), self.simple(depth + 1))
        if r < 0.95:
            return "{%s: %s}" % (self.simple(depth + 1), self.simple(depth + 1))
        return "[%s, *%s]" % (self.simple(depth + 1), self.name())

    def target(self, depth=0, selfname=None):
        r = self.rng.random()
        if selfname and r < 0.35:
            return "%s.%s" % (selfname, self.name())
        if depth > 0 or r < 0.62:
            return self.name()
        if r < 0.78:
            return "%s, %s" % (self.target(1, selfname), self.target(1, selfname))
        if r < 0.84:
            return "(%s, (%s, %s))" % (self.target(1), self.target(1), self.target(1))
        if r < 0.89:
            return "[%s, *%s]" % (self.target(1), self.name())
        if r < 0.95:
            return "%s.%s" % (self.name(), self.name())
        return "%s[%s]" % (self.name(), self.simple(1))

    def small_comp(self):
        return "[%s for %s in %s]" % (self.name(), self.name(), self.name())

    def comp(self, depth=0):
        """a comprehension that stays inside the theorems' domain unless a feature says otherwise"""
        kind = self.rng.choice(["list", "set", "gen", "dict"])
        tgt = self.rng.choice([self.name(), "%s, %s" % (self.name(), self.name())])
        elt = self.visited(depth + 1, in_comp=True) if self.rng.random() < 0.35 and depth < 2 else self.simple(1)
        if "walruscomp" in self.f and self.rng.random() < 0.6:
            elt = "(%s := %s)" % (self.name(), elt)
        first_iter = self.simple(1)
        if "misattached" in self.f and self.rng.random() < 0.3:
            first_iter = self.small_comp()
        clauses = "for %s in %s" % (tgt, first_iter)
        if self.rng.random() < 0.3:
            cond = self.simple(1)
            if "unvisited" in self.f and self.rng.random() < 0.4:
                cond = self.small_comp()
            clauses += " if %s" % cond
        if self.rng.random() < 0.25:
            it2 = self.visited(depth + 1, in_comp=True) if self.rng.random() < 0.3 and depth < 2 else self.simple(1)
            clauses += " for %s in %s" % (self.name(), it2)
        if kind == "list":
            return "[%s %s]" % (elt, clauses)
        if kind == "set":
            return "{%s %s}" % (elt, clauses)
        if kind == "gen":
            return "(%s %s)" % (elt, clauses)
        return "{%s: %s %s}" % (self.simple(1), elt, clauses)

    def visited(self, depth=0, in_comp=False):
        """expression for a position rope visits: may contain comprehensions and (outside them) a walrus"""
        r = self.rng.random()
        if depth > 2 or r < 0.35:
            return self.simple(1)
        if r < 0.70:
            return self.comp(depth)
        if r < 0.78 and not in_comp:
            return "(%s := %s)" % (self.name(), self.visited(depth + 1, in_comp))
        if r < 0.90:
            return "%s(%s)" % (self.name(), self.visited(depth + 1, in_comp))
        if "lambda" in self.f and r < 0.97:
            p = self.name()
            return "(lambda %s: %s)" % (p, self.rng.choice([p, self.simple(1), self.comp(depth + 1)]))
        return "%s + %s" % (self.simple(1), self.visited(depth + 1, in_comp))

    def unvisited_expr(self):
        """expression for a position rope does not visit"""
        if "unvisited" in self.f and self.rng.random() < 0.5:
            return self.comp(1)
        if "lambda" in self.f and self.rng.random() < 0.2:
            return "(lambda %s: %s)" % (self.name(), self.simple(1))
        return self.simple()

    def header_expr(self):
        if "misattached" in self.f and self.rng.random() < 0.4:
            return self.comp(1)
        if "lambda" in self.f and self.rng.random() < 0.2:
            return "(lambda %s: %s)" % (self.name(), self.simple(1))
        return self.simple(1)

    def wrap(self, indent, prefix, e, suffix=""):
        """emit `prefix e suffix`, sometimes broken over continuation lines inside parentheses"""
        if self.rng.random() < 0.10:
            self.lines.append(" " * indent + prefix + "(")
            self.lines.append(" " * self.rng.choice([indent + 4, indent + 8, indent + 2]) + e)
            self.lines.append(" " * self.rng.choice([indent, indent + 4]) + ")" + suffix)
        else:
            self.emit(indent, prefix + e + suffix)

    def one_liner(self, indent, header, body):
        """`def f(): stmt` / `class C: stmt` on the header's line; half of the time the statement continues over
        several physical lines (brackets or backslashes), so that the header's logical line ends after the line of
        the last body statement; a sibling at the header's indentation follows"""
        r = self.rng.random()
        if body == "pass" or r < 0.45:
            self.emit(indent, header + body)
        elif r < 0.8:
            # continuation through brackets, continuation lines at assorted indentations (also the header's own)
            kw, _, e = body.partition(" = ") if " = " in body else ("return", "", body[len("return "):])
            head = (kw + " = ") if " = " in body else "return "
            opener, closer = self.rng.choice([("(", ")"), ("[", "]"), ("dict(a=", ")")])
            self.emit(indent, header + head + opener)
            for _ in range(self.rng.randint(1, 2)):
                self.lines.append(" " * self.rng.choice([indent, indent + 4, indent + 8, 0]) + e + ",")
            self.lines.append(" " * self.rng.choice([indent, indent + 4]) + closer)
        else:
            # backslash continuation
            self.emit(indent, header + body + " + \\")
            self.lines.append(" " * self.rng.choice([indent, indent + 4, indent + 8]) + self.simple(1))
        if self.rng.random() < 0.7:
            self.emit(indent, self.rng.choice(["%s = %s" % (self.name(), self.simple(1)), "pass", "%s.%s" % (self.name(), self.name())]))

    # ---- statements
    def block(self, indent, ctx, n=None, top=False):
        """ctx: kind ('module'|'function'|'class'), selfname, params, module_names, enclosing (names bound in
        enclosing function scopes), bound_here (names this function is known to bind)"""
        n = n if n is not None else self.rng.randint(1, 4)
        if top and ctx["kind"] in ("function", "class") and self.rng.random() < 0.25:
            names = sorted({self.name() for _ in range(self.rng.randint(1, 2))} - set(ctx.get("params", ())))
            if "globalfresh" not in self.f:
                names = [x for x in names if x in ctx["module_names"]]
            if names:
                self.emit(indent, "global " + ", ".join(names))
                ctx["declared"] = set(names)
        if top and "nonlocal" in self.f and ctx["kind"] == "function" and ctx.get("enclosing") and self.rng.random() < 0.7:
            cands = sorted(set(ctx["enclosing"]) - set(ctx.get("params", ())) - ctx.get("declared", set()))
            if cands:
                x = self.rng.choice(cands)
                self.emit(indent, "nonlocal " + x)
                ctx.setdefault("declared", set()).add(x)
                if self.rng.random() < 0.7:
                    self.emit(indent, "%s = %s" % (x, self.simple(1)))
        for _ in range(n):
            self.layout_noise(indent)
            self.stmt(indent, ctx)

    def stmt(self, indent, ctx):
        self.budget -= 1
        r = self.rng.random()
        kind = ctx["kind"]
        deep = indent >= 16 or self.budget <= 0
        selfname = ctx.get("selfname")
        declared = ctx.get("declared", set())
        if r < 0.22:
            tgts = [self.target(selfname=selfname) for _ in range(1 if self.rng.random() < 0.85 else 2)]
            value = self.visited()
            if kind == "function" and selfname and "misattached" not in self.f:
                # the value of an assignment in a method is visited a second time for the class
                value = self.simple()
            self.wrap(indent, " = ".join(tgts) + " = ", value)
        elif r < 0.27:
            x = self.name()
            if "augonly" in self.f:
                self.emit(indent, "%s %s= %s" % (x, self.rng.choice(["+", "-", "|"]), self.unvisited_expr()))
            else:
                # keep the name bound otherwise in this scope
                self.emit(indent, "%s = %s" % (x, self.simple(1)))
                t = self.rng.choice([x, x, "%s.%s" % (self.name(), x), "%s[%s]" % (x, self.simple(1))])
                self.emit(indent, "%s %s= %s" % (t, self.rng.choice(["+", "-", "|"]), self.unvisited_expr()))
        elif r < 0.31:
            if self.rng.random() < 0.5:
                self.emit(indent, "%s: %s = %s" % (self.name(), self.simple(1), self.unvisited_expr()))
            else:
                self.emit(indent, "%s: %s" % (self.name(), self.simple(1)))
        elif r < 0.37:
            self.wrap(indent, "", self.visited())
        elif r < 0.40:
            if kind == "function":
                self.emit(indent, ("return %s" % self.unvisited_expr()) if self.rng.random() < 0.8 else "return")
            else:
                self.emit(indent, "pass")
        elif r < 0.42:
            x = self.name()
            if "augonly" not in self.f:
                self.emit(indent, "%s = %s" % (x, self.simple(1)))
            self.emit(indent, "del %s" % self.rng.choice([x, "%s[%s]" % (x, self.simple(1))]))
        elif r < 0.50 and not deep:
            self.wrap(indent, "if ", self.visited() if self.rng.random() < 0.4 else self.simple(), ":")
            self.block(indent + 4, ctx, self.rng.randint(1, 2))
            if self.rng.random() < 0.3:
                self.emit(indent, "elif %s:" % self.simple())
                self.block(indent + 4, ctx, 1)
            if self.rng.random() < 0.4:
                self.emit(indent, "else:")
                self.block(indent + 4, ctx, self.rng.randint(1, 2))
        elif r < 0.53 and not deep:
            self.emit(indent, "while %s:" % (self.visited() if self.rng.random() < 0.3 else self.simple()))
            self.block(indent + 4, ctx, 1)
            if self.rng.random() < 0.3:
                self.emit(indent, "else:")
                self.block(indent + 4, ctx, 1)
        elif r < 0.60 and not deep:
            self.emit(indent, "for %s in %s:" % (self.target(selfname=selfname), self.unvisited_expr()))
            self.block(indent + 4, ctx, self.rng.randint(1, 2))
            if self.rng.random() < 0.25:
                self.emit(indent, "else:")
                self.block(indent + 4, ctx, 1)
        elif r < 0.65 and not deep:
            items = []
            for _ in range(1 if self.rng.random() < 0.8 else 2):
                it = self.unvisited_expr()
                if self.rng.random() < 0.7:
                    it += " as " + self.target(1)
                items.append(it)
            self.emit(indent, "with %s:" % ", ".join(items))
            self.block(indent + 4, ctx, self.rng.randint(1, 2))
        elif r < 0.70 and not deep:
            self.emit(indent, "try:")
            self.block(indent + 4, ctx, 1)
            nh = self.rng.randint(0, 2)
            for _ in range(nh):
                h = "except %s" % self.rng.choice(["Exception", self.name(), "(%s, %s)" % (self.name(), self.name())])
                if self.rng.random() < 0.6:
                    h += " as " + self.name()
                self.emit(indent, h + ":")
                self.block(indent + 4, ctx, 1)
            if nh and self.rng.random() < 0.3:
                self.emit(indent, "else:")
                self.block(indent + 4, ctx, 1)
            if nh == 0 or self.rng.random() < 0.3:
                self.emit(indent, "finally:")
                self.block(indent + 4, ctx, 1)
        elif r < 0.82 and not deep:
            self.gen_def(indent, ctx)
        elif r < 0.90 and not deep:
            self.gen_class(indent, ctx)
        elif r < 0.95:
            if self.rng.random() < 0.5:
                m = self.rng.choice(MODULES + [self.name()])
                alias = (" as " + self.name()) if self.rng.random() < 0.5 else ""
                if "globalfresh" not in self.f and (alias.strip()[3:] in declared or m.split(".")[0] in declared):
                    self.emit(indent, "pass")
                else:
                    self.emit(indent, "import %s%s" % (m, alias))
            else:
                lvl = "." * self.rng.choice([0, 0, 1, 2])
                m = self.rng.choice(MODULES) if lvl == "" or self.rng.random() < 0.6 else ""
                if kind == "module" and self.rng.random() < 0.15:
                    self.emit(indent, "from %s%s import *" % (lvl, m or "m"))
                else:
                    pairs = [(self.name(), self.name() if self.rng.random() < 0.4 else None)
                             for _ in range(self.rng.randint(1, 2))]
                    if "globalfresh" not in self.f:
                        pairs = [(n_, a_) for (n_, a_) in pairs if (a_ or n_) not in declared]
                    if pairs:
                        self.emit(indent, "from %s%s import %s" % (lvl, m, ", ".join(
                            n_ + ((" as " + a_) if a_ else "") for n_, a_ in pairs)))
                    else:
                        self.emit(indent, "pass")
        else:
            self.emit(indent, self.rng.choice(["pass", "assert %s" % self.simple(), "raise %s" % self.simple(1)]))

    def params(self, method):
        pool = [x for x in POOL] + ["k", "v"]
        self.rng.shuffle(pool)
        names = []
        selfname = None
        positional = []         # (name, is_posonly)
        if method and self.rng.random() < 0.85:
            selfname = self.rng.choice(["self", "self", pool.pop()])
            positional.append(selfname)
        for _ in range(self.rng.randint(0, 2)):
            positional.append(pool.pop())
        n_posonly = 0
        if "posonly" in self.f and positional and self.rng.random() < 0.8:
            n_posonly = self.rng.randint(1, len(positional))
        parts = []
        defaulting = False
        for i, x in enumerate(positional):
            names.append(x)
            if not defaulting and x != selfname and self.rng.random() < 0.3:
                defaulting = True
            if defaulting and x != selfname:
                parts.append("%s=%s" % (x, self.header_expr()))
            elif x != selfname and self.rng.random() < 0.15:
                parts.append("%s: %s" % (x, self.header_expr()))
            else:
                parts.append(x)
            if n_posonly and i + 1 == n_posonly:
                parts.append("/")
        star = False
        if self.rng.random() < 0.25:
            x = pool.pop()
            names.append(x)
            parts.append("*" + x)
            star = True
        if "kwonly" in self.f and self.rng.random() < 0.8:
            if not star:
                parts.append("*")
            for _ in range(self.rng.randint(1, 2)):
                x = pool.pop()
                names.append(x)
                parts.append(x if self.rng.random() < 0.5 else "%s=%s" % (x, self.simple(1)))
        if self.rng.random() < 0.2:
            x = pool.pop()
            names.append(x)
            parts.append("**" + x)
        if method and positional and n_posonly == 0:
            selfname = positional[0]        # rope takes args.args[0] for the instance, whatever it is called
        return ", ".join(parts), names, selfname

    def gen_def(self, indent, ctx):
        method = ctx["kind"] == "class"
        declared = ctx.get("declared", set())
        for _ in range(self.rng.choice([0, 0, 0, 1])):
            self.emit(indent, "@" + self.rng.choice([self.name(), "property", "staticmethod", self.header_expr()]))
        ps, pnames, selfname = self.params(method)
        cands = [x for x in POOL + ["g", "m"] if "globalfresh" in self.f or x not in declared]
        name = self.rng.choice(cands)
        ret = (" -> " + self.header_expr()) if self.rng.random() < 0.1 else ""
        if ctx["kind"] == "function":
            enclosing = ctx.get("enclosing", []) + ctx.get("bound_here", [])
        else:
            enclosing = ctx.get("enclosing", [])
        inner = dict(kind="function", selfname=selfname, params=pnames, module_names=ctx["module_names"],
                     enclosing=enclosing, bound_here=list(pnames), classes=list(ctx.get("classes", [])))
        if self.rng.random() < 0.16:
            body = self.rng.choice(["pass", "return %s" % self.simple(1), "%s = %s" % (self.name(), self.simple(1))])
            self.one_liner(indent, "def %s(%s)%s: " % (name, ps, ret), body)
            return
        self.emit(indent, "def %s(%s)%s:" % (name, ps, ret))
        body_indent = indent + self.rng.choice([4, 4, 4, 2, 8])
        if self.rng.random() < 0.1:
            self.emit(body_indent, '"""doc %s"""' % self.name())
        self.block(body_indent, inner, top=True)
        if "nonlocal" in self.f:
            # a name the nested functions generated later in this body may declare nonlocal
            x = self.name()
            if x not in pnames and x not in inner.get("declared", set()):
                self.emit(body_indent, "%s = %s" % (x, self.simple(1)))
                inner["bound_here"].append(x)
                if self.rng.random() < 0.8:
                    self.gen_def(body_indent, inner)

    def gen_class(self, indent, ctx):
        declared = ctx.get("declared", set())
        for _ in range(self.rng.choice([0, 0, 0, 1])):
            self.emit(indent, "@" + self.header_expr())
        cands = [x for x in POOL + ["C", "D"] if "globalfresh" in self.f or x not in declared]
        name = self.rng.choice(cands)
        bases = ""
        r = self.rng.random()
        if r < 0.45:
            bs = []
            known = sorted(set(ctx.get("classes", [])))
            if len(known) >= 2 and self.rng.random() < 0.4:
                # multiple inheritance from classes of the module (attribute collisions between the bases)
                bs = self.rng.sample(known, 2)
            else:
                for _ in range(1 if self.rng.random() < 0.8 else 2):
                    if self.rng.random() < 0.85:
                        bs.append(self.rng.choice(ctx.get("classes", []) + [self.name(), "object"]))
                    else:
                        bs.append("m." + self.name())
            if "misattached" in self.f and self.rng.random() < 0.3:
                bs.append("f(%s)" % self.comp(1))
            if self.rng.random() < 0.15:
                bs.append("metaclass=%s" % self.name())
            bases = "(%s)" % ", ".join(bs)
        elif r < 0.5:
            bases = "()"
        ctx.setdefault("classes", []).append(name)
        enclosing = ctx.get("enclosing", []) + (ctx.get("bound_here", []) if ctx["kind"] == "function" else [])
        inner = dict(kind="class", module_names=ctx["module_names"], enclosing=enclosing,
                     classes=list(ctx.get("classes", [])))
        if self.rng.random() < 0.14:
            self.one_liner(indent, "class %s%s: " % (name, bases),
                           self.rng.choice(["pass", "%s = %s" % (self.name(), self.simple(1))]))
            return
        self.emit(indent, "class %s%s:" % (name, bases))
        self.block(indent + 4, inner, top=True)


def gen_module(rng, features=(), size=14):
    """Returns source text that compiles (None after too many rejected attempts)."""
    for _attempt in range(60):
        g = _Gen(rng, features, size)
        mnames = sorted(set(rng.sample(POOL, rng.randint(2, 5))))
        classes = []
        if rng.random() < 0.2:
            # a __future__ import (must come first): binds the feature name, or its alias, at module level
            feats = rng.sample(["annotations", "division", "print_function", "generators", "with_statement"],
                               rng.randint(1, 2))
            g.emit(0, "from __future__ import " + ", ".join(
                f + ((" as " + rng.choice(POOL + ["ann"])) if rng.random() < 0.35 else "") for f in feats))
        # module-level bindings first, so that `global x` in functions refers to a name the module binds
        for x in mnames:
            r = rng.random()
            if r < 0.6:
                g.emit(0, "%s = %s" % (x, g.simple(1)))
            elif r < 0.75:
                g.emit(0, "import %s" % x)
            elif r < 0.9:
                g.emit(0, "def %s(): pass" % x)
            else:
                g.emit(0, "class %s: %s" % (x, rng.choice(["pass", "%s = %s" % (g.name(), g.simple(1))])))
                classes.append(x)
        if "globalfresh" in features and rng.random() < 0.3:
            # a global statement at module level for a name the module does not bind
            unbound = [x for x in POOL if x not in mnames]
            if unbound:
                g.emit(0, "global " + rng.choice(unbound))
        ctx = dict(kind="module", module_names=mnames, classes=classes)
        g.block(0, ctx, rng.randint(2, 5))
        src = "\n".join(g.lines) + ("\n" if rng.random() < 0.9 else "")
        try:
            compile(src, "m.py", "exec")
        except (SyntaxError, ValueError):
            continue
        if inert_annotation_scopes(ast.parse(src)):
            continue
        return src
    return None
