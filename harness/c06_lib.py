"""C06 helpers: case generator, project text printer, rope driver, output parser, independent oracle."""
import ast
import contextlib
import inspect
import io
import os
import shutil
import sys
import tempfile
import tokenize

# ----------------------------------------------------------------------------- pools
PARAM_POOL = ["a", "b", "c", "d", "e"]
ADD_POOL = ["x", "y", "a", "b", "c", "z", "r", "k"]
STAR_NAMES = ["r", "args"]
KW_NAMES = ["k", "kwargs"]
EXTRA_KW = ["z", "y", "w"]
# argument / default expressions: evaluable in the generated modules, with commas, brackets, '=' and
# quotes inside so that the source-range extraction is exercised
CLOSED_POOL = ["0", "None", "(1, 2)", '"s,t"', "[3, 4][0]", "{'p': 1}", "-5", "'='", "(lambda: 3)()", '"q=1"']
EXPR_POOL = ["0", "None", "(1, 2)", '"s,t"', "g(x0, 1)", "[3, 4][0]", "x0 if T else 2", "{'p': 1}",
             "-5", "'='", "x0 == 7", "(lambda: 3)()", "T", "x0", '"q=1"', "g()", "not T", "x0 * 2 + 1", "[]", "LEVEL", "[]", "LEVEL"]
# expressions whose value at def time (as a default) differs from their value at call time (as an argument):
# a fresh mutable object, a global rebound after the definition
TIME_SENSITIVE = ("[]", "LEVEL")
# string literals with characters outside ASCII (ast column offsets count UTF-8 bytes)
NONASCII = ['"\u00e9"', "'\u00fc,\u00df'", '"\u4e2d=1"']


def sprinkle_nonascii(rng, case):
    """puts non-ASCII string literals into arguments (and sometimes a default) of a generated case"""
    touched = False
    for s in case["sites"]:
        if s["pos"] and rng.random() < 0.6:
            i = rng.randrange(len(s["pos"]))
            if not (s["style"] in ("cls", "subinit") and i == 0) and not s.get("twin") and not s.get("nested"):
                s["pos"][i] = rng.choice(NONASCII)
                touched = True
        if s["kws"] and rng.random() < 0.4:
            i = rng.randrange(len(s["kws"]))
            s["kws"][i] = (s["kws"][i][0], rng.choice(NONASCII))
            touched = True
    withd = [i for i, p in enumerate(case["params"]) if p[1] is not None]
    if withd and (rng.random() < 0.4 or not touched):
        i = rng.choice(withd)
        case["params"][i] = (case["params"][i][0], rng.choice(NONASCII))
        touched = True
    if touched:
        case["nonascii"] = True
    return touched


# argument-only expressions: string literals spanning several lines (never used as defaults: the header stays one line)
MULTILINE_ARGS = ['"""p\n  q"""', "'''r,\ns=1'''", '"""\nt\n"""']


def fresh_value(k, j):
    return str(100 * (k + 1) + j)


# ----------------------------------------------------------------------------- generator bookkeeping
def sim_def(params, star, kw, ch):
    """Bookkeeping of the generator only (indices/used names); NOT the model.  Returns (params, star, kw) or None."""
    params = list(params)
    t = ch[0]
    if t == "rem":
        i = ch[1]
        if i < len(params):
            del params[i]
        elif i == len(params) and star is not None:
            star = None
        elif (i == len(params) and star is None and kw is not None) or (i == len(params) + 1 and star is not None and kw is not None):
            kw = None
    elif t == "add":
        if any(p[0] == ch[2] for p in params):
            return None
        params.insert(ch[1], (ch[2], ch[3], ("add", ch[3], ch[4])))
    elif t == "inl":
        if ch[1] >= len(params):
            return None
        if ch[2]:
            params[ch[1]] = (params[ch[1]][0], None) + tuple(params[ch[1]][2:])
    elif t == "reo":
        order = ch[1]
        new = list(params)
        for ni, i in enumerate(order):
            if i >= len(params) or ni >= len(params):
                return None
            new[ni] = params[i]
        seen = False
        for j, p in enumerate(list(new)):
            if p[1] is not None:
                seen = True
            if seen and p[1] is None and ch[2] is not None:
                new[j] = (p[0], ch[2]) + tuple(p[2:])
        params = new
    return params, star, kw


def all_names(params, star, kw):
    return {p[0] for p in params} | {x for x in (star, kw) if x}


def ever_removed(params, star, kw, changers):
    """names of the original definition that are absent after some prefix of the changers (the body of
    the generated function must not use them: 'removing an unused parameter')"""
    cur = (params, star, kw)
    orig = all_names(params, star, kw)
    removed = set()
    for ch in changers:
        nxt = sim_def(cur[0], cur[1], cur[2], ch)
        if nxt is None:
            break
        cur = nxt
        removed |= orig - all_names(*cur)
    return removed


def final_origins(params, star, kw, changers):
    """generator-side bookkeeping for the oracle: which of the final named parameters were introduced by
    an ArgumentAdder (name -> (default, value)); parameters of the original definition are absent"""
    cur = ([(p[0], p[1]) for p in params], star, kw)
    for ch in changers:
        nxt = sim_def(cur[0], cur[1], cur[2], ch)
        if nxt is None:
            break
        cur = nxt
    return {p[0]: p[2][1:] for p in cur[0] if len(p) > 2}


def gen_changer(rng, params, star, kw, kind, wild=False):
    n = len(params)
    lo = 1 if kind in ("method", "init") and n > 0 and not wild else 0
    t = rng.random()
    if t < 0.08:
        return ("norm",)
    if t < 0.30:
        hi = n + (1 if star else 0) + (1 if kw else 0)
        if wild or hi <= lo:
            return ("rem", rng.randint(0, n + 2))
        return ("rem", rng.randint(lo, hi - 1))
    if t < 0.55:
        used = [p[0] for p in params] + [x for x in (star, kw) if x]
        name = rng.choice(ADD_POOL)
        if not wild and rng.random() < 0.85:
            cands = [x for x in ADD_POOL if x not in used]
            if cands:
                name = rng.choice(cands)
        i = rng.randint(lo, n + (1 if rng.random() < 0.15 else 0)) if n >= lo else 0
        if not wild and rng.random() < 0.6:
            # keep the order valid: a defaulted parameter goes at or behind the first defaulted one
            firstd = next((j for j, p in enumerate(params) if p[1] is not None), n)
            mode = rng.random()
            if mode < 0.5:
                return ("add", rng.randint(max(lo, firstd), n), name, rng.choice(EXPR_POOL), rng.choice([None, rng.choice(EXPR_POOL)]))
            return ("add", rng.randint(lo, max(lo, firstd)), name, None, rng.choice(EXPR_POOL))
        dflt = rng.choice([None, rng.choice(EXPR_POOL)])
        val = rng.choice([None, rng.choice(EXPR_POOL)])
        return ("add", i, name, dflt, val)
    if t < 0.72:
        if n == 0 or wild and rng.random() < 0.2:
            return ("inl", rng.randint(0, n + 1), rng.random() < 0.5)
        withd = [j for j, p in enumerate(params) if p[1] is not None]
        i = rng.choice(withd) if withd and rng.random() < 0.8 else rng.randint(0, n - 1)
        return ("inl", i, rng.random() < 0.5)
    # reorder
    order = list(range(n))
    if n > lo + 1:
        tail = order[lo:]
        rng.shuffle(tail)
        order = order[:lo] + tail
    if wild:
        k = rng.random()
        if k < 0.3 and order:
            order = order[:rng.randint(0, n)]
        elif k < 0.5 and order:
            order[rng.randrange(n)] = rng.randint(0, n)
        elif k < 0.6:
            order = order + [rng.randint(0, n)]
    autodef = rng.choice([None, "None", "0", "(9, 9)"]) if rng.random() < 0.7 else None
    return ("reo", order, autodef)


def gen_signature(rng, kind):
    n = rng.choice([0, 1, 1, 2, 2, 3, 3, 4, 5])
    names = PARAM_POOL[:n]
    if rng.random() < 0.3:
        names = rng.sample(PARAM_POOL, n)
    nd = rng.randint(0, n)
    if rng.random() < 0.3:
        nd = 0
    params = [(x, None) for x in names[:n - nd]] + [(x, rng.choice(EXPR_POOL)) for x in names[n - nd:]]
    if kind in ("method", "init"):
        params = [("self", None)] + params
    star = rng.choice(STAR_NAMES) if rng.random() < 0.35 else None
    kw = rng.choice(KW_NAMES) if rng.random() < 0.3 else None
    return params, star, kw


def gen_call_args(rng, params, star, kw, k, skip_first, valid=True, allow_star=True):
    """Arguments of one call site for the callable parameters params[skip_first:]."""
    ps = params[skip_first:]
    n = len(ps)
    j = [0]

    def val(dflt=None):
        j[0] += 1
        if dflt is not None and rng.random() < 0.3:
            return dflt               # an argument spelled exactly like the default is still an argument
        r = rng.random()
        if r < 0.66:
            return fresh_value(k, j[0])
        if r < 0.72:
            return rng.choice(MULTILINE_ARGS)
        return rng.choice(EXPR_POOL)
    required = sum(1 for p in ps if p[1] is None)
    npos = rng.randint(0, n)
    if rng.random() < 0.25:
        npos = n
    pos = [val(ps[i][1]) for i in range(npos)]
    if star and npos == n and rng.random() < 0.6:
        pos += [val() for _ in range(rng.randint(1, 3))]
    rest = ps[npos:]
    kws = []
    for (name, dflt) in rest:
        if dflt is None:
            if valid or rng.random() < 0.7:
                kws.append((name, val()))
        elif rng.random() < 0.5:
            kws.append((name, val(dflt)))
    rng.shuffle(kws)
    if kw and rng.random() < 0.6:
        for name in rng.sample(EXTRA_KW, rng.randint(1, 2)):
            kws.insert(rng.randint(0, len(kws)), (name, val()))
    if not valid:
        m = rng.random()
        if m < 0.3 and ps:
            kws.append((rng.choice(ps)[0], val()))          # duplicate / multiple values
        elif m < 0.5:
            kws.append((rng.choice(EXTRA_KW), val()))      # possibly unexpected keyword
        elif m < 0.7:
            pos += [val(), val()]                            # possibly too many positionals
    site = {"pos": pos, "kws": kws, "star": None, "kwstar": None, "star_len": 0, "kwstar_keys": []}
    if allow_star:
        m = rng.random()
        if m < 0.10:
            # f(p1.., *xs [, k=v..]): the starred list supplies the remaining positionals
            cut = rng.randint(0, len(pos))
            tail = pos[cut:]
            site["pos"] = pos[:cut]
            site["star"] = "xs%d" % k
            site["star_vals"] = tail
            site["star_len"] = len(tail)
        elif m < 0.14 and kws:
            cut = rng.randint(0, len(kws))
            tail = kws[cut:]
            site["kws"] = kws[:cut]
            site["kwstar"] = "kw%d" % k
            site["kwstar_items"] = tail
            site["kwstar_keys"] = [x[0] for x in tail]
    return site


# ----------------------------------------------------------------------------- printing the project
def fmt_params(params, star, kw, kwonly=()):
    out = []
    for (n, d) in params:
        out.append(n if d is None else "%s=%s" % (n, d))
    if star is not None:
        out.append("*" + star)
    elif kwonly:
        out.append("*")
    for (n, d) in kwonly:
        out.append(n if d is None else "%s=%s" % (n, d))
    if kw is not None:
        out.append("**" + kw)
    return ", ".join(out)


def fmt_call(func, site, layout=0):
    parts = list(site["pos"])
    kwparts = ["%s=%s" % kv for kv in site["kws"]]
    if site.get("star_first") and site["star"] is not None:
        parts = ["*" + site["star"]] + parts          # starred argument not in last position
    elif site["star"] is not None:
        parts = parts + ["*" + site["star"]]
    parts += kwparts
    if site["kwstar"] is not None:
        parts.append("**" + site["kwstar"])
    if layout == 1:
        return "%s( %s )" % (func, " , ".join(parts))
    if layout == 2 and len(parts) > 1:
        return "%s(%s,  # note, (x)\n        %s)" % (func, parts[0], ", ".join(parts[1:]))
    if layout == 3:
        return "%s (%s)" % (func, ", ".join(parts))
    return "%s(%s)" % (func, ", ".join(parts))


PRELUDE = ("T = True\nx0 = 7\nLEVEL = 1\n\n\ndef g(*a):\n    return ('g',) + a\n\n\n"
           "def _t(x):\n    if isinstance(x, list):\n        x.append(len(x))\n        return tuple(x)\n    return x\n\n\n"
           "class Cfg(object):\n    val = 5\n\n\ncfg = Cfg()\n\n\n")


def body_expr(tag, params, star, kw, used, extra=()):
    items = [repr(tag)] + list(extra)
    for (n, _) in params:
        if n in used and n != "self":
            items.append("_t(%s)" % n)
    if star is not None and star in used:
        items.append(star)
    if kw is not None and kw in used:
        items.append("sorted(%s.items())" % kw)
    return "(" + ", ".join(items) + ",)"


def build_modules(case):
    """case -> {filename: source}.  Every call site k is the statement `v<k> = <call>`."""
    kind = case["kind"]
    params, star, kw, used = case["params"], case["star"], case["kw"], set(case["used"])
    kwonly = case.get("kwonly", [])
    extra = ()
    if case.get("introduce"):
        e = case["introduce"]["expr"]
        extra = (e, "(%s, %s)" % (e, e))
    m = [PRELUDE]
    if kind == "func":
        m.append("def f(%s):\n    return %s\n\n\n" % (fmt_params(params, star, kw, kwonly), body_expr("f", params + kwonly, star, kw, used, extra)))
    elif kind == "method":
        m.append("class A(object):\n    def __init__(self, tag=0):\n        self.tag = tag\n\n    def __repr__(self):\n        return 'A(%%r)' %% (self.tag,)\n\n"
                 "    def meth(%s):\n        return %s\n\n" % (fmt_params(params, star, kw, kwonly), body_expr("meth", params + kwonly, star, kw, used, extra)))
    elif case.get("nested"):
        # the class whose __init__ changes is nested in another class and also reached through instances of it
        m.append("class Outer(object):\n    class A(object):\n        def __init__(%s):\n            self.v = %s\n\n" % (
            fmt_params(params, star, kw, kwonly), body_expr("init", params + kwonly, star, kw, used, extra)))
        for s in case["sites"]:
            if s["style"] == "selfctor":
                m.append("    def make%d(self):\n        v%d = %s\n        return v%d.v\n\n" % (
                    s["k"], s["k"], (fmt_call("self.A", s, s["layout"]).replace("\n", "\n    ") if s["layout"] == 2 else fmt_call("self.A", s, s["layout"])), s["k"]))
        m.append("    def tag(self):\n        return 'outer'\n\n\not = Outer()\n\n")
    else:
        m.append("class A(object):\n    def __init__(%s):\n        self.v = %s\n\n" % (
            fmt_params(params, star, kw, kwonly), body_expr("init", params + kwonly, star, kw, used, extra)))
    mods = {"m.py": m, "u1.py": ["import m\nfrom m import *\n\n"], "u2.py": ["import m as mm\nfrom m import T, x0, g, LEVEL, cfg\n\n"]}
    if kind == "method":
        # `node` is an instance in u1 and the class itself in u2: `node.meth(o2, ...)` is a bound call there, an unbound one here
        mods["u1.py"].append("o2 = m.A(2)\nnode = m.A(1)\n\n")
        mods["u2.py"].append("o2 = mm.A(2)\nnode = mm.A\n\n")
    # methods of A that contain call sites must come before the class ends
    if kind in ("method", "init") and not case.get("nested"):
        for s in case["sites"]:
            if s["style"] == "self":
                m.append("    def other%d(self):\n        v%d = %s\n        return v%d\n\n" % (
                    s["k"], s["k"], fmt_call("self.meth", s, s["layout"]), s["k"]))
        if kind == "init":
            for s in case["sites"]:
                if s["style"] == "subinit":
                    m.append("\nclass B%d(A):\n    def __init__(self):\n        v%d = %s\n\n" % (
                        s["k"], s["k"], fmt_call("A.__init__", s, s["layout"])))
        if kind == "method":
            m.append("\no = A()\n\n")
    m.append("LEVEL = 5      # rebound after the definition: a default spelled LEVEL is 1, an argument spelled LEVEL is 5\n\n")
    for s in case["sites"]:
        k = s["k"]
        out = mods[s["module"]]
        pre = ""
        if s["star"] is not None:
            pre += "xs%d = [%s]\n" % (k, ", ".join(s.get("star_vals", [])))
        if s["kwstar"] is not None:
            pre += "kw%d = {%s}\n" % (k, ", ".join("%r: %s" % kv for kv in s.get("kwstar_items", [])))
        if s["style"] == "self":
            out.append("print('s%d', o.other%d())\n" % (k, k))
            continue
        if s["style"] == "subinit":
            out.append("print('s%d', B%d().v)\n" % (k, k))
            continue
        if s["style"] == "selfctor":
            out.append("print('s%d', ot.make%d())\n" % (k, k))
            continue
        if s["style"] == "subctor":
            out.append("class S%d(%s):\n    pass\n\n\n" % (k, {"m.py": "A", "u1.py": "m.A", "u2.py": "mm.A"}[s["module"]]))
        call = fmt_call(s["func"], s, s["layout"])
        post = ".v" if s["ctor"] else ""
        if s["infunc"]:
            out.append(pre + "def h%d():\n    v%d = %s\n    return v%d%s\n\n\nprint('s%d', h%d())\n" % (k, k, call.replace("\n", "\n    "), k, post, k, k))
        else:
            out.append(pre + "v%d = %s\nprint('s%d', v%d%s)\n" % (k, call, k, k, post))
    mods["main.py"] = ["import m\nimport u1\nimport u2\n"]
    return {fn: "".join(parts) for fn, parts in mods.items()}


SITE_STYLES = {
    "func": [("m.py", "f", "plain"), ("u1.py", "f", "plain"), ("u1.py", "m.f", "plain"), ("u2.py", "mm.f", "plain")],
    "method": [("m.py", "o.meth", "inst"), ("m.py", "A.meth", "cls"), ("m.py", "A().meth", "inst"), ("m.py", "self.meth", "self"),
               ("u1.py", "m.o.meth", "inst"), ("u1.py", "o.meth", "inst"), ("u2.py", "mm.A.meth", "cls"), ("u2.py", "mm.A(5).meth", "inst")],
    "init": [("m.py", "A", "ctor"), ("u1.py", "A", "ctor"), ("u1.py", "m.A", "ctor"), ("u2.py", "mm.A", "ctor"),
             ("m.py", "A.__init__", "subinit")],
    # class nested in a class: reached through the outer class, through instances of it, through self
    "nested": [("m.py", "Outer.A", "ctor"), ("m.py", "ot.A", "ctor"), ("m.py", "self.A", "selfctor"), ("m.py", "Outer().A", "ctor"),
               ("u1.py", "Outer.A", "ctor"), ("u1.py", "m.ot.A", "ctor"), ("u2.py", "mm.Outer.A", "ctor"), ("u2.py", "mm.ot.A", "ctor")],
}


def gen_case(rng, wild=False, nsites=None, star_calls=True):
    kind = rng.choice(["func", "func", "method", "init"])
    params, star, kw = gen_signature(rng, kind)
    changers = []
    cur = (params, star, kw)
    for _ in range(rng.choice([1, 1, 2, 2, 3])):
        ch = gen_changer(rng, cur[0], cur[1], cur[2], kind, wild=wild or rng.random() < 0.08)
        changers.append(ch)
        nxt = sim_def(cur[0], cur[1], cur[2], ch)
        if nxt is None:
            break
        cur = nxt
    if any(ch[0] == "inl" for ch in changers):
        # inlining a default moves its evaluation from def time to call time by design: keep time-sensitive
        # expressions out of the defaults of such cases
        params = [(n, "0" if d in TIME_SENSITIVE else d) for (n, d) in params]
    removed = ever_removed(params, star, kw, changers)
    used = [x for x in ([p[0] for p in params] + [y for y in (star, kw) if y]) if x not in removed and rng.random() < 0.9]
    case = {"kind": kind, "params": params, "star": star, "kw": kw, "used": used, "changers": changers, "sites": []}
    if kind == "init" and rng.random() < 0.4:
        case["nested"] = True
    ns = nsites if nsites is not None else rng.choice([1, 2, 3, 4, 5, 8])
    for k in range(1, ns + 1):
        module, func, style = rng.choice(SITE_STYLES["nested" if case.get("nested") else kind])
        implicit = style in ("inst", "self")
        ctor = style in ("ctor", "selfctor")
        skip = 1 if kind in ("method", "init") else 0      # explicit receivers are prepended below
        invalid = wild and rng.random() < 0.15
        s = gen_call_args(rng, params, star, kw, k, skip, valid=not invalid, allow_star=star_calls)
        if style in ("cls", "subinit"):
            recv = "o" if style == "cls" and module == "m.py" else ("self" if style == "subinit" else ("mm.o" if module == "u2.py" else "o"))
            s["pos"] = [recv] + s["pos"]
        s.update(k=k, module=module, func=func, style=style, implicit=implicit, ctor=ctor,
                 infunc=(style not in ("self", "subinit", "selfctor") and rng.random() < 0.3),
                 layout=rng.choice([0, 0, 0, 1, 2, 3]))
        case["sites"].append(s)
    if kind == "method" and nsites is None and rng.random() < 0.7:
        add_twin_sites(rng, case, ns + 1)
    for s in case["sites"]:
        if any("\n" in x for x in s["pos"] + [v for _, v in s["kws"]] + list(s.get("star_vals", [])) + [v for _, v in s.get("kwstar_items", [])]):
            s["layout"] = 0           # the text of a multi-line literal must not be re-indented by the printer
            s["infunc"] = False
    return case


def add_twin_sites(rng, case, k):
    """Two call sites with character-identical text `node.meth(o2, ...)`: in u1 `node` is an instance (bound call,
    o2 is the first real argument), in u2 `node` is an alias of the class (unbound call, o2 is the receiver)."""
    ps = case["params"][1:]
    required = sum(1 for p in ps if p[1] is None)
    hi = len(ps) + (2 if case["star"] else 0)
    if hi < required + 1 or not ps:
        return
    n = rng.randint(required + 1, hi)           # arguments of the bound form; the unbound form passes n - 1
    vals = ["o2"] + [fresh_value(k, j) for j in range(1, n)]
    kws = []
    for (name, dflt) in ps[n:]:
        if dflt is not None and rng.random() < 0.4:
            kws.append((name, fresh_value(k, 20 + len(kws))))
    base = {"pos": vals, "kws": kws, "star": None, "kwstar": None, "star_len": 0, "kwstar_keys": [], "infunc": False, "layout": 0, "func": "node.meth"}
    case["sites"].append(dict(base, k=k, module="u1.py", style="inst", implicit=True, ctor=False, pos=vals[1:], twin="bound"))
    case["sites"][-1]["pos"] = list(vals)      # bound: every written argument is a real argument
    case["sites"].append(dict(base, k=k + 1, module="u2.py", style="cls", implicit=False, ctor=False, pos=list(vals), twin="unbound"))


# ----------------------------------------------------------------------------- rope driver
def make_changers(changers):
    from rope.refactor import change_signature as cs
    out = []
    for ch in changers:
        t = ch[0]
        if t == "norm":
            out.append(cs.ArgumentNormalizer())
        elif t == "rem":
            out.append(cs.ArgumentRemover(ch[1]))
        elif t == "add":
            out.append(cs.ArgumentAdder(ch[1], ch[2], ch[3], ch[4]))
        elif t == "inl":
            c = cs.ArgumentDefaultInliner(ch[1])
            c.remove = bool(ch[2])
            out.append(c)
        elif t == "reo":
            out.append(cs.ArgumentReorderer(list(ch[1]), autodef=ch[2]))
    return out


def target_offset(case, src):
    name = {"func": "def f(", "method": "def meth(", "init": "def __init__("}[case["kind"]]
    return src.index(name) + 4


def run_rope(case, modules, target=None, stop_at=None, events=None, info=None):
    """Returns (new_modules | None, error_name | None).
    stop_at = k: a real TaskHandle is passed whose k-th notification (job set created, job started, job finished)
    stops it; events (a list) receives the number of notifications seen."""
    from rope.base.project import Project
    from rope.base import taskhandle
    from rope.refactor.change_signature import ChangeSignature
    d = tempfile.mkdtemp(prefix="ropeverif-")
    try:
        project = Project(d, ropefolder=None)
        try:
            for fn, src in modules.items():
                project.root.create_file(fn).write(src)
            res = project.get_resource("m.py")
            off = target_offset(case, modules["m.py"]) if target is None else target
            kwargs = {}
            if stop_at is not None or events is not None:
                handle = taskhandle.TaskHandle("change signature")
                seen = [0]

                def observer():
                    seen[0] += 1
                    if stop_at is not None and seen[0] == stop_at and not handle.is_stopped():
                        handle.stop()
                handle.add_observer(observer)
                kwargs["task_handle"] = handle
            try:
                if info is not None and not kwargs:
                    # a preview that is thrown away: computing the changes is pure, the second computation on the
                    # untouched project must give the same change set
                    preview = ChangeSignature(project, res, off).get_changes(make_changers(case["changers"]))
                    info["preview"] = {ch.resource.path: ch.new_contents for ch in preview.changes}
                changes = ChangeSignature(project, res, off).get_changes(make_changers(case["changers"]), **kwargs)
            except Exception as e:   # IndexError / AssertionError of the changers, rope's own refusals, InterruptedTaskError
                return None, type(e).__name__
            finally:
                if events is not None:
                    events.append(seen[0])
            new = dict(modules)
            for ch in changes.changes:
                new[ch.resource.path] = ch.new_contents
            if info is not None and "preview" in info:
                info["recompute_differs"] = info["preview"] != {ch.resource.path: ch.new_contents for ch in changes.changes}
            return new, None
        finally:
            project.close()
    finally:
        shutil.rmtree(d, ignore_errors=True)


# ----------------------------------------------------------------------------- text -> structure
class _Tok(object):
    __slots__ = ("type", "string", "a", "b")

    def __init__(self, type_, string, a, b):
        self.type, self.string, self.a, self.b = type_, string, a, b


def _toks(text):
    """tokens with ABSOLUTE character offsets a/b into text (a string literal may span lines)"""
    toks = []
    starts = [0]
    for ln in text.split("\n"):
        starts.append(starts[-1] + len(ln) + 1)
    try:
        for t in tokenize.generate_tokens(io.StringIO(text).readline):
            if t.type in (tokenize.NL, tokenize.NEWLINE, tokenize.COMMENT, tokenize.INDENT, tokenize.DEDENT, tokenize.ENDMARKER):
                continue
            a = starts[t.start[0] - 1] + t.start[1]
            toks.append(_Tok(t.type, t.string, a, a + len(t.string)))      # not t.end: unreliable after non-ASCII text (3.12)
    except (tokenize.TokenError, IndentationError, SyntaxError):
        pass
    return toks


def split_parens(text):
    """text ends (after stripping) with ')': returns (prefix, [piece, ...]) for the last parenthesis group,
    pieces split at top-level commas, or None."""
    text = text.strip()
    toks = _toks(text)
    if not toks or toks[-1].string != ")":
        return None
    depth = 0
    open_i = None
    for i in range(len(toks) - 1, -1, -1):
        s = toks[i].string
        if toks[i].type == tokenize.OP and s in ")]}":
            depth += 1
        elif toks[i].type == tokenize.OP and s in "([{":
            depth -= 1
            if depth == 0:
                open_i = i
                break
    if open_i is None:
        return None
    prefix = text[:toks[open_i].a].strip()
    pieces = []
    depth = 0
    start = toks[open_i].b
    for t in toks[open_i + 1:-1]:
        if t.type == tokenize.OP and t.string in "([{":
            depth += 1
        elif t.type == tokenize.OP and t.string in ")]}":
            depth -= 1
        elif t.type == tokenize.OP and t.string == "," and depth == 0:
            pieces.append(text[start:t.a].strip())
            start = t.b
    last = text[start:toks[-1].a].strip()
    if last or pieces:
        pieces.append(last)
    return prefix, pieces


def piece_kw(piece):
    toks = _toks(piece)
    if len(toks) >= 2 and toks[0].type == tokenize.NAME and toks[1].type == tokenize.OP and toks[1].string == "=":
        return toks[0].string, piece[toks[1].b:].strip()
    return None


def split_eq(piece):
    """split at the first top-level '=' token: (left, right) or None"""
    depth = 0
    for t in _toks(piece):
        if t.type == tokenize.OP and t.string in "([{":
            depth += 1
        elif t.type == tokenize.OP and t.string in ")]}":
            depth -= 1
        elif t.type == tokenize.OP and t.string == "=" and depth == 0:
            return piece[:t.a].strip(), piece[t.b:].strip()
    return None


def parse_def_header(line):
    """`def f(a, b=1, *r, **k):` -> list of ('plain', n) | ('default', n, e) | ('star', n) | ('kw', n), or None.
    Pieces are classified textually (the emitted header need not be valid Python: `*r=1`, `*`)."""
    line = line.strip()
    if line.endswith(":"):
        line = line[:-1]
    sp = split_parens(line)
    if sp is None:
        return None
    out = []
    for p in sp[1]:
        kv = split_eq(p)
        if kv:
            out.append(("default", kv[0], kv[1]))
        elif p.startswith("**"):
            out.append(("kw", p[2:].strip()))
        elif p.startswith("*"):
            out.append(("star", p[1:].strip()))
        else:
            out.append(("plain", p))
    return out


def parse_call_text(text, implicit):
    """call text -> rendered dict(recv, fname, pos, kws, star, kwstar) or None."""
    sp = split_parens(text)
    if sp is None:
        return None
    prefix, pieces = sp
    pos, kws, kwstar = [], [], None
    for p in pieces:
        kv = split_eq(p)
        if kv is None and p.startswith("**"):
            kwstar = p[2:].strip()
            continue
        if kv:
            kws.append(kv)
        else:
            pos.append(p)
    star = None           # starred positionals stay in pos as written ("*xs"); Runner.norm_in decides
    recv, fname = None, prefix
    if implicit and "." in prefix:
        recv, fname = prefix.rsplit(".", 1)
        recv, fname = recv.strip(), fname.strip()
    return {"recv": recv, "fname": fname, "pos": pos, "kws": kws, "star": star, "kwstar": kwstar}


def site_rendered(s):
    """the generator's structure of a site as the same kind of dict as parse_call_text returns"""
    pos = list(s["pos"])
    if s["star"] is not None:
        pos = (["*" + s["star"]] + pos) if s.get("star_first") else (pos + ["*" + s["star"]])
    star = None
    recv, fname = None, s["func"]
    if s["implicit"]:
        recv, fname = s["func"].rsplit(".", 1)
    return {"recv": recv, "fname": fname, "pos": pos, "kws": [tuple(x) for x in s["kws"]], "star": star, "kwstar": s["kwstar"]}


def find_line(src, prefix_re):
    import re
    for m in re.finditer(prefix_re, src, re.M):
        return m
    return None


def extract_site_text(src, k):
    """the right-hand side of `v<k> = ...`: the whole logical line (a call the refactoring left alone may
    still span several physical lines), comments dropped and continuation lines joined by one space"""
    import re
    m = re.search(r"^[ \t]*v%d = " % k, src, re.M)
    if not m:
        return None
    rest = src[m.end():]
    out = []
    starts = [0]
    for ln in rest.split("\n"):
        starts.append(starts[-1] + len(ln) + 1)
    prev_end = 0
    try:
        # lazily: the lines after the statement may be indented in a way the tokenizer rejects out of context
        for t in tokenize.generate_tokens(io.StringIO(rest).readline):
            if t.type == tokenize.NEWLINE or t.type == tokenize.ENDMARKER:
                break
            if t.type in (tokenize.COMMENT, tokenize.NL):
                continue
            a = starts[t.start[0] - 1] + t.start[1]
            gap = rest[prev_end:a]
            if out:
                out.append(gap if "\n" not in gap and "#" not in gap else " ")
            out.append(t.string)
            prev_end = a + len(t.string)        # not t.end: unreliable for a multi-line literal after non-ASCII text (3.12)
    except (tokenize.TokenError, IndentationError, SyntaxError):
        if not out:
            return rest.split("\n", 1)[0]
    return "".join(out)


def extract_def_line(case, src):
    import re
    name = {"func": "f", "method": "meth", "init": "__init__"}[case["kind"]]
    m = re.search(r"^[ \t]*def %s\b(.*)$" % re.escape(name), src, re.M)
    return ("def %s" % name) + m.group(1) if m else None


# ----------------------------------------------------------------------------- independent oracle
class OracleFail(Exception):
    pass


def _sig_from_def(node, src):
    """inspect.Signature of a FunctionDef whose defaults are replaced by their own source text."""
    node = ast.parse(ast.unparse(node)).body[0]            # private copy
    seg = lambda n: ast.unparse(n)                         # noqa: E731
    node.args.defaults = [ast.Constant(value="DEFAULT:" + seg(x)) for x in node.args.defaults]
    node.args.kw_defaults = [None if x is None else ast.Constant(value="DEFAULT:" + seg(x)) for x in node.args.kw_defaults]
    node.body = [ast.Pass()]
    node.decorator_list = []
    node.returns = None
    mod = ast.Module(body=[node], type_ignores=[])
    ast.fix_missing_locations(mod)
    ns = {}
    exec(compile(mod, "<sig>", "exec"), ns)
    return inspect.signature(ns[node.name])


def find_def(tree, case):
    name = {"func": "f", "method": "meth", "init": "__init__"}[case["kind"]]
    for node in ast.walk(tree):
        if isinstance(node, ast.ClassDef) and node.name == "A" and case["kind"] != "func":
            for x in node.body:
                if isinstance(x, ast.FunctionDef) and x.name == name:
                    return x
        if isinstance(node, ast.FunctionDef) and node.name == name and case["kind"] == "func":
            return node
    return None


def find_site_call(tree, k):
    for node in ast.walk(tree):
        if isinstance(node, ast.Assign) and len(node.targets) == 1 and isinstance(node.targets[0], ast.Name) \
                and node.targets[0].id == "v%d" % k and isinstance(node.value, ast.Call):
            return node.value
    return None


def call_actuals(call, site):
    """(positional source strings, [(kw, source)]) of an ast.Call, with *xs / **kw expanded to the
    runtime contents the generator gave them (xs<k>[i], kw<k>[key])."""
    pos, kws = [], []
    if site["implicit"]:
        pos.append("RECV:" + ast.unparse(call.func.value))
    elif site["ctor"]:
        pos.append("RECV:<new instance>")
    for a in call.args:
        if isinstance(a, ast.Starred):
            name = ast.unparse(a.value)
            for i in range(site["star_len"]):
                pos.append("%s[%d]" % (name, i))
        else:
            pos.append(ast.unparse(a))
    for kwd in call.keywords:
        if kwd.arg is None:
            name = ast.unparse(kwd.value)
            for key in site["kwstar_keys"]:
                kws.append((key, "%s[%r]" % (name, key)))
        else:
            kws.append((kwd.arg, ast.unparse(kwd.value)))
    return pos, kws


class BoundSources(dict):
    """parameter -> source text of what it receives; .defaulted = parameters filled by their default"""
    def __init__(self):
        dict.__init__(self)
        self.defaulted = set()


def bind_sources(sig, pos, kws):
    names = [k for k, _ in kws]
    if len(set(names)) != len(names):
        raise TypeError("repeated keyword")
    ba = sig.bind(*pos, **dict(kws))
    ba.apply_defaults()
    out = BoundSources()
    for n, v in ba.arguments.items():
        if isinstance(v, str) and v.startswith("DEFAULT:"):
            v = v[len("DEFAULT:"):]
            out.defaulted.add(n)
        out[n] = v
    return out


def oracle_site(case, oc, nc, old_sig, new_sig, site):
    """oc / nc: ast.Call of the site before / after.  Returns (status, detail): 'ok', 'old-invalid', 'fail'."""
    k = site["k"]
    if oc is None:
        return "fail", "harness: site v%d not found in the original" % k
    if nc is None:
        return "fail", "call site v%d is no longer a call" % k
    try:
        ob = bind_sources(old_sig, *call_actuals(oc, site))
    except TypeError:
        return "old-invalid", ""
    if ast.unparse(oc.func) != ast.unparse(nc.func):
        return "fail", "callee expression of v%d changed: %s -> %s" % (k, ast.unparse(oc.func), ast.unparse(nc.func))
    try:
        nb = bind_sources(new_sig, *call_actuals(nc, site))
    except TypeError as e:
        return "fail", "rewritten call v%d does not bind: %s" % (k, e)
    # a parameter introduced by an ArgumentAdder is new even when it reuses the name of a removed one:
    # every existing call must give it the supplied value, else its default
    added = {}
    for name, (dflt, val) in final_origins(case["params"], case["star"], case["kw"], case["changers"]).items():
        if (dflt is not None or val is not None) and name in new_sig.parameters \
                and new_sig.parameters[name].kind == inspect.Parameter.POSITIONAL_OR_KEYWORD:
            added[name] = ast.unparse(ast.parse(val if val is not None else dflt, mode="eval").body)
    for n in nb:
        if n in added:
            if nb[n] != added[n]:
                return "fail", "v%d: added parameter %s receives %r instead of %r" % (k, n, nb[n], added[n])
        elif n in ob:
            okind = old_sig.parameters[n].kind
            nkind = new_sig.parameters[n].kind
            if okind != nkind:
                continue
            if ob[n] != nb[n]:
                return "fail", "v%d: parameter %s received %r before and %r after" % (k, n, ob[n], nb[n])
            # a default is evaluated when the def runs, an argument at the call: equal spelling is not enough
            if n not in ob.defaulted and n in nb.defaulted:
                return "fail", "v%d: the explicit argument %r of %s was dropped in favour of the (def-time) default" % (k, ob[n], n)
            if n in ob.defaulted and n not in nb.defaulted and not any(ch[0] == "inl" for ch in case["changers"]):
                return "fail", "v%d: parameter %s took its default before and is passed %r explicitly now (no default inliner asked for it)" % (k, n, nb[n])
    return "ok", nb


def run_program(modules):
    """Executes main.py of the module set in-process and returns its printed output (or the exception)."""
    d = tempfile.mkdtemp(prefix="ropeverif-")
    saved = {k: sys.modules.pop(k) for k in ("m", "u1", "u2", "main") if k in sys.modules}
    try:
        for fn, src in modules.items():
            with open(os.path.join(d, fn), "w") as f:
                f.write(src)
        sys.path.insert(0, d)
        buf = io.StringIO()
        try:
            with contextlib.redirect_stdout(buf):
                exec(compile(modules["main.py"], os.path.join(d, "main.py"), "exec"), {"__name__": "__main__"})
        except BaseException as e:   # noqa: B902
            return buf.getvalue() + "\nEXC:%s:%s" % (type(e).__name__, str(e)[:200])
        return buf.getvalue()
    finally:
        if d in sys.path:
            sys.path.remove(d)
        for k in ("m", "u1", "u2", "main"):
            sys.modules.pop(k, None)
        sys.modules.update(saved)
        shutil.rmtree(d, ignore_errors=True)


# ----------------------------------------------------------------------------- shapes beyond the model
def gen_beyond(rng):
    """keyword-only parameters, nested calls of the changed function, subclass constructors, a starred
    argument that is not the last positional: rope + oracle (+ model where it applies)"""
    t = rng.choice(["kwonly", "kwonly", "nested", "subctor", "starfirst", "nonascii", "nonascii"])
    for _ in range(50):
        case = gen_case(rng, wild=False, nsites=rng.choice([1, 2]), star_calls=False)
        if t == "nonascii":
            if sprinkle_nonascii(rng, case):
                return case
            continue
        if t == "kwonly":
            if case["kw"] is not None and rng.random() < 0.5:
                case["kw"] = None
            ko = [(n, rng.choice([None, "0", "(1, 2)"])) for n in rng.sample(["k1", "k2"], rng.choice([1, 1, 2]))]
            case["kwonly"] = ko
            case["used"] = case["used"] + [n for n, _ in ko]
            for s in case["sites"]:
                for (n, d) in ko:
                    if d is None or rng.random() < 0.5:
                        s["kws"].insert(rng.randint(0, len(s["kws"])), (n, fresh_value(s["k"], 50)))
            npd = sum(1 for _, d in case["params"] if d is not None)
            # with positional defaults the header parser zips (name, default) TUPLES with the keyword-only defaults: a missing
            # default among the zipped ones makes it raise (AttributeError, modelled as a refusal); otherwise a tuple ends up
            # as a parameter name, outside the token model (oracle only)
            first = [d for _, d in ko][:min(len(ko), npd)]
            case["unmodelled"] = bool(npd > 0 and all(d is not None for d in first))
            return case
        if t == "nested":
            if case["kind"] != "func":
                continue
            s = case["sites"][0]
            if not s["pos"]:
                continue
            inner = dict(s)
            i = rng.randrange(len(s["pos"]))
            s["pos"][i] = fmt_call(s["func"], inner, 0)
            s["nested"] = True
            case["unmodelled"] = True
            return case
        if t == "subctor":
            if case["kind"] != "init" or case.get("nested"):
                continue
            s = case["sites"][0]
            if s["style"] != "ctor":
                continue
            s["style"] = "subctor"
            s["func"] = "S%d" % s["k"]
            return case
        if t == "starfirst":
            s = case["sites"][0]
            if s["style"] not in ("plain",) or not s["pos"]:
                continue
            cut = rng.randint(1, len(s["pos"]))
            s["star"] = "xs%d" % s["k"]
            s["star_vals"] = s["pos"][:cut]
            s["star_len"] = cut
            s["pos"] = s["pos"][cut:]
            s["star_first"] = True
            return case
    return gen_case(rng)


def run_introduce(case, modules, info=None):
    """IntroduceParameter at the first occurrence of the expression in the body of the target function."""
    from rope.base.project import Project
    from rope.refactor.introduce_parameter import IntroduceParameter
    d = tempfile.mkdtemp(prefix="ropeverif-")
    try:
        project = Project(d, ropefolder=None)
        try:
            for fn, src in modules.items():
                project.root.create_file(fn).write(src)
            res = project.get_resource("m.py")
            src = modules["m.py"]
            start = target_offset(case, src)
            expr = case["introduce"]["expr"]
            off = src.index(expr, src.index("return", start))
            if "." in expr:
                off += len(expr) - 1      # on the attribute name: the primary is the dotted expression
            try:
                if info is not None:
                    preview = IntroduceParameter(project, res, off).get_changes(case["introduce"]["name"])     # discarded
                    info["preview"] = {ch.resource.path: ch.new_contents for ch in preview.changes}
                changes = IntroduceParameter(project, res, off).get_changes(case["introduce"]["name"])
                if info is not None:
                    info["recompute_differs"] = info["preview"] != {ch.resource.path: ch.new_contents for ch in changes.changes}
            except Exception as e:
                return None, type(e).__name__
            new = dict(modules)
            for ch in changes.changes:
                new[ch.resource.path] = ch.new_contents
            return new, None
        finally:
            project.close()
    finally:
        shutil.rmtree(d, ignore_errors=True)
