"""C03 — extract method/variable preserves behaviour or is refused.

Every generated host (function / method / module position; two streams: all locals initialised first, or
not) is rendered to Python; for EVERY contiguous statement range of every block the real
`ExtractMethod(project, resource, start, end).get_changes("g")` is run. Observed: refused?
(RefactoringError), the collector's start/end and six sets (by substituting a recording subclass of
_FunctionInformationCollector inside this process), args, returns, the resulting module abstracted back
into the Flow fragment. All of it is written, together with the located program, into a Coq case file and
compared there with the model (coq/C03/Collector.v) by vm_compute; the Flow semantics itself is compared
with CPython on every argument vector (before and after).

Independent oracle: the module is executed before and after on several argument vectors; printed values,
returned value and exception class must be equal (UnboundLocalError is a NameError), the result must parse.
"""
import ast
import json

from harness import c03_gen as G
from harness import c03_exec as E
from harness import c03_similar as S

PROPERTY = "C03"
HEADER = ("From Coq Require Import List NArith ZArith Bool.\nImport ListNotations.\n"
          "From RopeVerif.C03 Require Import Flow Collector Dataflow Runner.\n")
NVEC = 5
MISMATCH_BITS = {1: "refusal", 2: "region lines", 4: "collector sets", 8: "args", 16: "returns",
                 32: "resulting program", 64: "Flow semantics vs CPython (original)",
                 128: "Flow semantics of the model's result vs CPython on rope's result",
                 256: "outline_ok holds but the model's result behaves differently"}
SWITCHES = ["restore", "balanced", "killnest", "readmaybe", "loopall", "globalargs", "loopprew"]
CONDS = ((1, "arg-missing"), (2, "arg-maybe-unbound"), (4, "result-missing"), (8, "result-maybe-unbound"),
         (16, "shape"))


def decode_class(cls):
    """-> (d0, switch set as list of names, kind) from Runner.classify."""
    d0, rest = cls % 32, cls // 32
    return d0, [n for k, n in enumerate(SWITCHES) if (rest % 128) >> k & 1], rest // 128


def class_name(cls):
    """Structural class of a case as computed by the model alone (Runner.classify)."""
    if cls == 99999:
        return "refused"
    if cls == 0:
        return "sound"
    d0, sws, kind = decode_class(cls)
    conds = "+".join(n for b, n in CONDS if d0 & b)
    if kind == 0:
        return conds + ";fixed-by=" + "+".join(sws)
    if kind == 1:
        return conds + ";fixed-by=" + ("+".join(sws) if sws else "nothing") + "(leaves possibly-unbound)"
    if kind == 4:
        return conds
    return conds + ";fixed-by=none"


def defect_of(cls):
    """The known defect a model-explained failure is attributed to: the first switch of the smallest repairing
    set; `maybe-unbound` when only the possibly-unbound hypotheses fail; `unrepaired` otherwise."""
    d0, sws, kind = decode_class(cls)
    if kind in (0, 1) and sws:
        return sws[0]
    if kind == 1:
        return "maybe-unbound"
    return "unrepaired"


# ----------------------------------------------------------------------------- one host
def g_obs(o):
    out, final = o
    kind = {"none": 0, "ret": 1, "exc": 3, "timeout": 4, "syntax": 3}[final[0]]
    val = 0
    if final[0] == "exc" and final[1] == "NameError":
        kind = 2
    if final[0] == "ret":
        if isinstance(final[1], int):
            val = final[1]
        else:
            kind = 3
    outs = [x if isinstance(x, int) and not isinstance(x, bool) else None for x in out]
    if any(x is None for x in outs):
        kind, outs = 3, [x for x in outs if x is not None]
    return "{| o_kind := %d%%N; o_val := (%d)%%Z; o_out := [%s] |}" % (kind, val, "; ".join("(%d)%%Z" % x for x in outs))


class Host:
    def __init__(self, host, layout_rng):
        self.host = host
        self.src, self.spans, self.zero = G.render(host, layout_rng)
        tree = ast.parse(self.src)
        if host["pos"] == "module":
            nodes = tree.body
        else:
            nodes = G.find_defs(tree, host["pos"])["f"].body
        self.lines = []
        back = G.a_block(nodes, self.lines)
        assert back == host["body"], "renderer / abstraction round trip"
        self.lines = [l - self.zero for l in self.lines]
        self.params = (["self"] if host["pos"] == "method" else []) + list(host["params"])

    def regions(self):
        for path, blk in G.blocks_of(self.host["body"]):
            sp = G.spans_at(self.spans, path)
            for i in range(len(blk)):
                for j in range(i + 1, len(blk) + 1):
                    yield path, i, j, sp[i]["first"], sp[j - 1]["last"]

    def loc_term(self, path, i, j):
        return G.g_loc(self.host["body"], path, i, j, iter(self.lines))


def first_difference(vecs, before, after):
    for v, b, a in zip(vecs, before, after):
        if b[1][0] == "timeout":
            continue
        if a != b:
            return {"vec": v, "before": b, "after": a}
    return None


def case_term(h, path, i, j, r, vecs, before, after, want):
    pos = h.host["pos"]
    result = None
    note = None
    if r["new"] is not None:
        try:
            ab = G.abstract_result(r["new"], pos, "g", h.host["params"])
            if ab["params"] != list(h.host["params"]):
                raise G.Unsupported("host parameters changed")
            if pos == "module":
                for s in G._walk(ab["body"]):
                    if s[0] == "call":
                        s.append(True)
            result = G.g_block(ab["body"], None)
        except (G.Unsupported, SyntaxError) as e:
            note = "result not abstractable: %s" % (e,)
    # vectors on which the original does not terminate within the step limit carry no information: drop them
    keep = [k for k, b in enumerate(before) if b[1][0] != "timeout"]
    vecs = [vecs[k] for k in keep]
    before = [before[k] for k in keep]
    after = [after[k] for k in keep] if after else after
    sets = r["sets"] or [[], [], [], [], [], []]
    se = r["start_end"] or [0, 0]
    return ("{| c_glob := %s; c_params := %s; c_loc := %s; c_refused := %s; c_want := %s; c_lines := (%d%%N, %d%%N); "
            "c_sets := [%s]; c_args := %s; c_rets := %s; c_result := %s; c_vecs := [%s]; c_before := [%s]; "
            "c_after := [%s] |}" % (
                "true" if pos == "module" else "false", G.g_vars(h.params), h.loc_term(path, i, j),
                "true" if r["refused"] else "false", "true" if want else "false", se[0], se[1],
                "; ".join(G.g_vars(s) for s in sets), G.g_vars(r["args"] or []), G.g_vars(r["rets"] or []),
                "None" if result is None else "(Some %s)" % result,
                "; ".join("[" + "; ".join("(%d)%%Z" % x for x in ([0] if pos == "method" else []) + list(v)) + "]"
                          for v in vecs),
                "; ".join(g_obs(o) for o in before),
                "; ".join(g_obs(o) for o in (after or [])))), note


def known_name(x):
    return x in G.IDX


# ----------------------------------------------------------------------------- the run
def evaluate(ctx, drv, hosts, records):
    """hosts: list of Host. Appends one record per (host, region) to `records`."""
    for h in hosts:
        pos = h.host["pos"]
        vecs = E.vectors(ctx.rng, len(h.host["params"]), NVEC)
        before = [E.run_program(h.src, pos, h.host["params"], v) for v in vecs]
        for path, i, j, first, last in h.regions():
            r = drv.args_rets(h.src, first, last)
            after = None
            fail = None
            if r["error"] and not r["refused"]:
                fail = {"crash": r["error"]}
            elif not r["refused"]:
                after = [E.run_program(r["new"], pos, h.host["params"], v) for v in vecs]
                fail = first_difference(vecs, before, after)
            term, note = case_term(h, path, i, j, r, vecs, before, after, bool(fail))
            for s in (r["sets"] or []):
                assert all(known_name(x) for x in s), s
            records.append({"h": h, "path": path, "i": i, "j": j, "first": first, "last": last, "r": r,
                            "vecs": vecs, "fail": fail, "term": term, "note": note})


def coq_eval(ctx, records, shard=150):
    bodies = []
    for s in range(0, len(records), shard):
        terms = [rec["term"] for rec in records[s:s + shard]]
        bodies.append(HEADER + "Definition cases : list case := [\n%s].\nEval vm_compute in (mismatches cases).\n"
                      "Eval vm_compute in (classes cases).\nEval vm_compute in [count_static cases; static_contradictions cases].\n"
                      % ";\n".join(terms))
    outs = ctx.coq_files_parallel(bodies)
    for si, out in enumerate(outs):
        pairs = ctx.parse_pairs(out)
        mism = dict(pairs[0]) if pairs else {}
        nums = ctx.parse_nums(out)
        cls = nums[-2] if len(nums) >= 2 else []
        ctx.extra["cases_in_static_theorem_domain"] = ctx.extra.get("cases_in_static_theorem_domain", 0) + nums[-1][0]
        if nums[-1][1]:
            ctx.violation({"kind": "static-contradiction", "broken": "a case inside side_C03 does not satisfy outline_ok: "
                           "contradicts C03_collector_sufficient_partial (model or Coq build inconsistent)"},
                          "C03: case inside side_C03 violates outline_ok", no_input=True)
        chunk = records[si * shard:(si + 1) * shard]
        assert len(cls) == len(chunk), (len(cls), len(chunk), out[-500:])
        for k, rec in enumerate(chunk):
            rec["mismatch"] = mism.get(k, 0)
            rec["class"] = cls[k]


def replay_obj(rec):
    h = rec["h"]
    o = {"kind": "extract", "pos": h.host["pos"], "params": h.host["params"], "source": h.src,
         "first": rec["first"], "last": rec["last"], "vecs": rec["vecs"]}
    if "class" in rec:
        explained = rec.get("mismatch", 0) == 0
        o["model_class"] = class_name(rec["class"])
        o["class"] = ("explained:" + defect_of(rec["class"])) if explained and rec["class"] not in (0, 99999) \
            else "unexplained"
    return o


def h_block_is_loop_else(h, path):
    body = h.host["body"]
    for (k, br) in path[:-1]:
        s = body[k]
        body = s[2 + br] if s[0] in ("if", "while") else s[3 + br]
    return body[path[-1][0]][0] in ("while", "for")


def survey(records):
    """Development aid (VERIF_C03_SURVEY=1): histogram of oracle failures by model class and of mismatches."""
    import collections
    c = collections.Counter()
    ex = {}
    for rec in records:
        key = None
        if rec["fail"]:
            key = ("FAIL", rec["h"].host["pos"], class_name(rec["class"]), rec["mismatch"])
        elif rec["mismatch"] or rec["note"]:
            key = ("MISMATCH", rec["h"].host["pos"], rec["mismatch"], rec["note"])
        else:
            key = ("ok", rec["h"].host["pos"], class_name(rec["class"]))
        c[key] += 1
        if (key[0] != "ok" or "none" in key[2]) and (key not in ex or len(rec["h"].src) < len(ex[key]["h"].src)):
            ex[key] = rec
    for k, v in sorted(c.items(), key=repr):
        print(v, k)
    for k, rec in sorted(ex.items(), key=repr):
        print("=" * 70)
        print(k, "lines", rec["first"], rec["last"], "fail", rec["fail"])
        print(rec["h"].src)
        print("sets", rec["r"]["sets"], "args", rec["r"]["args"], "rets", rec["r"]["rets"])
        if rec["r"]["new"]:
            print(rec["r"]["new"])


def report(ctx, records):
    import os
    if os.environ.get("VERIF_C03_SURVEY"):
        survey(records)
        return
    for rec in records:
        h, r = rec["h"], rec["r"]
        pos = h.host["pos"]
        cname = class_name(rec["class"])
        nontrivial = (not r["refused"]) and bool(r["args"] or r["rets"])
        ctx.case((h.src, rec["first"], rec["last"]), nontrivial=nontrivial)
        ctx.traces += 1
        ctx.count("position:" + pos)
        if rec["path"] and rec["path"][-1][1] == 1 and h_block_is_loop_else(h, rec["path"]):
            ctx.count("region_in_loop_else_clause")
        ctx.count("stream:" + h.stream)
        ctx.count("refused" if r["refused"] else "extracted")
        if not r["refused"]:
            ctx.count("model-class:" + cname)
            if rec["class"] == 0:
                ctx.extra["cases_in_theorem_domain"] = ctx.extra.get("cases_in_theorem_domain", 0) + 1
        if rec["note"] and not rec["mismatch"] & 32:
            rec["mismatch"] |= 32
    # 1. inputs on which the property fails (oracle), each with the model's explanation if it has one
    failing_hosts = {}
    for rec in records:
        if not rec["fail"]:
            continue
        h = rec["h"]
        obj = replay_obj(rec)
        obj["observed"] = rec["fail"]
        if rec["mismatch"]:
            obj["mismatch"] = mismatch_text(rec)
        reported = ctx.violation(obj, "C03: extracting lines %d-%d changes behaviour (%s): %r [%s; model class %s]\n%s" % (
            rec["first"], rec["last"], h.host["pos"], rec["fail"], obj["class"], obj.get("model_class"), h.src))
        if reported:
            failing_hosts.setdefault(id(h), rec)
        if ctx.too_many(6):
            return
    # 2. model and code disagree but the oracle passed: look for a failing input in the neighbourhood (other
    #    regions of the same host already reported above, then more argument vectors for this region)
    for rec in records:
        if rec["fail"] or not rec["mismatch"]:
            continue
        h = rec["h"]
        if id(h) in failing_hosts:
            ctx.count("mismatch_next_to_reported_failing_input")
            continue
        obj = replay_obj(rec)
        obj["mismatch"] = mismatch_text(rec)
        found = more_vectors(ctx, rec)
        if found:
            obj["observed"], obj["vecs"] = found, [found["vec"]]
            ctx.violation(obj, "C03: extracting lines %d-%d changes behaviour (%s): %r [model and rope disagree on %s]\n%s" % (
                rec["first"], rec["last"], h.host["pos"], found, obj["mismatch"], h.src))
        else:
            obj["broken"] = ("correspondence RopeVerif.C03.Runner.run_case (model Collector.collect / args_of / "
                             "rets_of / accepted / extract vs rope/refactor/extract.py); theorems "
                             "C03_extract_preserves and the C03_*_refuted witnesses no longer speak about the code")
            ctx.violation(obj, "C03: model and rope disagree on %s for lines %d-%d of\n%s" % (
                obj["mismatch"], rec["first"], rec["last"], h.src), no_input=True)
        failing_hosts.setdefault(id(h), rec)
        if ctx.too_many(8):
            return


def mismatch_text(rec):
    what = ", ".join(n for b, n in MISMATCH_BITS.items() if rec["mismatch"] & b)
    if rec["note"]:
        what += " (" + rec["note"] + ")"
    return what


def more_vectors(ctx, rec, n=40):
    """Neighbourhood search: the same extraction on more argument vectors."""
    import random
    h, r = rec["h"], rec["r"]
    if r["new"] is None:
        return None
    rng = random.Random("nb-%s-%d-%d" % (h.src, rec["first"], rec["last"]))
    k = len(h.host["params"])
    for _ in range(n if k else 0):
        v = [rng.choice([-2, -1, 0, 1, 2, 3, 4, 5, 7]) for _ in range(k)]
        b = E.run_program(h.src, h.host["pos"], h.host["params"], v)
        if b[1][0] == "timeout":
            continue
        a = E.run_program(r["new"], h.host["pos"], h.host["params"], v)
        if a != b:
            return {"vec": v, "before": b, "after": a}
    return None


def V(x):
    return ["v", x]


def K(n):
    return ["c", n]


_HOST_UNBOUND = {"pos": "function", "params": ["a"], "body": [
    ["if", V("a"), [["assign", "x", K(1)]], []], ["if", V("a"), [["print", V("x")]], []]]}

# The defects found on the tree as it was. `witness` is the located program of the `_refuted` lemma in
# coq/C03/Witnesses.v: the harness checks on every run (inside Coq) that it is this replay. Entries with
# `fixed` = (commit, what failed) are fixed in /repo: their replays are corpus cases (corpus/C03/) that must pass,
# the model compares the code with the repaired discipline (coq/C03/Current.v), and a code that behaves like the
# as-found discipline again disagrees with the model (unexplained => VIOLATION).
KNOWN = [
    {"id": "C03-nested-conditional", "fixed": ("25782e7", "leaving a nested if/while/for reset `conditional`: a conditionally written name was returned but not passed (UnboundLocalError in the new function)"), "defect": "restore", "witness": "w_nested", "lemma": "C03_nested_conditional_refuted",
     "title": "extract: leaving a nested if/while/for resets `conditional`, a conditionally written name is "
              "returned but not passed (UnboundLocalError in the new function)",
     "host": {"pos": "function", "params": ["a", "b"], "body": [
         ["assign", "x", K(0)],
         ["if", V("a"), [["if", V("b"), [["pass"]], []], ["assign", "x", K(1)]], []],
         ["print", V("x")]]},
     "path": [], "i": 1, "j": 2, "vecs": [[0, 0], [1, 0], [1, 1]]},
    {"id": "C03-postwritten-branch", "fixed": ("f6cf806", "any textually later write (sibling else-branch, nested statement) hid later reads: a value computed in the region was silently not returned"), "defect": "killnest", "witness": "w_branch", "lemma": "C03_postwritten_branch_refuted",
     "title": "extract: any textually later write (sibling else-branch, nested statement) hides later reads, a "
              "value computed in the region is silently not returned",
     "host": {"pos": "function", "params": ["a"], "body": [
         ["assign", "z", K(0)],
         ["if", V("a"), [["assign", "z", K(4)]], [["assign", "z", K(3)]]],
         ["return", V("z")]]},
     "path": [[1, 0]], "i": 0, "j": 1, "vecs": [[1], [0]]},
    {"id": "C03-maybe-written-read", "defect": "readmaybe", "witness": "w_readmaybe", "lemma": "C03_maybe_written_read_refuted",
     "title": "extract: a read inside a conditional is ignored when the name was conditionally written by an "
              "earlier statement of the region, the name is not passed",
     "host": {"pos": "function", "params": ["a", "b"], "body": [
         ["assign", "z", K(0)],
         ["if", V("a"), [["assign", "z", K(5)]], []],
         ["if", V("b"), [["print", V("z")]], []]]},
     "path": [], "i": 1, "j": 3, "vecs": [[0, 1], [1, 1], [0, 0]]},
    {"id": "C03-loop-depth", "fixed": ("c0fa7ad", "leaving a loop that starts inside the region decremented loop_depth: loop-carried writes were not returned (the host looped for ever)"), "defect": "balanced", "witness": "w_loopdepth", "lemma": "C03_loop_depth_refuted",
     "title": "extract: leaving a loop that starts inside the region decrements loop_depth, later loop-carried "
              "writes of the region are not returned (the host loops for ever)",
     "host": {"pos": "function", "params": ["a"], "body": [
         ["assign", "x", K(0)],
         ["while", ["b", "<", V("x"), V("a")],
          [["for", "i", K(1), [["pass"]]], ["assign", "x", ["b", "+", V("x"), K(1)]]]]]},
     "path": [[1, 0]], "i": 0, "j": 2, "vecs": [[2], [1], [0]]},
    {"id": "C03-loop-carried", "defect": "loopall", "witness": "w_loopcarried", "lemma": "C03_loop_carried_refuted",
     "title": "extract: inside a loop only names the region itself read before writing are treated as live round "
              "the loop; a name read earlier in the loop body is not returned",
     "host": {"pos": "function", "params": ["a"], "body": [
         ["assign", "x", K(0)], ["assign", "y", K(0)],
         ["while", ["b", "<", V("x"), V("a")],
          [["print", V("y")], ["assign", "y", ["b", "+", V("x"), K(5)]],
           ["assign", "x", ["b", "+", V("x"), K(1)]]]]]},
     "path": [[2, 0]], "i": 1, "j": 2, "vecs": [[2], [3], [0]]},
    {"id": "C03-loop-prewritten", "defect": "loopprew", "witness": "w_loopprew", "lemma": "C03_loop_prewritten_refuted",
     "title": "extract: a name bound later in the enclosing loop body reaches the region in the next iteration "
              "but is not passed (NameError); the region should be refused",
     "host": {"pos": "function", "params": ["a"], "body": [
         ["assign", "x", K(0)],
         ["while", ["b", "<", V("x"), V("a")],
          [["if", ["b", "<", K(0), V("x")], [["print", V("y")]], []], ["assign", "y", V("x")],
           ["assign", "x", ["b", "+", V("x"), K(1)]]]]]},
     "path": [[1, 0]], "i": 0, "j": 1, "vecs": [[2], [3], [1]]},
    {"id": "C03-module-args", "fixed": ("99f0982", "module-level extract passed read & postread & written: a global read and rebound in the region but not read afterwards became an unbound local"), "defect": "globalargs", "witness": "w_module", "lemma": "C03_module_args_refuted",
     "title": "extract at module level: parameters are read & postread & written, a global read and rebound in "
              "the region but not read afterwards becomes an unbound local of the new function",
     "host": {"pos": "module", "params": [], "body": [
         ["assign", "x", K(1)], ["assign", "x", ["b", "+", V("x"), K(1)]]]},
     "path": [], "i": 1, "j": 2, "vecs": [[]]},
    {"id": "C03-arg-maybe-unbound", "defect": "maybe-unbound", "witness": "w_argunbound", "lemma": "C03_arg_maybe_unbound_refuted",
     "title": "extract: a name that is only conditionally bound before (or in) the region is passed / returned; "
              "the call or the return raises although the original code never read the name",
     "host": _HOST_UNBOUND, "path": [], "i": 1, "j": 2, "vecs": [[0], [1]]},
    {"id": "C03-result-maybe-unbound", "defect": None, "witness": "w_retunbound", "lemma": "C03_result_maybe_unbound_refuted",
     "title": "(same defect as C03-arg-maybe-unbound, result side)",
     "host": _HOST_UNBOUND, "path": [], "i": 0, "j": 1, "vecs": [[0], [1]]},
]

KNOWN_VARIABLE = {
    "id": "C03-variable-while-condition",
    "title": "extract variable on (part of) a while condition moves the expression in front of the loop: it is "
             "evaluated once although its operands change in the loop",
    "replay": {"kind": "expression", "extract": "variable", "pos": "function", "params": ["a"],
               "source": "def f(a):\n    x = 0\n    while x < a + 1:\n        x += 1\n        a -= 1\n    return x\n",
               "line": 3, "cols": [14, 19], "vecs": [[3], [0], [5]], "class": "variable:while-condition"},
}

SOUND_HOSTS = [
    # an inner loop whose else-clause continues the OUTER loop: every region that contains the else-clause but not
    # the outer loop must be refused (coq/C03/Witnesses.v ex_refused_else); with a harmless else-clause it is
    # accepted (ex_accepted_else)
    {"pos": "function", "params": ["a"], "body": [
        ["for", "i", V("a"),
         [["for", "x", V("i"), [["if", V("x"), [["break"]], []]], [["continue"]]], ["print", V("i")]], []]]},
    {"pos": "function", "params": ["a"], "body": [
        ["for", "i", V("a"),
         [["for", "x", V("i"), [["if", V("x"), [["break"]], []]], [["print", V("i")]]], ["print", V("i")]], []]]},
    {"pos": "method", "params": ["a"], "body": [
        ["assign", "x", K(0)],
        ["while", ["b", "<", V("x"), V("a")],
         [["aug", "x", "+", K(1)],
          ["while", ["b", "<", V("x"), K(2)], [["aug", "x", "+", K(1)]], [["print", V("x")], ["break"]]],
          ["print", V("a")]], [["print", K(5)]]],
        ["return", V("x")]]},
    # loop carried values, extracted correctly (coq/C03/Witnesses.v ex_loop)
    {"pos": "method", "params": ["a"], "body": [
        ["assign", "x", K(0)], ["assign", "y", K(0)],
        ["while", ["b", "<", V("x"), V("a")],
         [["aug", "y", "+", V("x")], ["aug", "x", "+", K(1)], ["print", V("y")]]],
        ["return", V("y")]]},
    {"pos": "function", "params": ["a", "b"], "body": [
        ["assign", "x", V("a")],
        ["if", ["b", "<", V("b"), K(2)], [["assign", "x", ["b", "*", V("x"), K(2)]]], []],
        ["return", ["b", "+", V("x"), V("b")]]]},
]


def _with_else(ss):
    """KNOWN / SOUND hosts are written without else-clauses: add the empty ones."""
    out = []
    for s in ss:
        if s[0] == "if":
            out.append(["if", s[1], _with_else(s[2]), _with_else(s[3])])
        elif s[0] == "while":
            out.append(["while", s[1], _with_else(s[2]), _with_else(s[3]) if len(s) > 3 else []])
        elif s[0] == "for":
            out.append(["for", s[1], s[2], _with_else(s[3]), _with_else(s[4]) if len(s) > 4 else []])
        else:
            out.append(s)
    return out


for _k in KNOWN:
    _k["host"]["body"] = _with_else(_k["host"]["body"])
for _h in SOUND_HOSTS:
    _h["body"] = _with_else(_h["body"])


def known_replay(k):
    h = Host(k["host"], None)
    sp = G.spans_at(h.spans, [tuple(p) for p in k["path"]])
    return h, {"kind": "extract", "pos": k["host"]["pos"], "params": k["host"]["params"], "source": h.src,
               "first": sp[k["i"]]["first"], "last": sp[k["j"] - 1]["last"], "vecs": k["vecs"],
               "class": "explained:" + (k["defect"] or "maybe-unbound"), "witness": k["witness"],
               "lemma": k["lemma"]}


def write_findings():
    """Development utility: (re)write findings/C03-*.json, corpus/C03/*.json and findings.d/C03.json from KNOWN.
    Open defects -> findings/ (+ findings.d open); fixed defects -> corpus/C03/ (+ findings.d fixed)."""
    import os
    from harness import common
    entries, fixed = [], []
    os.makedirs(os.path.join(common.VERIF, "corpus", PROPERTY), exist_ok=True)
    for k in KNOWN:
        _, obj = known_replay(k)
        old = os.path.join(common.VERIF, "findings/%s.json" % k["id"])
        if k.get("fixed"):
            if os.path.exists(old):
                os.remove(old)
            fn = "corpus/%s/%s.json" % (PROPERTY, k["id"])
            obj["class"] = "fixed:" + k["defect"]
            obj["fixed_by"] = k["fixed"][0]
            with open(os.path.join(common.VERIF, fn), "w") as f:
                json.dump(obj, f, indent=1)
            fixed.append("fixed: property=%s %s %s; replay %s" % (PROPERTY, k["fixed"][0], k["fixed"][1], fn))
            continue
        fn = "findings/%s.json" % k["id"]
        with open(os.path.join(common.VERIF, fn), "w") as f:
            json.dump(obj, f, indent=1)
        if k["defect"]:
            entries.append({"property": PROPERTY, "id": k["id"], "title": k["title"], "signature": obj["class"],
                            "replay": fn, "refuted_lemma": k["lemma"]})
    fn = "findings/%s.json" % KNOWN_VARIABLE["id"]
    with open(os.path.join(common.VERIF, fn), "w") as f:
        json.dump(KNOWN_VARIABLE["replay"], f, indent=1)
    entries.append({"property": PROPERTY, "id": KNOWN_VARIABLE["id"], "title": KNOWN_VARIABLE["title"],
                    "signature": "variable:while-condition", "replay": fn})
    for k in S.KNOWN_SIMILAR:
        obj = S.known_obj(k)
        fn = "findings/%s.json" % k["id"]
        with open(os.path.join(common.VERIF, fn), "w") as f:
            json.dump(obj, f, indent=1)
        entries.append({"property": PROPERTY, "id": k["id"], "title": k["title"], "signature": obj["class"], "replay": fn})
    with open(os.path.join(common.VERIF, "findings.d", "C03.json"), "w") as f:
        json.dump({"open": entries, "fixed": fixed}, f, indent=1)


def check_witnesses(ctx):
    """The witnesses of the _refuted lemmas are the replays of the recorded findings (compared inside Coq)."""
    terms = []
    for k in KNOWN:
        h, _ = known_replay(k)
        terms.append("loc_same %s %s" % (k["witness"], h.loc_term([tuple(p) for p in k["path"]], k["i"], k["j"])))
    out = ctx.coq_file(HEADER + "From RopeVerif.C03 Require Import Witnesses.\nEval vm_compute in [%s].\n"
                       % "; ".join(terms), name="witnesses_C03")
    vals = __import__("re").findall(r"\b(true|false)\b", out.split("=", 1)[1])
    for k, v in zip(KNOWN, vals):
        ctx.count("witness_is_replay:" + v)
        if v != "true":
            ctx.violation({"kind": "witness", "id": k["id"],
                           "broken": "the witness %s of %s is not the replay %s/%s.json" % (
                               k["witness"], k["lemma"], "corpus/C03" if k.get("fixed") else "findings", k["id"])},
                          "C03: witness of %s differs from its replay" % k["lemma"], no_input=True)
    assert len(vals) == len(KNOWN), out


def run(ctx):
    ctx.rule = ("hosts generated from one PRNG: <= 14 statements + initialisers, depth <= 3, 3-6 variables from a "
                "pool of 8 names, loops that carry values, conditional writes, augmented assignment, "
                "break/continue/return; positions function/method/module; streams 'init' (every local assigned "
                "first) and 'partial'; ALL contiguous statement ranges of every block are extracted with the real "
                "ExtractMethod; a case is non-trivial when the extraction is accepted and passes or returns at "
                "least one name; distinct by (source, region)")
    ctx.assumptions += [
        "UnboundLocalError and NameError are one outcome ('name read while unbound')",
        "argument vectors on which the ORIGINAL host exceeds %d traced line events are not compared" % E.STEP_LIMIT,
        "a behaviour change that the model predicts exactly (same sets, args, returns, resulting program, same "
        "outputs as CPython before and after) and attributes to a recorded defect class is a known finding; "
        "anything else is a violation",
        "similar=True, global_=True, kind=classmethod/staticmethod, try/except and class/nested scopes are exercised "
        "by an execution-oracle-only stream (harness/c03_similar.py); they are not modelled in Coq",
    ]
    nhosts = ctx.scale(140, 1000)
    hosts = []
    check_witnesses(ctx)
    for fh in [k["host"] for k in KNOWN if k["defect"]] + SOUND_HOSTS:
        h = Host(fh, None)
        h.stream = "fixed"
        hosts.append(h)
    for k in range(nhosts):
        stream = "init" if k % 3 != 2 else "partial"
        pos = ("function", "method", "function", "module")[k % 4] if k % 8 != 7 else "method"
        host = G.Gen(ctx.rng, stream).host(pos)
        h = Host(host, ctx.rng)
        h.stream = stream
        hosts.append(h)
    records = []
    drv = E.Driver()
    try:
        evaluate(ctx, drv, hosts, records)
        expression_stream(ctx, drv, hosts, ctx.scale(6, 8))
        similar_stream(ctx, drv, ctx.scale(40, 300))
    finally:
        drv.close()
    coq_eval(ctx, records)
    report(ctx, records)
    for rec in records[:60:20]:
        ctx.sample({"source": rec["h"].src, "lines": [rec["first"], rec["last"]], "refused": rec["r"]["refused"],
                    "args": rec["r"]["args"], "returns": rec["r"]["rets"], "model_class": class_name(rec["class"])})


# ----------------------------------------------------------------------------- sub-expressions
def subexpressions(src):
    """(lineno, col0, col1, where) of every binary / comparison sub-expression of the module; where is
    'while-test' for expressions inside the condition of a while loop."""
    res = []

    def walk_expr(e, where):
        for n in ast.walk(e):
            if isinstance(n, (ast.BinOp, ast.Compare)) and n.lineno == n.end_lineno:
                res.append((n.lineno, n.col_offset, n.end_col_offset, where))

    for n in ast.walk(ast.parse(src)):
        if isinstance(n, ast.While):
            walk_expr(n.test, "while-test")
        elif isinstance(n, ast.If):
            walk_expr(n.test, "if-test")
        elif isinstance(n, ast.For):
            walk_expr(n.iter, "for-iter")
        elif isinstance(n, (ast.Assign, ast.AugAssign, ast.Return)) and n.value is not None:
            walk_expr(n.value, "value")
        elif isinstance(n, ast.Expr):
            walk_expr(n.value, "value")
    return res


def in_while_test(src, line, c0, c1):
    for n in ast.walk(ast.parse(src)):
        if isinstance(n, ast.While):
            for e in ast.walk(n.test):
                if isinstance(e, ast.expr) and getattr(e, "lineno", None) == line and e.col_offset <= c0 \
                        and c1 <= e.end_col_offset:
                    return True
    return False


def expression_stream(ctx, drv, hosts, per_host):
    """Extract variable / one-line extract method on a sample of sub-expressions: execution oracle only."""
    for h in hosts:
        pos = h.host["pos"]
        cands = subexpressions(h.src)
        ctx.rng.shuffle(cands)
        vecs = E.vectors(ctx.rng, len(h.host["params"]), NVEC)
        before = None
        for (line, c0, c1, where) in cands[:per_host]:
            for kind in ("variable", "method"):
                r = drv.extract(h.src, line, line, name="v", kind=kind, cols=(c0, c1))
                ctx.case(("expr", kind, h.src, line, c0, c1), nontrivial=not r["refused"])
                ctx.count("expression:%s:%s" % (kind, "refused" if r["refused"] else where))
                obj = {"kind": "expression", "extract": kind, "pos": pos, "params": h.host["params"],
                       "source": h.src, "line": line, "cols": [c0, c1], "vecs": vecs}
                if r["error"] and not r["refused"]:
                    ctx.violation(dict(obj, observed=r["error"]), "C03: extract %s crashed: %s\n%s" % (kind, r["error"], h.src))
                    continue
                if r["refused"]:
                    continue
                if before is None:
                    before = [E.run_program(h.src, pos, h.host["params"], v) for v in vecs]
                after = [E.run_program(r["new"], pos, h.host["params"], v) for v in vecs]
                fail = first_difference(vecs, before, after)
                if fail:
                    ctx.violation(dict(obj, observed=fail),
                                  "C03: extract %s of columns %d-%d of line %d changes behaviour: %r\n%s" % (
                                      kind, c0, c1, line, fail, h.src))
            if ctx.too_many(8):
                return


# ----------------------------------------------------------------------------- similar / global_ / kinds
def similar_stream(ctx, drv, nspecs):
    """Not modelled in Coq: similar=True, global_=True, kind=classmethod/staticmethod, try/except/else/finally,
    instance/class/static methods, nested functions, module level. Execution oracle only (c03_similar.py)."""
    fixed = [k["spec"] for k in S.KNOWN_SIMILAR] + [
        {"stmt": False, "piece": "(p + 1) * q", "sites": ["except1", "except2"], "variant": 1},
        {"stmt": False, "piece": "p * 2 + q", "sites": ["method1", "classmethod", "staticmethod"], "variant": 0},
        {"stmt": True, "piece": list(S.STMTS[0]), "sites": ["try", "method1", "method2"], "variant": 0},
    ]
    specs = fixed + [S.gen_spec(ctx.rng) for _ in range(nspecs)]
    for spec in specs:
        source, occ = S.build(spec)
        base = S.run_module(source)
        assert base[1] == ["ok"], (base[1], source)
        for si, o in enumerate(occ):
            for kind, opts in S.variants(o[0], spec["stmt"]):
                if kind == "variable" and opts.get("global_") and o[0] != "module" and ctx.rng.random() < 0.8:
                    continue          # always-failing recorded defect: a sample is enough
                obj, r, fail = S.run_case(drv, spec, si, kind, opts)
                obj["class"] = S.structural_signature(obj)
                flags = "+".join(sorted(k if v is True else "%s=%s" % (k, v) for k, v in opts.items()))
                ctx.case(("similar", source, si, kind, flags), nontrivial=not r["refused"])
                ctx.count("similar:%s:%s:from=%s:%s" % (kind, flags, S.site_class(o[0]),
                                                        "refused" if r["refused"] else ("fails" if fail else "ok")))
                if fail:
                    obj["observed"] = fail
                    ctx.violation(obj, "C03: extract %s %s of the piece at site %s (sites %s) changes behaviour: %r\n%s" % (
                        kind, flags, o[0], ",".join(spec["sites"]), fail, source))
                if ctx.too_many(8):
                    return


# ----------------------------------------------------------------------------- replay / signature
def replay(ctx, obj):
    """True = the property fails on the recorded input (behaviour differs, result does not parse, or crash)."""
    if obj.get("kind") == "similar":
        return S.replay(obj)
    drv = E.Driver()
    try:
        if obj.get("kind") == "expression":
            r = drv.extract(obj["source"], obj["line"], obj["line"], name="v", kind=obj["extract"],
                            cols=tuple(obj["cols"]))
        else:
            r = drv.extract(obj["source"], obj["first"], obj["last"])
    finally:
        drv.close()
    if r["refused"]:
        return False
    if r["error"]:
        return True
    for v in obj["vecs"]:
        b = E.run_program(obj["source"], obj["pos"], obj["params"], v)
        if b[1][0] == "timeout":
            continue
        a = E.run_program(r["new"], obj["pos"], obj["params"], v)
        if a != b:
            return True
    return False


def signature(obj):
    if obj.get("kind") == "similar":
        return S.structural_signature(obj)
    if obj.get("kind") == "expression":
        # structural: extract variable of (part of) the condition of a while loop
        if obj.get("extract") == "variable" and in_while_test(obj["source"], obj["line"], *obj["cols"]):
            return "variable:while-condition"
        return "expression:other"
    return obj.get("class")
