"""C03 — extract method/variable preserves behaviour or is refused.

Every generated host (function / method / module position; two streams: all locals initialised first, or
not) is rendered to Python; for EVERY contiguous statement range of every block the real
`ExtractMethod(project, resource, start, end).get_changes("g")` is run. Observed: refused?
(RefactoringError), the collector's start/end and six sets (by substituting a recording subclass of
_FunctionInformationCollector inside this process), args, returns, the resulting module abstracted back
into the Flow fragment. All of it is written, together with the located program, into a Coq case file and
compared there with the model (coq/C03/Collector.v) by vm_compute; the Flow semantics itself is compared
with CPython on every argument vector (before and after).

Independent oracle: the module is executed before and after on several argument vectors; printed values,
returned value and exception class must be equal (UnboundLocalError is a NameError), the result must parse.
"""
import ast
import json

from harness import c03_gen as G
from harness import c03_exec as E
from harness import c03_similar as S

PROPERTY = "C03"
HEADER = ("From Coq Require Import List NArith ZArith Bool.\nImport ListNotations.\n"
          "From RopeVerif.C03 Require Import Flow Collector Dataflow Runner.\n")
NVEC = 5
MISMATCH_BITS = {1: "refusal", 2: "region lines", 4: "collector sets", 8: "args", 16: "returns",
                 32: "resulting program", 64: "Flow semantics vs CPython (original)",
                 128: "Flow semantics of the model's result vs CPython on rope's result",
                 256: "outline_ok holds but the model's result behaves differently"}
SWITCHES = ["restore", "balanced", "killnest", "readmaybe", "loopall", "globalargs", "loopprew", "compiter"]
CONDS = ((1, "arg-missing"), (2, "arg-maybe-unbound"), (4, "result-missing"), (8, "result-maybe-unbound"),
         (16, "shape"))


def decode_class(cls):
    """-> (d0, switch set as list of names, kind) from Runner.classify."""
    d0, rest = cls % 32, cls // 32
    return d0, [n for k, n in enumerate(SWITCHES) if (rest % 256) >> k & 1], rest // 256


def class_name(cls):
    """Structural class of a case as computed by the model alone (Runner.classify)."""
    if cls == 99999:
        return "refused"
    if cls == 0:
        return "sound"
    d0, sws, kind = decode_class(cls)
    conds = "+".join(n for b, n in CONDS if d0 & b)
    if kind == 0:
        return conds + ";fixed-by=" + "+".join(sws)
    if kind == 1:
        return conds + ";fixed-by=" + ("+".join(sws) if sws else "nothing") + "(leaves possibly-unbound)"
    if kind == 4:
        return conds
    return conds + ";fixed-by=none"


def defect_of(cls):
    """The known defect a model-explained failure is attributed to: the first switch of the smallest repairing
    set; `maybe-unbound` when only the possibly-unbound hypotheses fail; `unrepaired` otherwise."""
    d0, sws, kind = decode_class(cls)
    if kind in (0, 1) and sws:
        return sws[0]
    if kind == 1:
        return "maybe-unbound"
    return "unrepaired"


# ----------------------------------------------------------------------------- one host
def g_obs(o):
    out, final = o
    kind = {"none": 0, "ret": 1, "exc": 3, "timeout": 4, "syntax": 3}[final[0]]
    val = 0
    if final[0] == "exc" and final[1] == "NameError":
        kind = 2
    if final[0] == "ret":
        if isinstance(final[1], int):
            val = final[1]
        else:
            kind = 3
    outs = [x if isinstance(x, int) and not isinstance(x, bool) else None for x in out]
    if any(x is None for x in outs):
        kind, outs = 3, [x for x in outs if x is not None]
    return "{| o_kind := %d%%N; o_val := (%d)%%Z; o_out := [%s] |}" % (kind, val, "; ".join("(%d)%%Z" % x for x in outs))


class Host:
    def __init__(self, host, layout_rng):
        self.host = host
        self.src, self.spans, self.zero = G.render(host, layout_rng)
        tree = ast.parse(self.src)
        if host["pos"] == "module":
            nodes = tree.body
        else:
            nodes = G.find_defs(tree, host["pos"])["f"].body
        self.lines = []
        back = G.a_block(nodes, self.lines)
        assert back == host["body"], "renderer / abstraction round trip"
        self.lines = [l - self.zero for l in self.lines]
        self.params = (["self"] if host["pos"] == "method" else []) + list(host["params"])

    def regions(self):
        for path, blk in G.blocks_of(self.host["body"]):
            sp = G.spans_at(self.spans, path)
            for i in range(len(blk)):
                for j in range(i + 1, len(blk) + 1):
                    yield path, i, j, sp[i]["first"], sp[j - 1]["last"]

    def loc_term(self, path, i, j):
        return G.g_loc(self.host["body"], path, i, j, iter(self.lines))


def first_difference(vecs, before, after):
    for v, b, a in zip(vecs, before, after):
        if b[1][0] == "timeout":
            continue
        if a != b:
            return {"vec": v, "before": b, "after": a}
    return None


def case_term(h, path, i, j, r, vecs, before, after, want):
    pos = h.host["pos"]
    result = None
    note = None
    if r["new"] is not None:
        try:
            ab = G.abstract_result(r["new"], pos, "g", h.host["params"])
            if ab["params"] != list(h.host["params"]):
                raise G.Unsupported("host parameters changed")
            if pos == "module":
                for s in G._walk(ab["body"]):
                    if s[0] == "call":
                        s.append(True)
            result = G.g_block(ab["body"], None)
        except (G.Unsupported, SyntaxError) as e:
            note = "result not abstractable: %s" % (e,)
    # vectors on which the original does not terminate within the step limit carry no information: drop them
    keep = [k for k, b in enumerate(before) if b[1][0] != "timeout"]
    vecs = [vecs[k] for k in keep]
    before = [before[k] for k in keep]
    after = [after[k] for k in keep] if after else after
    sets = r["sets"] or [[], [], [], [], [], []]
    se = r["start_end"] or [0, 0]
    return ("{| c_glob := %s; c_params := %s; c_loc := %s; c_refused := %s; c_want := %s; c_lines := (%d%%N, %d%%N); "
            "c_sets := [%s]; c_args := %s; c_rets := %s; c_result := %s; c_vecs := [%s]; c_before := [%s]; "
            "c_after := [%s] |}" % (
                "true" if pos == "module" else "false", G.g_vars(h.params), h.loc_term(path, i, j),
                "true" if r["refused"] else "false", "true" if want else "false", se[0], se[1],
                "; ".join(G.g_vars(s) for s in sets), G.g_vars(r["args"] or []), G.g_vars(r["rets"] or []),
                "None" if result is None else "(Some %s)" % result,
                "; ".join("[" + "; ".join("(%d)%%Z" % x for x in ([0] if pos == "method" else []) + list(v)) + "]"
                          for v in vecs),
                "; ".join(g_obs(o) for o in before),
                "; ".join(g_obs(o) for o in (after or [])))), note


def known_name(x):
    return x in G.IDX


# ----------------------------------------------------------------------------- the run
def evaluate(ctx, drv, hosts, records):
    """hosts: list of Host. Appends one record per (host, region) to `records`."""
    for h in hosts:
        pos = h.host["pos"]
        vecs = E.vectors(ctx.rng, len(h.host["params"]), NVEC)
        before = [E.run_program(h.src, pos, h.host["params"], v) for v in vecs]
        for path, i, j, first, last in h.regions():
            r = drv.args_rets(h.src, first, last)
            after = None
            fail = None
            if r["error"] and not r["refused"]:
                fail = {"crash": r["error"]}
            elif not r["refused"]:
                after = [E.run_program(r["new"], pos, h.host["params"], v) for v in vecs]
                fail = first_difference(vecs, before, after)
            term, note = case_term(h, path, i, j, r, vecs, before, after, bool(fail))
            for s in (r["sets"] or []):
                assert all(known_name(x) for x in s), s
            records.append({"h": h, "path": path, "i": i, "j": j, "first": first, "last": last, "r": r,
                            "vecs": vecs, "fail": fail, "term": term, "note": note})


def coq_eval(ctx, records, shard=150):
    bodies = []
    for s in range(0, len(records), shard):
        terms = [rec["term"] for rec in records[s:s + shard]]
        bodies.append(HEADER + "Definition cases : list case := [\n%s].\nEval vm_compute in (mismatches cases).\n"
                      "Eval vm_compute in (classes cases).\nEval vm_compute in [count_static cases; static_contradictions cases; count_if_domain cases].\n"
                      "Eval vm_compute in (if_domain_counterexamples cases).\n"
                      % ";\n".join(terms))
    outs = ctx.coq_files_parallel(bodies)
    for si, out in enumerate(outs):
        pairs = ctx.parse_pairs(out)
        mism = dict(pairs[0]) if pairs else {}
        nums = ctx.parse_nums(out)
        cls = nums[-3] if len(nums) >= 3 else []
        stat, cex = nums[-2], nums[-1]
        ctx.extra["cases_in_static_theorem_domain"] = ctx.extra.get("cases_in_static_theorem_domain", 0) + stat[0]
        ctx.extra["cases_in_conjectured_if_class"] = ctx.extra.get("cases_in_conjectured_if_class", 0) + stat[2]
        for k in cex:
            rec = records[si * shard + k]
            ctx.violation(dict(replay_obj(rec), broken="the conjectured class Sufficient.side_C03_if contains a case whose "
                               "collector args/returns violate outline_ok: the stated exclusion is not exact"),
                          "C03: counterexample to the conjectured class side_C03_if, lines %d-%d of\n%s" % (
                              rec["first"], rec["last"], rec["h"].src), no_input=True)
        if stat[1]:
            ctx.violation({"kind": "static-contradiction", "broken": "a case inside side_C03 does not satisfy outline_ok: "
                           "contradicts C03_collector_sufficient_partial (model or Coq build inconsistent)"},
                          "C03: case inside side_C03 violates outline_ok", no_input=True)
        chunk = records[si * shard:(si + 1) * shard]
        assert len(cls) == len(chunk), (len(cls), len(chunk), out[-500:])
        for k, rec in enumerate(chunk):
            rec["mismatch"] = mism.get(k, 0)
            rec["class"] = cls[k]


def replay_obj(rec):
    h = rec["h"]
    o = {"kind": "extract", "pos": h.host["pos"], "params": h.host["params"], "source": h.src,
         "first": rec["first"], "last": rec["last"], "vecs": rec["vecs"]}
    if "class" in rec:
        explained = rec.get("mismatch", 0) == 0
        o["model_class"] = class_name(rec["class"])
        o["class"] = ("explained:" + defect_of(rec["class"])) if explained and rec["class"] not in (0, 99999) \
            else "unexplained"
    return o


def h_block_is_loop_else(h, path):
    body = h.host["body"]
    for (k, br) in path[:-1]:
        s = body[k]
        body = s[2 + br] if s[0] in ("if", "while") else s[3 + br]
    return body[path[-1][0]][0] in ("while", "for")


def survey(records):
    """Development aid (VERIF_C03_SURVEY=1): histogram of oracle failures by model class and of mismatches."""
    import collections
    c = collections.Counter()
    ex = {}
    for rec in records:
        key = None
        if rec["fail"]:
            key = ("FAIL", rec["h"].host["pos"], class_name(rec["class"]), rec["mismatch"])
        elif rec["mismatch"] or rec["note"]:
            key = ("MISMATCH", rec["h"].host["pos"], rec["mismatch"], rec["note"])
        else:
            key = ("ok", rec["h"].host["pos"], class_name(rec["class"]))
        c[key] += 1
        if (key[0] != "ok" or "none" in key[2]) and (key not in ex or len(rec["h"].src) < len(ex[key]["h"].src)):
            ex[key] = rec
    for k, v in sorted(c.items(), key=repr):
        print(v, k)
    for k, rec in sorted(ex.items(), key=repr):
        print("=" * 70)
        print(k, "lines", rec["first"], rec["last"], "fail", rec["fail"])
        print(rec["h"].src)
        print("sets", rec["r"]["sets"], "args", rec["r"]["args"], "rets", rec["r"]["rets"])
        if rec["r"]["new"]:
            print(rec["r"]["new"])


def report(ctx, records):
    import os
    if os.environ.get("VERIF_C03_SURVEY"):
        survey(records)
        return
    for rec in records:
        h, r = rec["h"], rec["r"]
        pos = h.host["pos"]
        cname = class_name(rec["class"])
        nontrivial = (not r["refused"]) and bool(r["args"] or r["rets"])
        ctx.case((h.src, rec["first"], rec["last"]), nontrivial=nontrivial)
        ctx.traces += 1
        ctx.count("position:" + pos)
        if rec["path"] and rec["path"][-1][1] == 1 and h_block_is_loop_else(h, rec["path"]):
            ctx.count("region_in_loop_else_clause")
        ctx.count("stream:" + h.stream)
        ctx.count("refused" if r["refused"] else "extracted")
        if not r["refused"]:
            ctx.count("model-class:" + cname)
            if rec["class"] == 0:
                ctx.extra["cases_in_theorem_domain"] = ctx.extra.get("cases_in_theorem_domain", 0) + 1
        if rec["note"] and not rec["mismatch"] & 32:
            rec["mismatch"] |= 32
    # 1. inputs on which the property fails (oracle), each with the model's explanation if it has one
    failing_hosts = {}
    for rec in records:
        if not rec["fail"]:
            continue
        h = rec["h"]
        obj = replay_obj(rec)
        obj["observed"] = rec["fail"]
        if rec["mismatch"]:
            obj["mismatch"] = mismatch_text(rec)
        reported = ctx.violation(obj, "C03: extracting lines %d-%d changes behaviour (%s): %r [%s; model class %s]\n%s" % (
            rec["first"], rec["last"], h.host["pos"], rec["fail"], obj["class"], obj.get("model_class"), h.src))
        if reported:
            failing_hosts.setdefault(id(h), rec)
        if ctx.too_many(6):
            return
    # 2. model and code disagree but the oracle passed: look for a failing input in the neighbourhood (other
    #    regions of the same host already reported above, then more argument vectors for this region)
    for rec in records:
        if rec["fail"] or not rec["mismatch"]:
            continue
        h = rec["h"]
        if id(h) in failing_hosts:
            ctx.count("mismatch_next_to_reported_failing_input")
            continue
        obj = replay_obj(rec)
        obj["mismatch"] = mismatch_text(rec)
        found = more_vectors(ctx, rec)
        if found:
            obj["observed"], obj["vecs"] = found, [found["vec"]]
            ctx.violation(obj, "C03: extracting lines %d-%d changes behaviour (%s): %r [model and rope disagree on %s]\n%s" % (
                rec["first"], rec["last"], h.host["pos"], found, obj["mismatch"], h.src))
        else:
            obj["broken"] = ("correspondence RopeVerif.C03.Runner.run_case (model Collector.collect / args_of / "
                             "rets_of / accepted / extract vs rope/refactor/extract.py); theorems "
                             "C03_extract_preserves and the C03_*_refuted witnesses no longer speak about the code")
            ctx.violation(obj, "C03: model and rope disagree on %s for lines %d-%d of\n%s" % (
                obj["mismatch"], rec["first"], rec["last"], h.src), no_input=True)
        failing_hosts.setdefault(id(h), rec)
        if ctx.too_many(8):
            return


def mismatch_text(rec):
    what = ", ".join(n for b, n in MISMATCH_BITS.items() if rec["mismatch"] & b)
    if rec["note"]:
        what += " (" + rec["note"] + ")"
    return what


def more_vectors(ctx, rec, n=40):
    """Neighbourhood search: the same extraction on more argument vectors."""
    import random
    h, r = rec["h"], rec["r"]
    if r["new"] is None:
        return None
    rng = random.Random("nb-%s-%d-%d" % (h.src, rec["first"], rec["last"]))
    k = len(h.host["params"])
    for _ in range(n if k else 0):
        v = [rng.choice([-2, -1, 0, 1, 2, 3, 4, 5, 7]) for _ in range(k)]
        b = E.run_program(h.src, h.host["pos"], h.host["params"], v)
        if b[1][0] == "timeout":
            continue
        a = E.run_program(r["new"], h.host["pos"], h.host["params"], v)
        if a != b:
            return {"vec": v, "before": b, "after": a}
    return None


def V(x):
    return ["v", x]


def K(n):
    return ["c", n]


_HOST_UNBOUND = {"pos": "function", "params": ["a"], "body": [
    ["if", V("a"), [["assign", "x", K(1)]], []], ["if", V("a"), [["print", V("x")]], []]]}

# The defects found on the tree as it was. `witness` is the located program of the `_refuted` lemma in
# coq/C03/Witnesses.v: the harness checks on every run (inside Coq) that it is this replay. Entries with
# `fixed` = (commit, what failed) are fixed in /repo: their replays are corpus cases (corpus/C03/) that must pass,
# the model compares the code with the repaired discipline (coq/C03/Current.v), and a code that behaves like the
# as-found discipline again disagrees with the model (unexplained => VIOLATION).
KNOWN = [
    {"id": "C03-nested-conditional", "fixed": ("25782e7", "leaving a nested if/while/for reset `conditional`: a conditionally written name was returned but not passed (UnboundLocalError in the new function)"), "defect": "restore", "witness": "w_nested", "lemma": "C03_nested_conditional_refuted",
     "title": "extract: leaving a nested if/while/for resets `conditional`, a conditionally written name is "
              "returned but not passed (UnboundLocalError in the new function)",
     "host": {"pos": "function", "params": ["a", "b"], "body": [
         ["assign", "x", K(0)],
         ["if", V("a"), [["if", V("b"), [["pass"]], []], ["assign", "x", K(1)]], []],
         ["print", V("x")]]},
     "path": [], "i": 1, "j": 2, "vecs": [[0, 0], [1, 0], [1, 1]]},
    {"id": "C03-postwritten-branch", "fixed": ("f6cf806", "any textually later write (sibling else-branch, nested statement) hid later reads: a value computed in the region was silently not returned"), "defect": "killnest", "witness": "w_branch", "lemma": "C03_postwritten_branch_refuted",
     "title": "extract: any textually later write (sibling else-branch, nested statement) hides later reads, a "
              "value computed in the region is silently not returned",
     "host": {"pos": "function", "params": ["a"], "body": [
         ["assign", "z", K(0)],
         ["if", V("a"), [["assign", "z", K(4)]], [["assign", "z", K(3)]]],
         ["return", V("z")]]},
     "path": [[1, 0]], "i": 0, "j": 1, "vecs": [[1], [0]]},
    {"id": "C03-maybe-written-read", "defect": "readmaybe", "witness": "w_readmaybe", "lemma": "C03_maybe_written_read_refuted",
     "title": "extract: a read inside a conditional is ignored when the name was conditionally written by an "
              "earlier statement of the region, the name is not passed",
     "host": {"pos": "function", "params": ["a", "b"], "body": [
         ["assign", "z", K(0)],
         ["if", V("a"), [["assign", "z", K(5)]], []],
         ["if", V("b"), [["print", V("z")]], []]]},
     "path": [], "i": 1, "j": 3, "vecs": [[0, 1], [1, 1], [0, 0]]},
    {"id": "C03-loop-depth", "fixed": ("c0fa7ad", "leaving a loop that starts inside the region decremented loop_depth: loop-carried writes were not returned (the host looped for ever)"), "defect": "balanced", "witness": "w_loopdepth", "lemma": "C03_loop_depth_refuted",
     "title": "extract: leaving a loop that starts inside the region decrements loop_depth, later loop-carried "
              "writes of the region are not returned (the host loops for ever)",
     "host": {"pos": "function", "params": ["a"], "body": [
         ["assign", "x", K(0)],
         ["while", ["b", "<", V("x"), V("a")],
          [["for", "i", K(1), [["pass"]]], ["assign", "x", ["b", "+", V("x"), K(1)]]]]]},
     "path": [[1, 0]], "i": 0, "j": 2, "vecs": [[2], [1], [0]]},
    {"id": "C03-loop-carried", "defect": "loopall", "witness": "w_loopcarried", "lemma": "C03_loop_carried_refuted",
     "title": "extract: inside a loop only names the region itself read before writing are treated as live round "
              "the loop; a name read earlier in the loop body is not returned",
     "host": {"pos": "function", "params": ["a"], "body": [
         ["assign", "x", K(0)], ["assign", "y", K(0)],
         ["while", ["b", "<", V("x"), V("a")],
          [["print", V("y")], ["assign", "y", ["b", "+", V("x"), K(5)]],
           ["assign", "x", ["b", "+", V("x"), K(1)]]]]]},
     "path": [[2, 0]], "i": 1, "j": 2, "vecs": [[2], [3], [0]]},
    {"id": "C03-loop-prewritten", "defect": "loopprew", "witness": "w_loopprew", "lemma": "C03_loop_prewritten_refuted",
     "title": "extract: a name bound later in the enclosing loop body reaches the region in the next iteration "
              "but is not passed (NameError); the region should be refused",
     "host": {"pos": "function", "params": ["a"], "body": [
         ["assign", "x", K(0)],
         ["while", ["b", "<", V("x"), V("a")],
          [["if", ["b", "<", K(0), V("x")], [["print", V("y")]], []], ["assign", "y", V("x")],
           ["assign", "x", ["b", "+", V("x"), K(1)]]]]]},
     "path": [[1, 0]], "i": 0, "j": 1, "vecs": [[2], [3], [1]]},
    {"id": "C03-module-args", "fixed": ("99f0982", "module-level extract passed read & postread & written: a global read and rebound in the region but not read afterwards became an unbound local"), "defect": "globalargs", "witness": "w_module", "lemma": "C03_module_args_refuted",
     "title": "extract at module level: parameters are read & postread & written, a global read and rebound in "
              "the region but not read afterwards becomes an unbound local of the new function",
     "host": {"pos": "module", "params": [], "body": [
         ["assign", "x", K(1)], ["assign", "x", ["b", "+", V("x"), K(1)]]]},
     "path": [], "i": 1, "j": 2, "vecs": [[]]},
    {"id": "C03-comprehension-iterable", "fixed": ("98267e1", "a name read in the iterable of a comprehension whose loop "
                                                   "variable has the same spelling was dropped from the read set and not "
                                                   "passed to the new function (NameError)"),
     "defect": "compiter", "witness": "w_compiter",
     "lemma": "C03_comprehension_iterable_refuted",
     "title": "extract: a name read in the iterable of a comprehension whose loop variable has the same spelling is "
              "dropped from the read set when the comprehension is left; it is not passed to the new function",
     "host": {"pos": "function", "params": ["a"], "body": [
         ["assign", "x", V("a")],
         ["print", ["sum", "a", V("a"), ["b", "+", V("a"), V("x")], "list"]]]},
     "path": [], "i": 1, "j": 2, "vecs": [[2], [1], [0]]},
    {"id": "C03-arg-maybe-unbound", "defect": "maybe-unbound", "witness": "w_argunbound", "lemma": "C03_arg_maybe_unbound_refuted",
     "title": "extract: a name that is only conditionally bound before (or in) the region is passed / returned; "
              "the call or the return raises although the original code never read the name",
     "host": _HOST_UNBOUND, "path": [], "i": 1, "j": 2, "vecs": [[0], [1]]},
    {"id": "C03-result-maybe-unbound", "defect": None, "witness": "w_retunbound", "lemma": "C03_result_maybe_unbound_refuted",
     "title": "(same defect as C03-arg-maybe-unbound, result side)",
     "host": _HOST_UNBOUND, "path": [], "i": 0, "j": 1, "vecs": [[0], [1]]},
]

KNOWN_VARIABLE = {
    "id": "C03-variable-while-condition",
    "title": "extract variable on (part of) a while condition moves the expression in front of the loop: it is "
             "evaluated once although its operands change in the loop",
    "replay": {"kind": "expression", "extract": "variable", "pos": "function", "params": ["a"],
               "source": "def f(a):\n    x = 0\n    while x < a + 1:\n        x += 1\n        a -= 1\n    return x\n",
               "line": 3, "cols": [14, 19], "vecs": [[3], [0], [5]], "class": "variable:while-condition"},
}

_COMP_SRC = "def f(a):\n    x = sum([i + a for i in range(3)])\n    return x\n"
KNOWN_EXPR = [
    KNOWN_VARIABLE,
    {"id": "C03-variable-comprehension-variable",
     "title": "extract variable of an expression inside a comprehension that uses the comprehension's loop variable "
              "moves it in front of the statement (NameError / value of an outer name)",
     "replay": {"kind": "expression", "extract": "variable", "pos": "function", "params": ["a"], "source": _COMP_SRC,
                "line": 2, "cols": [13, 18], "vecs": [[1], [0]], "class": "variable:comprehension-variable"}},
    {"id": "C03-method-comprehension-variable",
     "title": "one-line extract method of an expression inside a comprehension does not pass the comprehension's "
              "loop variable to the new function (NameError, or an outer name of that spelling is passed)",
     "replay": {"kind": "expression", "extract": "method", "pos": "function", "params": ["a"], "source": _COMP_SRC,
                "line": 2, "cols": [13, 18], "vecs": [[1], [0]], "class": "method:comprehension-variable"}},
]

_LEAK_SRC = ("def f(a):\n    y = sum([j + 1 for j in range(a)])\n    z = 2 + sum([j * 2 for j in range(a)])\n"
             "    return y + z\n")
KNOWN_EXPR.append(
    {"id": "C03-method-comprehension-variable-leaked",
     "title": "one-line extract method whose selection contains a comprehension passes the comprehension's own loop "
              "variable as an argument when a name of that spelling is stored earlier in the function (e.g. by an "
              "earlier comprehension or a loop that never ran): NameError at the call",
     "replay": {"kind": "expression", "extract": "method", "pos": "function", "params": ["a"], "source": _LEAK_SRC,
                "line": 3, "cols": [8, 42], "vecs": [[1], [2]],
                "class": "method:comprehension-variable-leaked-into-prewritten"}})

SOUND_HOSTS = [
    # an inner loop whose else-clause continues the OUTER loop: every region that contains the else-clause but not
    # the outer loop must be refused (coq/C03/Witnesses.v ex_refused_else); with a harmless else-clause it is
    # accepted (ex_accepted_else)
    {"pos": "function", "params": ["a"], "body": [
        ["for", "i", V("a"),
         [["for", "x", V("i"), [["if", V("x"), [["break"]], []]], [["continue"]]], ["print", V("i")]], []]]},
    {"pos": "function", "params": ["a"], "body": [
        ["for", "i", V("a"),
         [["for", "x", V("i"), [["if", V("x"), [["break"]], []]], [["print", V("i")]]], ["print", V("i")]], []]]},
    {"pos": "method", "params": ["a"], "body": [
        ["assign", "x", K(0)],
        ["while", ["b", "<", V("x"), V("a")],
         [["aug", "x", "+", K(1)],
          ["while", ["b", "<", V("x"), K(2)], [["aug", "x", "+", K(1)]], [["print", V("x")], ["break"]]],
          ["print", V("a")]], [["print", K(5)]]],
        ["return", V("x")]]},
    # loop carried values, extracted correctly (coq/C03/Witnesses.v ex_loop)
    {"pos": "method", "params": ["a"], "body": [
        ["assign", "x", K(0)], ["assign", "y", K(0)],
        ["while", ["b", "<", V("x"), V("a")],
         [["aug", "y", "+", V("x")], ["aug", "x", "+", K(1)], ["print", V("y")]]],
        ["return", V("y")]]},
    {"pos": "function", "params": ["a", "b"], "body": [
        ["assign", "x", V("a")],
        ["if", ["b", "<", V("b"), K(2)], [["assign", "x", ["b", "*", V("x"), K(2)]]], []],
        ["return", ["b", "+", V("x"), V("b")]]]},
]


def _with_else(ss):
    """KNOWN / SOUND hosts are written without else-clauses: add the empty ones."""
    out = []
    for s in ss:
        if s[0] == "if":
            out.append(["if", s[1], _with_else(s[2]), _with_else(s[3])])
        elif s[0] == "while":
            out.append(["while", s[1], _with_else(s[2]), _with_else(s[3]) if len(s) > 3 else []])
        elif s[0] == "for":
            out.append(["for", s[1], s[2], _with_else(s[3]), _with_else(s[4]) if len(s) > 4 else []])
        else:
            out.append(s)
    return out


for _k in KNOWN:
    _k["host"]["body"] = _with_else(_k["host"]["body"])
for _h in SOUND_HOSTS:
    _h["body"] = _with_else(_h["body"])


def known_replay(k):
    h = Host(k["host"], None)
    sp = G.spans_at(h.spans, [tuple(p) for p in k["path"]])
    return h, {"kind": "extract", "pos": k["host"]["pos"], "params": k["host"]["params"], "source": h.src,
               "first": sp[k["i"]]["first"], "last": sp[k["j"] - 1]["last"], "vecs": k["vecs"],
               "class": "explained:" + (k["defect"] or "maybe-unbound"), "witness": k["witness"],
               "lemma": k["lemma"]}


def write_findings():
    """Development utility: (re)write findings/C03-*.json, corpus/C03/*.json and findings.d/C03.json from KNOWN.
    Open defects -> findings/ (+ findings.d open); fixed defects -> corpus/C03/ (+ findings.d fixed)."""
    import os
    from harness import common
    entries, fixed = [], []
    os.makedirs(os.path.join(common.VERIF, "corpus", PROPERTY), exist_ok=True)
    for k in KNOWN:
        _, obj = known_replay(k)
        old = os.path.join(common.VERIF, "findings/%s.json" % k["id"])
        if k.get("fixed"):
            if os.path.exists(old):
                os.remove(old)
            fn = "corpus/%s/%s.json" % (PROPERTY, k["id"])
            obj["class"] = "fixed:" + k["defect"]
            obj["fixed_by"] = k["fixed"][0]
            with open(os.path.join(common.VERIF, fn), "w") as f:
                json.dump(obj, f, indent=1)
            fixed.append("fixed: property=%s %s %s; replay %s" % (PROPERTY, k["fixed"][0], k["fixed"][1], fn))
            continue
        fn = "findings/%s.json" % k["id"]
        with open(os.path.join(common.VERIF, fn), "w") as f:
            json.dump(obj, f, indent=1)
        if k["defect"]:
            entries.append({"property": PROPERTY, "id": k["id"], "title": k["title"], "signature": obj["class"],
                            "replay": fn, "refuted_lemma": k["lemma"]})
    for k in KNOWN_EXPR:
        fn = "findings/%s.json" % k["id"]
        with open(os.path.join(common.VERIF, fn), "w") as f:
            json.dump(k["replay"], f, indent=1)
        entries.append({"property": PROPERTY, "id": k["id"], "title": k["title"],
                        "signature": k["replay"]["class"], "replay": fn})
    for k in S.KNOWN_SIMILAR:
        obj = S.known_obj(k)
        if k.get("fixed"):
            old = os.path.join(common.VERIF, "findings/%s.json" % k["id"])
            if os.path.exists(old):
                os.remove(old)
            fn = "corpus/%s/%s.json" % (PROPERTY, k["corpus_name"])
            obj["fixed_by"] = k["fixed"][0]
            with open(os.path.join(common.VERIF, fn), "w") as f:
                json.dump(obj, f, indent=1)
            fixed.append("fixed: property=%s %s %s; replay %s" % (PROPERTY, k["fixed"][0], k["fixed"][1], fn))
            continue
        fn = "findings/%s.json" % k["id"]
        with open(os.path.join(common.VERIF, fn), "w") as f:
            json.dump(obj, f, indent=1)
        entries.append({"property": PROPERTY, "id": k["id"], "title": k["title"], "signature": obj["class"], "replay": fn})
    for k in S.KNOWN_NEAR:
        obj = S.known_near_obj(k)
        fn = "findings/%s.json" % k["id"]
        with open(os.path.join(common.VERIF, fn), "w") as f:
            json.dump(obj, f, indent=1)
        entries.append({"property": PROPERTY, "id": k["id"], "title": k["title"], "signature": obj["class"], "replay": fn})
    with open(os.path.join(common.VERIF, "findings.d", "C03.json"), "w") as f:
        json.dump({"open": entries, "fixed": fixed}, f, indent=1)


def check_witnesses(ctx):
    """The witnesses of the _refuted lemmas are the replays of the recorded findings (compared inside Coq)."""
    terms = []
    for k in KNOWN:
        h, _ = known_replay(k)
        terms.append("loc_same %s %s" % (k["witness"], h.loc_term([tuple(p) for p in k["path"]], k["i"], k["j"])))
    out = ctx.coq_file(HEADER + "From RopeVerif.C03 Require Import Witnesses.\nEval vm_compute in [%s].\n"
                       % "; ".join(terms), name="witnesses_C03")
    vals = __import__("re").findall(r"\b(true|false)\b", out.split("=", 1)[1])
    for k, v in zip(KNOWN, vals):
        ctx.count("witness_is_replay:" + v)
        if v != "true":
            ctx.violation({"kind": "witness", "id": k["id"],
                           "broken": "the witness %s of %s is not the replay %s/%s.json" % (
                               k["witness"], k["lemma"], "corpus/C03" if k.get("fixed") else "findings", k["id"])},
                          "C03: witness of %s differs from its replay" % k["lemma"], no_input=True)
    assert len(vals) == len(KNOWN), out


def run(ctx):
    ctx.rule = ("hosts generated from one PRNG: <= 14 statements + initialisers, depth <= 3, 3-6 variables from a "
                "pool of 8 names, loops that carry values, conditional writes, augmented assignment, "
                "break/continue/return; positions function/method/module; streams 'init' (every local assigned "
                "first) and 'partial'; ALL contiguous statement ranges of every block are extracted with the real "
                "ExtractMethod; a case is non-trivial when the extraction is accepted and passes or returns at "
                "least one name; distinct by (source, region)")
    ctx.assumptions += [
        "UnboundLocalError and NameError are one outcome ('name read while unbound')",
        "argument vectors on which the ORIGINAL host exceeds %d traced line events are not compared" % E.STEP_LIMIT,
        "a behaviour change that the model predicts exactly (same sets, args, returns, resulting program, same "
        "outputs as CPython before and after) and attributes to a recorded defect class is a known finding; "
        "anything else is a violation",
        "similar=True, global_=True, kind=classmethod/staticmethod, try/except and class/nested scopes are exercised "
        "by an execution-oracle-only stream (harness/c03_similar.py); they are not modelled in Coq",
    ]
    nhosts = ctx.scale(140, 1000)
    hosts = []
    check_witnesses(ctx)
    for fh in [k["host"] for k in KNOWN if k["defect"]] + SOUND_HOSTS:
        h = Host(fh, None)
        h.stream = "fixed"
        hosts.append(h)
    for k in range(nhosts):
        stream = "init" if k % 3 != 2 else "partial"
        pos = ("function", "method", "function", "module")[k % 4] if k % 8 != 7 else "method"
        host = G.Gen(ctx.rng, stream).host(pos)
        h = Host(host, ctx.rng)
        h.stream = stream
        hosts.append(h)
    records = []
    drv = E.Driver()
    try:
        evaluate(ctx, drv, hosts, records)
        VTERMS[:] = []
        expression_stream(ctx, drv, hosts, ctx.scale(6, 8))
        variable_correspondence(ctx)
        similar_stream(ctx, drv, ctx.scale(40, 300))
        wordcut_stream(ctx, drv, ctx.scale(4, 25))
        near_stream(ctx, ctx.scale(10, 60))
    finally:
        drv.close()
    coq_eval(ctx, records)
    report(ctx, records)
    for rec in records[:60:20]:
        ctx.sample({"source": rec["h"].src, "lines": [rec["first"], rec["last"]], "refused": rec["r"]["refused"],
                    "args": rec["r"]["args"], "returns": rec["r"]["rets"], "model_class": class_name(rec["class"])})


# ----------------------------------------------------------------------------- sub-expressions
def subexpressions(src):
    """(lineno, col0, col1, where) of every binary / comparison sub-expression of the module; where is
    'while-test' for expressions inside the condition of a while loop."""
    res = []

    def walk_expr(e, where):
        for n in ast.walk(e):
            if isinstance(n, (ast.BinOp, ast.Compare)) and n.lineno == n.end_lineno:
                res.append((n.lineno, n.col_offset, n.end_col_offset, where))

    for n in ast.walk(ast.parse(src)):
        if isinstance(n, ast.While):
            walk_expr(n.test, "while-test")
        elif isinstance(n, ast.If):
            walk_expr(n.test, "if-test")
        elif isinstance(n, ast.For):
            walk_expr(n.iter, "for-iter")
        elif isinstance(n, (ast.Assign, ast.AugAssign, ast.Return)) and n.value is not None:
            walk_expr(n.value, "value")
        elif isinstance(n, ast.Expr):
            walk_expr(n.value, "value")
    return res


def uses_comprehension_variable(src, line, c0, c1):
    """The selection lies inside a comprehension / generator expression and reads one of its loop variables."""
    tree = ast.parse(src)
    for n in ast.walk(tree):
        if isinstance(n, (ast.ListComp, ast.GeneratorExp, ast.SetComp, ast.DictComp)) and n.lineno == line \
                and n.col_offset <= c0 and c1 <= n.end_col_offset:
            targets = {t.id for g in n.generators for t in ast.walk(g.target) if isinstance(t, ast.Name)}
            for e in ast.walk(n):
                if isinstance(e, ast.Name) and isinstance(e.ctx, ast.Load) and e.id in targets \
                        and e.lineno == line and c0 <= e.col_offset and e.end_col_offset <= c1:
                    return True
    return False


def contains_comprehension_with_leaked_variable(src, line, c0, c1):
    """The selection contains a whole comprehension whose loop variable is spelled like a name stored on an earlier
    line (loop target, earlier comprehension variable, assignment): it is in prewritten, the one-line reads finder
    counts the comprehension's variable as a read, so it is passed although it may be unbound."""
    tree = ast.parse(src)
    comps = [n for n in ast.walk(tree) if isinstance(n, (ast.ListComp, ast.GeneratorExp, ast.SetComp, ast.DictComp))]

    def targets(n):
        return {t.id for g in n.generators for t in ast.walk(g.target) if isinstance(t, ast.Name)}
    earlier = {n.id for n in ast.walk(tree) if isinstance(n, ast.Name) and isinstance(n.ctx, ast.Store) and n.lineno < line}
    for n in comps:
        if n.lineno == line and c0 <= n.col_offset and n.end_col_offset <= c1 and targets(n) & earlier:
            return True
    return False


def in_while_test(src, line, c0, c1):
    for n in ast.walk(ast.parse(src)):
        if isinstance(n, ast.While):
            for e in ast.walk(n.test):
                if isinstance(e, ast.expr) and getattr(e, "lineno", None) == line and e.col_offset <= c0 \
                        and c1 <= e.end_col_offset:
                    return True
    return False


VTERMS = []


def variable_correspondence(ctx):
    """rope's extract-variable results against the model ExtractVar.extract_variable (compared inside Coq)."""
    if not VTERMS:
        return
    out = ctx.coq_file(HEADER + "From RopeVerif.C03 Require Import ExtractVar.\nDefinition vcases : list vcase := [\n%s].\n"
                       "Eval vm_compute in (vmismatches vcases).\n" % ";\n".join(t for t, _ in VTERMS), name="variable_C03")
    pairs = ctx.parse_pairs(out)
    ctx.traces += len(VTERMS)
    ctx.count("variable_results_compared_with_model", len(VTERMS))
    for (i, code) in (pairs[0] if pairs else []):
        obj = dict(VTERMS[i][1])
        obj["broken"] = ("correspondence Runner.run_vcase (ExtractVar.extract_variable vs ExtractVariable); theorem "
                         "C03_variable_partial no longer speaks about the code")
        ctx.violation(obj, "C03: extract variable: rope's result differs from the model for columns %s of line %d\n%s" % (
            obj["cols"], obj["line"], obj["source"]), no_input=True)
    VTERMS[:] = []


def stmt_root_expr(n):
    if isinstance(n, (ast.Assign, ast.AugAssign, ast.Return)):
        return n.value
    if isinstance(n, ast.Expr) and isinstance(n.value, ast.Call) and n.value.args:
        return n.value.args[0]
    if isinstance(n, (ast.If, ast.While)):
        return n.test
    if isinstance(n, ast.For) and isinstance(n.iter, ast.Call) and n.iter.args:
        return n.iter.args[0]
    return None


def expr_path(root, line, c0, c1):
    """Path (list of 0/1) from the statement's expression to the selected node through binary operators /
    comparisons; None when the selection is not reached that way (e.g. it lies inside a comprehension)."""
    path, n = [], root
    while True:
        if n.lineno == line and n.col_offset == c0 and n.end_col_offset == c1:
            return path
        if isinstance(n, ast.BinOp):
            kids = [n.left, n.right]
        elif isinstance(n, ast.Compare) and len(n.comparators) == 1:
            kids = [n.left, n.comparators[0]]
        else:
            return None
        for d, k in enumerate(kids):
            if k.lineno == line and k.col_offset <= c0 and c1 <= k.end_col_offset:
                path.append(d)
                n = k
                break
        else:
            return None


def variable_case_term(h, line, c0, c1, new_source):
    """Coq term comparing rope's extract-variable result with the model ExtractVar.extract_variable; None when
    the case is outside the modelled shape."""
    tree = ast.parse(h.src)
    pos = h.host["pos"]
    nodes = tree.body if pos == "module" else G.find_defs(tree, pos)["f"].body
    target = None
    for n in ast.walk(ast.Module(body=nodes, type_ignores=[])):
        if isinstance(n, ast.stmt) and n.lineno == line and stmt_root_expr(n) is not None:
            target = n
            break
    if target is None:
        return None
    p = expr_path(stmt_root_expr(target), line, c0, c1)
    if p is None:
        return None
    for path, i, j, first, last in h.regions():
        if j == i + 1 and first == line:
            break
    else:
        return None
    try:
        t2 = ast.parse(new_source)
        nodes2 = t2.body if pos == "module" else G.find_defs(t2, pos)["f"].body
        body2 = G.a_block(nodes2, None)
    except (G.Unsupported, SyntaxError, KeyError):
        return "BAD"
    return "{| v_loc := %s; v_path := [%s]; v_name := %s; v_result := %s |}" % (
        h.loc_term(path, i, j), "; ".join("true" if d else "false" for d in p), G.g_var("v"), G.g_block(body2, None))


def expression_stream(ctx, drv, hosts, per_host):
    """Extract variable / one-line extract method on a sample of sub-expressions: execution oracle only."""
    for h in hosts:
        pos = h.host["pos"]
        cands = subexpressions(h.src)
        ctx.rng.shuffle(cands)
        vecs = E.vectors(ctx.rng, len(h.host["params"]), NVEC)
        before = None
        for (line, c0, c1, where) in cands[:per_host]:
            for kind in ("variable", "method"):
                r = drv.extract(h.src, line, line, name="v", kind=kind, cols=(c0, c1))
                ctx.case(("expr", kind, h.src, line, c0, c1), nontrivial=not r["refused"])
                ctx.count("expression:%s:%s" % (kind, "refused" if r["refused"] else where))
                obj = {"kind": "expression", "extract": kind, "pos": pos, "params": h.host["params"],
                       "source": h.src, "line": line, "cols": [c0, c1], "vecs": vecs}
                if r["error"] and not r["refused"]:
                    ctx.violation(dict(obj, observed=r["error"]), "C03: extract %s crashed: %s\n%s" % (kind, r["error"], h.src))
                    continue
                if r["refused"]:
                    continue
                if before is None:
                    before = [E.run_program(h.src, pos, h.host["params"], v) for v in vecs]
                if kind == "variable":
                    t = variable_case_term(h, line, c0, c1, r["new"])
                    if t == "BAD":
                        ctx.violation(dict(obj, broken="result of extract variable is outside the Flow fragment"),
                                      "C03: extract variable result not abstractable\n" + r["new"], no_input=True)
                    elif t is not None:
                        VTERMS.append((t, obj))
                after = [E.run_program(r["new"], pos, h.host["params"], v) for v in vecs]
                fail = first_difference(vecs, before, after)
                if fail:
                    ctx.violation(dict(obj, observed=fail),
                                  "C03: extract %s of columns %d-%d of line %d changes behaviour: %r\n%s" % (
                                      kind, c0, c1, line, fail, h.src))
            if ctx.too_many(8):
                return


# ----------------------------------------------------------------------------- selections that cut words
WORD_POOL = ["max_count", "na\u00efve2", "a_1", "total_sum", "_x", "x_", "a1b", "\u03c0r2", "count", "n0"]


def wordcut_sources(rng, n):
    res = []
    for _ in range(n):
        p1, p2, p3, loc = rng.sample(WORD_POOL, 4)
        num = rng.choice(["12345", "70", "1_000"])
        res.append("def f(%s, %s, %s):\n    %s = %s + %s * %s\n    print(%s - %s)\n    return %s + %s\n" % (
            p1, p2, p3, loc, p1, p2, p3, loc, p1, loc, num))
    return res


def wordcut_stream(ctx, drv, nsrc):
    """One-line selections whose borders cut identifiers / numbers (at letters, digits, underscores, non-ASCII
    letters): every one must be refused with RefactoringError and nothing may change. The on-a-word condition
    itself is compared with the model coq/C03/OneLine.v inside Coq."""
    import io
    import tokenize
    from rope.base.exceptions import RefactoringError
    X = drv.X
    terms = []
    fixed = ["def f(max_count, b):\n    r = max_count + b * 2\n    return r + 12345\n"]
    for src in fixed + wordcut_sources(ctx.rng, nsrc):
        lines = src.split("\n")
        toks = [t for t in tokenize.generate_tokens(io.StringIO(src).readline)
                if t.type in (tokenize.NAME, tokenize.NUMBER) and t.start[0] >= 2]
        offs = [0]
        for l in lines:
            offs.append(offs[-1] + len(l) + 1)
        cands = []
        for t in toks:
            row, c0, c1 = t.start[0], t.start[1], t.end[1]
            inner = list(range(c0 + 1, c1))
            bounds = sorted({tt.start[1] for tt in toks if tt.start[0] == row} | {tt.end[1] for tt in toks if tt.start[0] == row})
            for i in inner:
                for b in [c0] + [x for x in bounds if x > i][:2]:
                    if b != i:
                        cands.append((row, min(i, b), max(i, b), True))
                for j in inner:
                    if i < j:
                        cands.append((row, i, j, True))
            if not (row == 2 and c0 == 4):                          # (the assignment target is not an expression)
                cands.append((row, c0, c1, False))                  # the whole token: not a cut
        ctx.rng.shuffle(cands)
        for (row, c0, c1, cut) in cands[:ctx.scale(25, 60)]:
            start, end = offs[row - 1] + c0, offs[row - 1] + c1
            for kind in ("variable", "method"):
                drv.set_source(src)
                cls = X.ExtractVariable if kind == "variable" else X.ExtractMethod
                refused, msg, new = False, "", None
                try:
                    ref = cls(drv.project, drv.res, start, end)
                    st, en = ref.start_offset, ref.end_offset
                    new = ref.get_changes("nv").changes[0].new_contents
                except RefactoringError as e:
                    refused, msg = True, str(e)
                ctx.case(("wordcut", src, start, end, kind), nontrivial=cut)
                ctx.count("wordcut:%s:%s" % ("cuts-a-word" if cut else "whole-token", "refused" if refused else "accepted"))
                obj = {"kind": "wordcut", "extract": kind, "source": src, "start": start, "end": end}
                if cut and not refused:
                    ctx.violation(dict(obj, observed="accepted", result=new),
                                  "C03: extract %s of %r (a selection that cuts a word) is accepted instead of refused\n%s"
                                  % (kind, src[start:end], src))
                elif not refused and not cut:
                    if E.run_program(src, "function", ["p", "q", "r"], [3, 4, 5]) != E.run_program(new, "function", ["p", "q", "r"], [3, 4, 5]):
                        ctx.violation(dict(obj, observed="behaviour", result=new),
                                      "C03: extract %s of the token %r changes behaviour\n%s" % (kind, src[start:end], src))
                alnum = sorted({ord(ch) for ch in src if ch.isalnum()})
                terms.append("{| w_src := %s; w_alnum := %s; w_start := %d; w_stop := %d; w_refused := %s; w_word_message := %s |}" % (
                    g_text_(src), "[" + "; ".join("%d%%N" % a for a in alnum) + "]", st, en,
                    "true" if refused else "false", "true" if msg == "Should extract complete statements." else "false"))
                if ctx.too_many(8):
                    return
    out = ctx.coq_file("From Coq Require Import List NArith Bool.\nImport ListNotations.\n"
                       "From RopeVerif.C03 Require Import OneLine.\nDefinition wcases : list wcase := [\n%s].\n"
                       "Eval vm_compute in (wmismatches wcases).\nEval vm_compute in (count_on_word wcases).\n"
                       % ";\n".join(terms), name="wordcut_C03")
    pairs = ctx.parse_pairs(out)
    nums = ctx.parse_nums(out)
    ctx.extra["wordcut_cases_on_a_word"] = nums[-1][0] if nums else 0
    ctx.traces += len(terms)
    for (i, code) in (pairs[0] if pairs else []):
        ctx.violation({"kind": "wordcut-model", "case": terms[i][:400],
                       "broken": "correspondence OneLine.run_wcase (region_on_a_word vs _is_region_on_a_word); theorem "
                                 "C03_word_cut_refusal no longer speaks about the code"},
                      "C03: on-a-word condition: model and rope disagree (code %d)" % code, no_input=True)


def g_text_(s):
    return "[" + "; ".join("%d%%N" % ord(c) for c in s) + "]"


# ----------------------------------------------------------------------------- similar / global_ / kinds
def similar_stream(ctx, drv, nspecs):
    """Not modelled in Coq: similar=True, global_=True, kind=classmethod/staticmethod, try/except/else/finally,
    instance/class/static methods, nested functions, module level. Execution oracle only (c03_similar.py)."""
    fixed = [k["spec"] for k in S.KNOWN_SIMILAR] + [
        {"stmt": False, "piece": "(p + 1) * q", "sites": ["except1", "except2"], "variant": 1},
        {"stmt": False, "piece": "p * 2 + q", "sites": ["method1", "classmethod", "staticmethod"], "variant": 0},
        {"stmt": True, "piece": list(S.STMTS[0]), "sites": ["try", "method1", "method2"], "variant": 0},
    ]
    specs = fixed + [S.gen_spec(ctx.rng) for _ in range(nspecs)]
    for spec in specs:
        source, occ = S.build(spec)
        base = S.run_module(source)
        assert base[1] == ["ok"], (base[1], source)
        for si, o in enumerate(occ):
            for kind, opts in S.variants(o[0], spec["stmt"]):
                if kind == "variable" and opts.get("global_") and o[0] != "module" and ctx.rng.random() < 0.8:
                    continue          # always-failing recorded defect: a sample is enough
                obj, r, fail = S.run_case(drv, spec, si, kind, opts)
                if fail:
                    obj["observed"] = fail
                obj["class"] = S.structural_signature(obj)
                flags = "+".join(sorted(k if v is True else "%s=%s" % (k, v) for k, v in opts.items()))
                ctx.case(("similar", source, si, kind, flags), nontrivial=not r["refused"])
                ctx.count("similar:%s:%s:from=%s:%s" % (kind, flags, S.site_class(o[0]),
                                                        "refused" if r["refused"] else ("fails" if fail else "ok")))
                if fail:
                    obj["observed"] = fail
                    ctx.violation(obj, "C03: extract %s %s of the piece at site %s (sites %s) changes behaviour: %r\n%s" % (
                        kind, flags, o[0], ",".join(spec["sites"]), fail, source))
                if ctx.too_many(8):
                    return


# ----------------------------------------------------------------------------- near misses of similar=True
def near_stream(ctx, nspecs):
    """similar=True must NOT replace code that only looks like the piece: the same code on an object whose class
    rope cannot know or knows to be different (pieces that use self), the same expression with a literal of equal
    value but another type (1 / 1.0 / True); and it must replace the same code on self in another method.
    Execution oracle only (c03_similar.build2). A fresh project per module: what rope inferred about a function
    in an earlier module would otherwise be reused."""
    fixed = [k["spec2"] for k in S.KNOWN_NEAR] + [
        {"self_piece": "({o}.k + p) * q", "lit_piece": "(p + 1) * q", "twin": "(p + 1.0) * q", "twin_kind": "float",
         "typed_call": False, "order": 1},
        {"self_piece": "{o}.k * p + q", "lit_piece": "[p, 3, q]", "twin": "[p, 3.0, q]", "twin_kind": "float",
         "typed_call": False, "order": 0}]
    for spec in fixed + [S.gen_spec2(ctx.rng) for _ in range(nspecs)]:
        source, occ = S.build2(spec)
        base = S.run_module(source)
        assert base[1] == ["ok"], (base[1], source)
        drv = E.Driver()
        try:
            for site, kind, opts in S.selections2(spec):
                obj, r, fail = S.run_case2(drv, spec, site, kind, opts)
                if fail:
                    obj["observed"] = fail
                obj["class"] = S.near_signature(obj)
                flags = "+".join(sorted(k if v is True else "%s=%s" % (k, v) for k, v in opts.items()))
                ctx.case(("near", source, site, kind, flags), nontrivial=not r["refused"])
                ctx.count("near:%s:%s:from=%s:twin=%s:typed_call=%s:%s" % (
                    kind, flags, site, spec["twin_kind"], spec["typed_call"],
                    "refused" if r["refused"] else ("fails" if fail else "ok")))
                if fail:
                    ctx.violation(obj, "C03: extract %s %s at site %s of a module with look-alike code changes behaviour: %r\n%s" % (
                        kind, flags, site, fail, source))
        finally:
            drv.close()
        if ctx.too_many(8):
            return


# ----------------------------------------------------------------------------- replay / signature
def replay(ctx, obj):
    """True = the property fails on the recorded input (behaviour differs, result does not parse, or crash)."""
    if obj.get("kind") == "similar":
        return S.replay(obj)
    if obj.get("kind") == "near":
        return S.replay2(obj)
    if obj.get("kind") == "wordcut":
        drv = E.Driver()
        try:
            drv.set_source(obj["source"])
            cls = drv.X.ExtractVariable if obj["extract"] == "variable" else drv.X.ExtractMethod
            try:
                cls(drv.project, drv.res, obj["start"], obj["end"]).get_changes("nv")
                return True
            except Exception:
                return False
        finally:
            drv.close()
    drv = E.Driver()
    try:
        if obj.get("kind") == "expression":
            r = drv.extract(obj["source"], obj["line"], obj["line"], name="v", kind=obj["extract"],
                            cols=tuple(obj["cols"]))
        else:
            r = drv.extract(obj["source"], obj["first"], obj["last"])
    finally:
        drv.close()
    if r["refused"]:
        return False
    if r["error"]:
        return True
    for v in obj["vecs"]:
        b = E.run_program(obj["source"], obj["pos"], obj["params"], v)
        if b[1][0] == "timeout":
            continue
        a = E.run_program(r["new"], obj["pos"], obj["params"], v)
        if a != b:
            return True
    return False


def signature(obj):
    if obj.get("kind") == "near":
        return S.near_signature(obj)
    if obj.get("kind") == "wordcut":
        return "wordcut"
    if obj.get("kind") == "similar":
        return S.structural_signature(obj)
    if obj.get("kind") == "expression":
        # structural: extract variable of (part of) the condition of a while loop
        if uses_comprehension_variable(obj["source"], obj["line"], *obj["cols"]):
            return "%s:comprehension-variable" % obj.get("extract")
        if obj.get("extract") == "method" and contains_comprehension_with_leaked_variable(
                obj["source"], obj["line"], *obj["cols"]):
            return "method:comprehension-variable-leaked-into-prewritten"
        if obj.get("extract") == "variable" and in_while_test(obj["source"], obj["line"], *obj["cols"]):
            return "variable:while-condition"
        return "expression:other"
    return obj.get("class")
