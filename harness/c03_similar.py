"""C03 helper: execution-oracle-only stream for the parts of extract that are NOT modelled in Coq:
similar=True (every similar piece is replaced), global_=True, kind=classmethod/staticmethod, placement of the
new definition by suites.find_visible, try/except/else/finally, instance/class/static methods of one class,
nested functions and module-level code.

A generated module repeats one self-free expression (or one two-statement piece) at several *sites*:
  try-body, except handlers (two), try-else, finally, plain function, nested function, instance methods (two),
  classmethod, staticmethod, module level.
One occurrence is selected and extracted with the real ExtractVariable / ExtractMethod. Oracle: the result
parses, and running the module (its entry code calls every function with several arguments and prints the
results or the exception class) prints exactly what it printed before.
"""
import ast

from harness import c03_exec as E

EXPRS = [
    "(p + 1) * q",
    "p * 2 + q",
    "str(p) + '-' + str(q)",
    "[p, q, p]",
    "max(p, q) - min(p, q)",
]
STMTS = [
    ("t = p + q", "print(t * 2)"),
    ("t = p * 3", "print(t, q)"),
]

SITES = ["try", "except1", "except2", "tryelse", "finally", "plain", "nested", "method1", "method2",
         "classmethod", "staticmethod", "module"]


def gen_spec(rng):
    """Which sites hold the repeated piece. At least two sites."""
    stmt = rng.random() < 0.3
    piece = rng.choice(STMTS) if stmt else rng.choice(EXPRS)
    k = rng.random()
    if k < 0.15:
        sites = ["except1", "except2"]                       # only the handlers of one try
    elif k < 0.3:
        sites = ["method1", "classmethod"] + rng.sample(["method2", "staticmethod"], rng.randint(0, 2))
    else:
        sites = rng.sample(SITES, rng.randint(2, 6))
    return {"stmt": stmt, "piece": list(piece) if stmt else piece, "sites": sorted(set(sites), key=SITES.index),
            "variant": rng.randint(0, 3)}


def build(spec):
    """-> (source, occurrences) ; occurrences: list of (site, first line, last line, col0, col1) of the piece
    (cols only for expressions; 1-based lines)."""
    stmt, piece, sites = spec["stmt"], spec["piece"], spec["sites"]
    out = []
    occ = []

    def use(site, ind, form):
        """Append the piece (if this site holds it) or a neutral filler; form: how an expression is used."""
        pad = " " * ind
        if site in sites:
            if stmt:
                first = len(out) + 1
                for line in piece:
                    out.append(pad + line)
                occ.append((site, first, len(out), None, None))
            else:
                line = pad + form % piece
                out.append(line)
                c0 = line.index(piece)
                occ.append((site, len(out), len(out), c0, c0 + len(piece)))
        else:
            out.append(pad + (form % "p" if not stmt else "print(p)"))

    v = spec["variant"]
    # a function with try / two handlers / else / finally
    out.append("def fa(p, q):")
    out.append("    try:")
    out.append("        r = 10 // (p - 1)" if v % 2 == 0 else "        r = len(p) if p == 2 else 10 // (p - 1)")
    use("try", 8, "print('t', %s)")
    out.append("    except ZeroDivisionError:")
    use("except1", 8, "print('z', %s)")
    out.append("    except TypeError:")
    use("except2", 8, "print('y', %s)")
    out.append("    else:")
    use("tryelse", 8, "print('e', %s)")
    out.append("    finally:")
    use("finally", 8, "print('f', %s)")
    out.append("    return 0")
    out.append("")
    out.append("")
    out.append("def fb(p, q):")
    use("plain", 4, "u = %s")
    out.append("    return u" if not stmt else "    return p")
    out.append("")
    out.append("")
    out.append("def fc(p, q):")
    out.append("    def inner(q):")
    use("nested", 8, "return %s")
    if stmt:
        out.append("        return q")
    out.append("    return inner(q + 1)")
    out.append("")
    out.append("")
    out.append("class K(object):")
    out.append("    def m1(self, p, q):")
    use("method1", 8, "w = %s")
    out.append("        return w" if not stmt else "        return 1")
    out.append("")
    out.append("    def m2(self, p, q):")
    use("method2", 8, "print('m', %s)")
    out.append("        return 2")
    out.append("")
    out.append("    @classmethod")
    out.append("    def c1(cls, p, q):")
    use("classmethod", 8, "print('c', %s)")
    out.append("        return 3")
    out.append("")
    out.append("    @staticmethod")
    out.append("    def s1(p, q):")
    use("staticmethod", 8, "print('s', %s)")
    out.append("        return 4")
    out.append("")
    out.append("")
    out.append("p = 2")
    out.append("q = 5")
    use("module", 0, "print('g', %s)")
    out.append("")
    # entry code: every function on several arguments; an exception of a call is printed by class
    out.append("for _a, _b in [(1, 2), (2, 3), (3, 0), (0, 1)]:")
    out.append("    for _f in (fa, fb, fc, K().m1, K().m2, K.c1, K.s1):")
    out.append("        try:")
    out.append("            print(_f.__name__, _f(_a, _b))")
    out.append("        except Exception as _e:")
    out.append("            print(_f.__name__, type(_e).__name__)")
    return "\n".join(out) + "\n", occ


def run_module(source):
    """-> list of printed tuples + final ['ok'] | ['exc', name] | ['syntax']"""
    out = []

    def _print(*a):
        out.append(repr(a))

    try:
        code = compile(source, "<c03s>", "exec")
    except SyntaxError as e:
        return out, ["syntax", str(e)[:80]]
    g = {"__name__": "__main__", "print": _print}
    try:
        exec(code, g)
        return out, ["ok"]
    except NameError:
        return out, ["exc", "NameError"]
    except Exception as e:
        return out, ["exc", type(e).__name__]


def variants(site, stmt):
    """(extract kind, options) combinations tried for a selection at `site`."""
    res = [("method", {"similar": True}), ("method", {"similar": True, "global_": True})]
    if not stmt:
        res += [("variable", {"similar": True}), ("variable", {"similar": True, "global_": True})]
    if site in ("method1", "method2", "classmethod", "staticmethod"):
        res += [("method", {"similar": True, "kind": "classmethod"}), ("method", {"similar": True, "kind": "staticmethod"})]
    if site == "module":
        res = [r for r in res if not r[1].get("global_")]
    return res


def site_class(site):
    return {"try": "try", "except1": "handler", "except2": "handler", "tryelse": "try", "finally": "try",
            "plain": "function", "nested": "nested", "method1": "method", "method2": "method",
            "classmethod": "classmethod", "staticmethod": "staticmethod", "module": "module"}[site]


def failure_kind(obj):
    """How the result fails: 'exc:<Class>' / 'syntax' (the module no longer runs to its end) or 'output' (it runs,
    but prints something else). Taken from the observed failure, or from the recorded expectation of a finding."""
    ob = obj.get("observed")
    if not ob:
        return obj.get("expected_failure", "?")
    if "crash" in ob:
        return "crash"
    final = ob["after"][1]
    if final[0] == "ok":
        return "output"
    return "syntax" if final[0] == "syntax" else "exc:" + final[1]


def structural_signature(obj):
    """Class of a case of this stream: the exact input shape (what is extracted, with which options, from which kind
    of site) AND the way the result fails. Only the combinations recorded as open defects of rope have a name;
    everything else (also a recorded shape that fails differently) is `similar:other`."""
    opts = obj["opts"]
    frm = site_class(obj["site"])
    glob = bool(opts.get("global_"))
    fk = failure_kind(obj)
    if obj["extract"] == "variable" and glob and frm != "module" and fk == "exc:NameError":
        return "similar:variable-global-from-local-scope:exc:NameError"
    if frm == "module" and not glob and not opts.get("kind"):
        others = {site_class(x) for x in obj["spec"]["sites"] if x != obj["site"]}
        if others - {"module"}:
            if obj["extract"] == "method" and fk == "output":
                return "similar:module-level-matches-inner-scopes:method:output"
            if obj["extract"] == "variable" and fk in ("exc:NameError", "output"):
                return "similar:module-level-matches-inner-scopes:variable:NameError-or-output"
    if obj["extract"] == "method" and glob and frm == "nested" and fk == "output":
        return "similar:global-from-nested-closure:output"
    return "similar:other"


KNOWN_SIMILAR = [
    {"id": "C03-variable-global-from-local-scope",
     "title": "extract variable with global_=True inside a function defines a module-level variable from the "
              "function's local names (NameError when the module is imported); it should be refused",
     "spec": {"stmt": False, "piece": "p * 2 + q", "sites": ["plain", "nested"], "variant": 0},
     "site_index": 0, "extract": "variable", "opts": {"similar": True, "global_": True},
     "expected_failure": "exc:NameError"},
    {"id": "C03-module-level-similar-inner-scopes",
     "title": "extract at module level with similar=True also replaces textually similar code inside functions, "
              "where the same names are parameters/locals: the new function/variable reads the globals instead",
     "spec": {"stmt": False, "piece": "p * 2 + q", "sites": ["plain", "module"], "variant": 0},
     "site_index": 1, "extract": "method", "opts": {"similar": True}, "expected_failure": "output"},
    {"id": "C03-module-level-similar-inner-scopes-variable",
     "title": "extract variable at module level with similar=True also replaces similar code inside functions and "
              "puts the definition in front of the first of them, before the module-level names it reads are bound",
     "spec": {"stmt": False, "piece": "p * 2 + q", "sites": ["plain", "module"], "variant": 0},
     "site_index": 1, "extract": "variable", "opts": {"similar": True}, "expected_failure": "exc:NameError"},
    {"id": "C03-global-from-nested-closure",
     "title": "extract method with global_=True from a nested function does not pass the names that the nested "
              "function reads from its enclosing function: the new global function reads module globals instead",
     "spec": {"stmt": False, "piece": "p * 2 + q", "sites": ["plain", "nested"], "variant": 0},
     "site_index": 1, "extract": "method", "opts": {"similar": True, "global_": True}, "expected_failure": "output"},
    {"id": "C03-global-from-classmethod-decorator", "corpus_name": "global-from-classmethod-decorator",
     "fixed": ("e95d065", "ExtractMethod(global_=True) from a classmethod kept @classmethod and `cls` on the new "
                          "module-level function (TypeError when called)"),
     "title": "extract method with global_=True from a classmethod keeps @classmethod (and cls) on the new "
              "module-level function; calling it raises TypeError",
     "spec": {"stmt": False, "piece": "p * 2 + q", "sites": ["method1", "classmethod"], "variant": 0},
     "site_index": 1, "extract": "method", "opts": {"similar": True, "global_": True}},
]


def known_obj(k):
    source, occ = build(k["spec"])
    obj = {"kind": "similar", "spec": k["spec"], "site": occ[k["site_index"]][0], "site_index": k["site_index"],
           "extract": k["extract"], "opts": k["opts"], "source": source,
           "expected_failure": k.get("expected_failure", "?")}
    obj["class"] = structural_signature(obj)
    return obj


def do_extract(drv, source, o, kind, opts):
    site, first, last, c0, c1 = o
    cols = None if c0 is None else (c0, c1)
    opts = {("rope_kind" if k == "kind" else k): v for k, v in opts.items()}
    return drv.extract(source, first, last, name="newpiece", kind=kind, cols=cols, **opts)


def run_case(drv, spec, site_index, kind, opts):
    source, occ = build(spec)
    o = occ[site_index]
    r = do_extract(drv, source, o, kind, opts)
    obj = {"kind": "similar", "spec": spec, "site": o[0], "site_index": site_index, "extract": kind, "opts": opts,
           "source": source}
    if r["refused"]:
        return obj, r, None
    if r["error"]:
        return obj, r, {"crash": r["error"]}
    before = run_module(source)
    after = run_module(r["new"])
    if before != after:
        k = 0
        while k < min(len(before[0]), len(after[0])) and before[0][k] == after[0][k]:
            k += 1
        return obj, r, {"before": [before[0][k:k + 2], before[1]], "after": [after[0][k:k + 2], after[1]]}
    return obj, r, None


def replay(obj):
    drv = E.Driver()
    try:
        _, r, fail = run_case(drv, obj["spec"], obj["site_index"], obj["extract"], obj["opts"])
    finally:
        drv.close()
    return bool(fail)


# ----------------------------------------------------------------------------- near misses of similar=True
# Code that LOOKS like the extracted piece but must not be replaced: the same code on another object (a parameter
# whose class rope cannot know, an object of a known different class) when the piece uses `self`; the same
# expression with a literal of equal value but another type (1 / 1.0 / True). Plus pieces that must be replaced
# (the same code in another method on self).
SELF_PIECES = ["{o}.k * p + q", "({o}.k + p) * q", "str({o}.k) + str(p)"]
LITERAL_PIECES = [("p * 2 + q", {"float": "p * 2.0 + q", "bool": "p * 2 + q"}),
                  ("(p + 1) * q", {"float": "(p + 1.0) * q", "bool": "(p + True) * q"}),
                  ("[p, 3, q]", {"float": "[p, 3.0, q]", "bool": "[p, 3, q]"})]


def gen_spec2(rng):
    lit, twins = rng.choice(LITERAL_PIECES)
    kind = rng.choice(["float", "float", "bool"])
    return {"self_piece": rng.choice(SELF_PIECES), "lit_piece": lit, "twin": twins[kind], "twin_kind": kind,
            "typed_call": rng.random() < 0.3, "order": rng.randint(0, 1)}


def build2(spec):
    """-> (source, occurrences); occurrences: (site, line, line, col0, col1)."""
    out, occ = [], []

    def use(site, ind, form, text):
        line = " " * ind + form % text
        out.append(line)
        c0 = line.index(text)
        occ.append((site, len(out), len(out), c0, c0 + len(text)))

    sp, lp, tw = spec["self_piece"], spec["lit_piece"], spec["twin"]
    out += ["class Other(object):", "    def __init__(self, k):", "        self.k = k", "", ""]
    out += ["class K(object):", "    def __init__(self, k):", "        self.k = k", ""]
    methods = []

    def m_self1():
        out.append("    def ms1(self, p, q):")
        use("self1", 8, "w = %s", sp.format(o="self"))
        out.extend(["        return w", ""])

    def m_other():
        out.append("    def mo(self, other, p, q):")
        use("other", 8, "return %s", sp.format(o="other"))
        out.append("")

    def m_self2():
        out.append("    def ms2(self, p, q):")
        use("self2", 8, "print('m', %s)", sp.format(o="self"))
        out.extend(["        return 2", ""])

    def m_typed():
        out.append("    def mt(self, p, q):")
        out.append("        o = Other(7)")
        use("typed", 8, "return %s", sp.format(o="o"))
        out.append("")

    def m_int():
        out.append("    def mi(self, p, q):")
        use("int_m", 8, "return %s", lp)
        out.append("")

    def m_twin():
        out.append("    def mf(self, p, q):")
        use("twin_m", 8, "return %s", tw)
        out.append("")
    methods = [m_self1, m_other, m_self2, m_typed, m_int, m_twin]
    if spec["order"]:
        methods = [m_other, m_twin, m_self1, m_typed, m_int, m_self2]
    for m in methods:
        m()
    out.append("")
    out.append("def fi(p, q):")
    use("int_f", 4, "u = %s", lp)
    use("twin_local", 4, "t = %s", tw)
    out += ["    return (u, t)", "", ""]
    out.append("def ft(p, q):")
    use("twin_f", 4, "return %s", tw)
    out += ["", ""]
    out.append("for _a, _b in [(1, 2), (2, 3), (3, 0)]:")
    out.append("    _x = (K if _a % 2 else Other)(_a + 1)")
    out.append("    for _f in (K(5).ms1, K(5).ms2, K(5).mt, K(5).mi, K(5).mf, fi, ft):")
    out.append("        try:")
    out.append("            print(_f.__name__, _f(_a, _b))")
    out.append("        except Exception as _e:")
    out.append("            print(_f.__name__, type(_e).__name__)")
    out.append("    try:")
    out.append("        print('mo', getattr(K(5), 'm' + 'o')(_x, _a, _b))      # no call site of mo that rope can see")
    out.append("    except Exception as _e:")
    out.append("        print('mo', type(_e).__name__)")
    if spec["typed_call"]:
        out.append("print('direct', K(1).mo(K(2), 3, 4))")
    return "\n".join(out) + "\n", occ


def selections2(spec):
    """(site, extract kind, options) tried on a near-miss module."""
    res = [("self1", "method", {"similar": True}), ("self2", "method", {"similar": True}),
           ("int_m", "method", {"similar": True}), ("int_f", "method", {"similar": True}),
           ("int_f", "variable", {"similar": True}), ("int_f", "method", {"similar": True, "global_": True}),
           ("int_m", "method", {"similar": True, "global_": True})]
    return res


def run_case2(drv, spec, site, kind, opts):
    source, occ = build2(spec)
    o = [x for x in occ if x[0] == site][0]
    r = do_extract(drv, source, o, kind, opts)
    obj = {"kind": "near", "spec2": spec, "site": site, "extract": kind, "opts": opts, "source": source}
    if r["refused"]:
        return obj, r, None
    if r["error"]:
        return obj, r, {"crash": r["error"]}
    before = run_module(source)
    after = run_module(r["new"])
    if before != after:
        k = 0
        while k < min(len(before[0]), len(after[0])) and before[0][k] == after[0][k]:
            k += 1
        return obj, r, {"before": [before[0][k:k + 2], before[1]], "after": [after[0][k:k + 2], after[1]]}
    return obj, r, None


def near_signature(obj):
    """Input shape + predicted failure of the one recorded defect of this stream; anything else is near:other."""
    if obj["spec2"].get("typed_call") and obj["site"] in ("self1", "self2") and obj["extract"] == "method" \
            and not obj["opts"].get("global_") and failure_kind(obj) == "output":
        return "near:parameter-class-inferred-from-one-call-site:output"
    return "near:other"


def replay2(obj):
    drv = E.Driver()
    try:
        _, r, fail = run_case2(drv, obj["spec2"], obj["site"], obj["extract"], obj["opts"])
    finally:
        drv.close()
    return bool(fail)


KNOWN_NEAR = [
    {"id": "C03-similar-parameter-class-from-one-call-site",
     "title": "extract method with similar=True from a method whose piece uses self: a single call site in the module "
              "that passes an instance of the class makes rope treat another method's parameter as an instance of the "
              "class, the same code on that parameter becomes `other.<new>()` and raises AttributeError for callers "
              "that pass something else",
     "spec2": {"self_piece": "{o}.k * p + q", "lit_piece": "p * 2 + q", "twin": "p * 2.0 + q", "twin_kind": "float",
               "typed_call": True, "order": 0},
     "site": "self1", "extract": "method", "opts": {"similar": True}, "expected_failure": "output"},
]


def known_near_obj(k):
    source, _ = build2(k["spec2"])
    obj = {"kind": "near", "spec2": k["spec2"], "site": k["site"], "extract": k["extract"], "opts": k["opts"],
           "source": source, "expected_failure": k["expected_failure"]}
    obj["class"] = near_signature(obj)
    return obj
