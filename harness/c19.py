"""C19 — pattern matching and restructuring rewrite exactly the real instances.

Part A (matching): generated module x pattern (abstracted from the module's own code) x region ->
  rope's RawSimilarFinder / SimilarFinder match list, compared inside Coq with the model of
  coq/C19/Matcher.v evaluated on the very tree rope searched (node ids, rope's regions), plus independent
  oracles on rope's result: instance check (tree- and text-level substitution, CPython ast), equal
  wildcards -> equal code, region containment, completeness against a brute-force matcher written here.
Part B (restructuring) lives in c19_restructure.py and is called from run().
"""
import ast
import json
import os
import re
import shutil
import tempfile
import textwrap
import warnings

from harness import c19_gen
from harness.common import g_list

PROPERTY = "C19"

NORMAL = "__rope__variable_normal_"
ANY = "__rope__variable_any_"

# ----------------------------------------------------------------------------- class / atom numbering
_NOID = (ast.expr_context, ast.operator, ast.boolop, ast.unaryop, ast.cmpop)


def _class_numbers():
    num = {ast.Name: 1, ast.Expr: 100}
    ex = sorted((c for c in ast.expr.__subclasses__() if c is not ast.Name), key=lambda c: c.__name__)
    for i, c in enumerate(ex):
        num[c] = 2 + i
    assert len(ex) < 90
    st = sorted((c for c in ast.stmt.__subclasses__() if c is not ast.Expr), key=lambda c: c.__name__)
    for i, c in enumerate(st):
        num[c] = 101 + i
    assert len(st) < 90
    return num


CLASS_NUM = _class_numbers()
_other = {n: 200 + i for i, n in enumerate(sorted(
    n for n, c in vars(ast).items()
    if isinstance(c, type) and issubclass(c, ast.AST) and not issubclass(c, (ast.expr, ast.stmt))))}


def class_num(cls):
    if cls in CLASS_NUM:
        return CLASS_NUM[cls]
    if issubclass(cls, ast.expr):           # deprecated aliases (Num, Str...) never produced by parse
        return 99
    if issubclass(cls, ast.stmt):
        return 199
    if cls.__name__ not in _other:
        _other[cls.__name__] = 200 + len(_other)
    return _other[cls.__name__]


ATOM_TYPES = {type(None): 0, str: 1, int: 2, bool: 3, float: 4, complex: 5, bytes: 6, type(Ellipsis): 7}
CTX_NUM = {ast.Load: 0, ast.Store: 1, ast.Del: 2}


def number_tree(tree):
    """pre-order ids (>= 1) on every node that is not a shared singleton (operators, contexts)."""
    counter = [0]
    by_id = {}

    def go(n):
        if isinstance(n, _NOID):
            return
        counter[0] += 1
        n._vid = counter[0]
        by_id[counter[0]] = n
        for _, v in ast.iter_fields(n):
            if isinstance(v, ast.AST):
                go(v)
            elif isinstance(v, list):
                for x in v:
                    if isinstance(x, ast.AST):
                        go(x)
    go(tree)
    return by_id


def g_text(s):
    return "[" + ";".join(str(ord(c)) for c in s) + "]"


def g_tree(n):
    """value of an ast field -> Gallina term of type tree (N_scope is open in the case files)."""
    if isinstance(n, ast.expr_context):
        return "Ctx %d" % CTX_NUM.get(type(n), 9)
    if isinstance(n, ast.AST):
        s, e = getattr(n, "region", (0, 0))
        kids = []
        for _, v in ast.iter_fields(n):
            kids.append(g_tree(v))
        return "Node %d %d %d %d [%s]" % (getattr(n, "_vid", 0) if not isinstance(n, _NOID) else 0,
                                          s, e, class_num(type(n)), ";".join("(%s)" % k if " " in k else k for k in kids))
    if isinstance(n, (list, tuple)):
        return "Lst [%s]" % ";".join("(%s)" % k if " " in k else k for k in (g_tree(x) for x in n))
    return "Atom %d %s" % (ATOM_TYPES.get(type(n), 8), g_text(n if isinstance(n, str) else repr(n)))


# ----------------------------------------------------------------------------- independent tree dump
def dump(n):
    """structure of a value modulo expr_context, positions and node identity (CPython ast only)."""
    if isinstance(n, ast.AST):
        return (type(n).__name__,) + tuple(
            (f, dump(getattr(n, f))) for f in n._fields
            if hasattr(n, f) and not isinstance(getattr(n, f), ast.expr_context))
    if isinstance(n, (list, tuple)):
        return ("[]",) + tuple(dump(x) for x in n)
    return (type(n).__name__, repr(n))


def wild_base(n):
    if isinstance(n, ast.Name):
        if n.id.startswith(NORMAL):
            return n.id[len(NORMAL):]
        if n.id.startswith(ANY):
            return "?" + n.id[len(ANY):]
    return None


def reserved(name):
    return (ANY + name[1:]) if name.startswith("?") else (NORMAL + name)


def parse_pattern(model_text):
    """what RawSimilarFinder._create_pattern yields for the wildcard-substituted text"""
    body = ast.parse(model_text).body
    if len(body) == 1 and isinstance(body[0], ast.Expr):
        return body[0].value
    return body


# ----------------------------------------------------------------------------- brute-force matcher (spec)
def bf_instance(pat, node, exact):
    """node (or list of nodes) is an instance of pat iff walking both in parallel only meets equal
    classes / equal atoms outside wildcards, every wildcard position holds an expression, all positions
    of one wildcard hold equal code, and an `exact` wildcard holds the Name of the same spelling.
    Returns {wildcard: first node} or None."""
    occ = []

    def walk(p, n):
        w = wild_base(p)
        if w is not None:
            occ.append((w, n))
            return True
        if isinstance(p, ast.AST):
            if type(p) is not type(n):
                return False
            for f in p._fields:
                a, b = getattr(p, f), getattr(n, f)
                if isinstance(a, ast.expr_context):
                    continue
                if not walk(a, b):
                    return False
            return True
        if isinstance(p, list):
            return isinstance(n, list) and len(p) == len(n) and all(walk(x, y) for x, y in zip(p, n))
        return type(p) is type(n) and repr(p) == repr(n)

    if not walk(pat, node):
        return None
    first = {}
    for w, n in occ:
        if not isinstance(n, ast.expr):
            return None
        if w in first:
            if dump(first[w]) != dump(n):
                return None
        else:
            if w in exact and not (isinstance(n, ast.Name) and n.id == w):
                return None
            first[w] = n
    return first


def bf_find(tree, pat, exact):
    res = []
    for n in ast.walk(tree):
        if isinstance(pat, list):
            for f in n._fields:
                v = getattr(n, f, None)
                if isinstance(v, list) and len(v) >= len(pat) and len(pat) > 0:
                    for i in range(len(v) - len(pat) + 1):
                        w = v[i:i + len(pat)]
                        if all(isinstance(x, ast.stmt) for x in w):
                            m = bf_instance(pat, w, exact)
                            if m is not None:
                                res.append((True, w, m))
        elif isinstance(n, ast.expr):
            m = bf_instance(pat, n, exact)
            if m is not None:
                res.append((False, [n], m))
    return res


# ----------------------------------------------------------------------------- pattern derivation
class Offsets:
    def __init__(self, src):
        self.starts = [0]
        for ln in src.split("\n")[:-1]:
            self.starts.append(self.starts[-1] + len(ln) + 1)

    def start(self, n):
        return self.starts[n.lineno - 1] + n.col_offset

    def end(self, n):
        return self.starts[n.end_lineno - 1] + n.end_col_offset


WNAMES = ["a", "x", "w", "?v", "n1", "?a"]


def leaves_of(stmt):
    return [n for n in ast.walk(stmt) if isinstance(n, (ast.Name, ast.Constant)) and hasattr(n, "lineno")]


def shape(stmt):
    """dump with Name / Constant leaves blanked"""
    def go(n):
        if isinstance(n, (ast.Name, ast.Constant)):
            return "_"
        if isinstance(n, ast.AST):
            return (type(n).__name__,) + tuple(go(getattr(n, f)) for f in n._fields
                                               if hasattr(n, f) and not isinstance(getattr(n, f), ast.expr_context))
        if isinstance(n, list):
            return tuple(go(x) for x in n)
        return repr(n)
    return go(stmt)


def find_runs(stmt_lists):
    """(list, a, b): maximal runs lst[a:b] of >= 3 consecutive simple statements of one shape"""
    runs = []
    for lst in stmt_lists:
        a = 0
        while a < len(lst):
            b = a + 1
            if not hasattr(lst[a], "body"):
                sh = shape(lst[a])
                while b < len(lst) and not hasattr(lst[b], "body") and shape(lst[b]) == sh:
                    b += 1
            if b - a >= 3:
                runs.append((lst, a, b))
            a = b
    return runs


def differing_leaves(run, window):
    """the leaves of the window's statements at the positions where the statements of the run differ"""
    cols = list(zip(*[leaves_of(s) for s in run]))
    differing = [j for j, col in enumerate(cols) if len({dump(x) for x in col}) > 1]
    out = []
    for s in window:
        lv = leaves_of(s)
        out.extend(lv[j] for j in differing if j < len(lv))
    return out


def derive_pattern(rng, src, tree):
    """Returns dict(user=pattern with ${..}, model=pattern with reserved names, exact=[..], kind=..) or None.
    `tree` is a CPython parse of src (positions used; ASCII sources so columns are offsets)."""
    off = Offsets(src)
    stmt_lists = []
    exprs = []
    for n in ast.walk(tree):
        for f in getattr(n, "_fields", ()):
            v = getattr(n, f, None)
            if isinstance(v, list) and v and all(isinstance(x, ast.stmt) for x in v):
                stmt_lists.append(v)
        if isinstance(n, ast.expr) and not isinstance(n, (ast.Starred, ast.Slice)):
            exprs.append(n)
    if not exprs and not stmt_lists:
        return None
    run_leaves = None
    slotty = [n for n in ast.walk(tree) if is_slotty(n)]
    if slotty and rng.random() < 0.14:
        # a node with optional children: the set ones become wildcards, so that only the slot pattern is left
        root = rng.choice(slotty)
        if isinstance(root, ast.stmt):
            roots, kind = [root], "stmts"
            seg_start, seg_end = stmt_seg_start(off, src, root), off.end(root)
        else:
            roots, kind = [root], "expr"
            seg_start, seg_end = off.start(root), off.end(root)
        run_leaves = [c for c in optional_children(root) if isinstance(c, ast.expr) and hasattr(c, "lineno")]
        return _finish_pattern(rng, src, off, roots, kind, seg_start, seg_end, run_leaves, "optional-slots")
    midline = [st for lst in stmt_lists for st in lst
               if not hasattr(st, "body") and src[off.starts[st.lineno - 1]:off.start(st)].strip()]
    if midline and rng.random() < 0.10:
        # a simple statement that follows another one on its line (`a = 0; b = 2`)
        root = rng.choice(midline)
        return _finish_pattern(rng, src, off, [root], "stmts", off.start(root), off.end(root), None, "midline-stmt")
    if stmt_lists and (not exprs or rng.random() < 0.38):
        runs = find_runs(stmt_lists)
        if runs and rng.random() < 0.55:
            # a 2- or 3-statement window inside a run of unifiable statements; the leaves in which the
            # statements of the run differ become wildcards
            lst, a, b = rng.choice(runs)
            k = min(b - a, rng.choice([2, 2, 3]))
            i = rng.randint(a, b - k)
            run_leaves = differing_leaves(lst[a:b], lst[i:i + k])
        else:
            lst = rng.choice(stmt_lists)
            k = min(len(lst), rng.choice([1, 1, 1, 2, 2, 3]))
            i = rng.randint(0, len(lst) - k)
        roots = lst[i:i + k]
        first_line = min([roots[0].lineno] + [d.lineno for d in getattr(roots[0], "decorator_list", [])])
        seg_start = off.starts[first_line - 1]
        if first_line == roots[0].lineno:
            seg_start = stmt_seg_start(off, src, roots[0])
        seg_end = off.end(roots[-1])
        kind = "stmts"
    else:
        # prefer composite expressions
        comp = [e for e in exprs if not isinstance(e, (ast.Name, ast.Constant))]
        root = rng.choice(comp) if comp and rng.random() < 0.85 else rng.choice(exprs)
        roots = [root]
        seg_start, seg_end = off.start(root), off.end(root)
        kind = "expr"
    return _finish_pattern(rng, src, off, roots, kind, seg_start, seg_end, run_leaves,
                           "run-window" if run_leaves is not None else kind)


def stmt_seg_start(off, src, stmt):
    """start of the line, unless another statement precedes on the line (`a = 0; b = 2`)"""
    line_start = off.starts[stmt.lineno - 1]
    return line_start if not src[line_start:off.start(stmt)].strip() else off.start(stmt)


def is_slotty(n):
    if isinstance(n, ast.Subscript) and isinstance(n.slice, ast.Slice):
        return True
    if isinstance(n, ast.Raise) and n.exc is not None:
        return True
    if isinstance(n, ast.AnnAssign) and isinstance(n.target, ast.Name):
        return True
    if isinstance(n, ast.Return) and n.value is not None:
        return True
    return isinstance(n, ast.Dict) and any(k is None for k in n.keys) and len(n.keys) >= 2


def optional_children(n):
    if isinstance(n, ast.Subscript):
        return [c for c in (n.slice.lower, n.slice.upper, n.slice.step) if c is not None]
    if isinstance(n, ast.Raise):
        return [c for c in ([n.exc.args[0]] if isinstance(n.exc, ast.Call) and n.exc.args else [n.exc]) + [n.cause]
                if c is not None]
    if isinstance(n, ast.AnnAssign):
        return [c for c in (n.value,) if c is not None] if n.value is not None else [n.annotation]
    if isinstance(n, ast.Return):
        return [n.value]
    if isinstance(n, ast.Dict):
        return [k for k in n.keys if k is not None]
    return []


def _finish_pattern(rng, src, off, roots, kind, seg_start, seg_end, run_leaves, label):
    # candidate sub-expressions to abstract
    inner = []
    for r in roots:
        for n in ast.walk(r):
            if isinstance(n, ast.expr) and hasattr(n, "lineno"):
                if kind == "expr" and n is roots[0] and rng.random() < 0.93:
                    continue
                inner.append(n)
    rng.shuffle(inner)
    chosen = []
    want = rng.choice([0, 1, 1, 2, 2, 3, 4])
    if run_leaves is not None:
        inner = run_leaves
        want = len(run_leaves)
    for n in inner:
        if len(chosen) >= want:
            break
        s, e = off.start(n), off.end(n)
        if s < seg_start or e > seg_end or s == e:
            continue
        if any(not (e <= cs or ce <= s) for (cs, ce, _) in chosen):
            continue
        chosen.append((s, e, n))
    chosen.sort(key=lambda t: t[0])
    names = {}
    exact = []
    assigned = []
    pool = list(WNAMES)
    rng.shuffle(pool)
    for (s, e, n) in chosen:
        d = dump(n)
        w = None
        same = [aw for (ad, aw) in assigned if ad == d]
        if same and rng.random() < 0.6:
            w = same[0]
        elif assigned and rng.random() < 0.15:
            w = rng.choice(assigned)[1]              # same wildcard for unequal code: must be rejected here
        elif isinstance(n, ast.Name) and rng.random() < 0.25 and n.id not in [aw for _, aw in assigned]:
            w = n.id
            if rng.random() < 0.25:               # an `exact` wildcard spelled differently: no instance here
                others = [x for x in c19_gen.NAMES if x != n.id and x not in [aw for _, aw in assigned]]
                w = rng.choice(others) if others else w
            if rng.random() < 0.7:
                exact.append(w)
        else:
            free = [p for p in pool if p not in [aw for _, aw in assigned]]
            w = free[0] if free else "z%d" % len(assigned)
        assigned.append((d, w))
        names[(s, e)] = w

    def build(fmt):
        text = src
        end = seg_end
        for (s, e, _n) in reversed(chosen):
            rep = fmt(names[(s, e)])
            text = text[:s] + rep + text[e:]
            end += len(rep) - (e - s)
        seg = text[seg_start:end]
        if kind == "stmts":
            seg = textwrap.dedent(seg)
        elif "\n" in seg:
            seg = "(" + seg + ")"
        return seg

    user = build(lambda w: "${%s}" % w)
    model = build(reserved)
    try:
        parse_pattern(model)
    except SyntaxError:
        return None
    if "\n" not in model and rng.random() < 0.3:
        # the pattern spelled with another layout than the code it was taken from
        model2 = relayout(rng, model)
        try:
            if model2 is not None and dump(parse_pattern(model2)) == dump(parse_pattern(model)):
                model = model2
                user = unreserve(model2)
        except SyntaxError:
            pass
    return {"user": user, "model": model, "exact": exact, "kind": label}


def unreserve(model):
    """reserved identifiers back to ${name}"""
    def back(m):
        return "${%s}" % m.group(1) if m.group(0).startswith(NORMAL) else "${?%s}" % m.group(1)
    return re.sub(r"__rope__variable_(?:normal|any)_(\w*)", back, model)


def relayout(rng, text):
    """the same tokens with other spacing (single-line code)"""
    import io
    import tokenize
    try:
        toks = [t for t in tokenize.generate_tokens(io.StringIO(text).readline)
                if t.type not in (tokenize.NEWLINE, tokenize.NL, tokenize.ENDMARKER, tokenize.INDENT, tokenize.DEDENT)]
    except (tokenize.TokenError, SyntaxError, IndentationError):
        return None
    if any(t.type == tokenize.COMMENT for t in toks) or not toks:
        return None
    lead = text[:len(text) - len(text.lstrip(" "))]
    out = [toks[0].string]
    for prev, cur in zip(toks, toks[1:]):
        a, b = prev.string[-1], cur.string[0]
        wordy = lambda ch: ch.isalnum() or ch in "_'\"."          # noqa: E731
        if wordy(a) and wordy(b) and not (a == "." and prev.string == ".") and not (b == "." and cur.string == "."):
            sep = " "
        else:
            sep = rng.choice(["", " ", " ", "  "])
        out.append(sep + cur.string)
    return lead + "".join(out)



# ----------------------------------------------------------------------------- rope driver
class Rope:
    def __init__(self):
        from rope.base import libutils, project
        self.dir = tempfile.mkdtemp(prefix="ropeverif-")
        self.project = project.Project(self.dir, ropefolder=None)
        self.libutils = libutils
        self._cache = {}

    def close(self):
        try:
            self.project.close()
        finally:
            shutil.rmtree(self.dir, ignore_errors=True)

    def finder(self, src, mode, exact=()):
        """returns (finder, tree, by_id); the tree is numbered once.  One finder per wildcard arguments; re-use of a
        SimilarFinder with other arguments is exercised separately by finder_reuse_stream."""
        key = (src, mode, tuple(exact) if mode != "raw" else ())
        if key not in self._cache:
            from rope.refactor import similarfinder
            if len(self._cache) > 8:
                self._cache.clear()
            with warnings.catch_warnings():
                warnings.simplefilter("ignore")
                if mode == "raw":
                    f = similarfinder.RawSimilarFinder(src)
                    tree = f.ast
                else:
                    pm = self.libutils.get_string_module(self.project, src)
                    f = similarfinder.SimilarFinder(pm)
                    tree = pm.get_ast()
            by_id = number_tree(tree)
            self._cache[key] = (f, tree, by_id)
        return self._cache[key]

    def matches(self, src, mode, pattern, exact, start, end, skip):
        f, tree, _ = self.finder(src, mode, exact)
        if mode == "raw":
            ms = list(f.get_matches(pattern, start=start, end=end, skip=skip))
        else:
            args = {w: "exact" for w in exact}
            if skip is not None:
                args[""] = {"skip": (None, skip)}
            ms = list(f.get_matches(pattern, args, start=start, end=end))
        return tree, ms


def obs_of_match(m):
    from rope.refactor import similarfinder
    if isinstance(m, similarfinder.StatementMatch):
        return (True, [n._vid for n in m.ast_list], [(k, v._vid) for k, v in m.mapping.items()])
    return (False, [m.ast._vid], [(k, v._vid) for k, v in m.mapping.items()])


# ----------------------------------------------------------------------------- oracle on rope's result
def instantiate(pat, mapping):
    """pattern ast with every wildcard replaced by the bound node (tree-level substitution)."""
    class T(ast.NodeTransformer):
        def visit_Name(self, node):
            w = wild_base(node)
            if w is not None and w in mapping:
                return mapping[w]
            return node
    import copy
    if isinstance(pat, list):
        return [T().visit(copy.deepcopy(p)) for p in pat]
    return T().visit(copy.deepcopy(pat))


ATOMIC = (ast.Name, ast.Constant, ast.Attribute, ast.Subscript, ast.Call, ast.List, ast.Dict, ast.Set,
          ast.ListComp, ast.SetComp, ast.DictComp, ast.JoinedStr)


def needs_no_parens(b, text):
    """bound code that can (or must) be inserted as it is"""
    if isinstance(b, ast.Constant) and isinstance(b.value, (int, float, complex)) and not isinstance(b.value, bool):
        return False                      # 10.q is no attribute access
    if "\n" in text and not isinstance(b, (ast.Starred, ast.Slice)) and not _has_slice(b):
        return False                      # code spanning lines (adjacent string pieces) needs brackets of its own
    if isinstance(b, ATOMIC) or isinstance(b, (ast.Starred, ast.Slice)) or _has_slice(b):
        return True
    return isinstance(b, (ast.Tuple, ast.GeneratorExp)) and text.startswith("(") and text.endswith(")")


def oracle(src, case, tree, ms):
    """Returns None or (category, description) of the first failed clause.  Independent of the Coq model; uses
    rope only for the `region` attributes of the nodes it reported.  The category is structural (it is the
    signature under which a known finding is recognised)."""
    pat = parse_pattern(case["model"])
    exact = set(case["exact"]) if case["mode"] != "raw" else set()
    start = case["start"]
    end = len(src) if case["end"] is None else case["end"]
    skip = case["skip"]
    seen = []
    for m in ms:
        stmt, nodes, mapping = m
        # (1) instance: tree-level substitution gives the matched code
        target = nodes if stmt else nodes[0]
        if stmt != isinstance(pat, list):
            return ("kind", "match kind differs from pattern kind")
        got = instantiate(pat, mapping)
        if dump(got) != dump(target):
            return ("instance", "substituting the bound nodes into the pattern does not give the matched code")
        for w, b in mapping.items():
            if not isinstance(b, ast.expr):
                return ("non-expression", "wildcard %s bound to a non-expression" % w)
            if w in exact and not (isinstance(b, ast.Name) and b.id == w):
                return ("exact", "exact wildcard %s bound to other code" % w)
        # (2) text-level: the texts of the bound regions (parenthesised unless atomic) substituted into the pattern
        texts = {w: src[b.region[0]:b.region[1]] for w, b in mapping.items()}
        sliced = any(isinstance(b, ast.Slice) or _has_slice(b) for b in mapping.values())
        txt = None if sliced and wild_base(pat) is None else text_substitute(case["user"], texts, {w: needs_no_parens(b, texts[w]) for w, b in mapping.items()})
        if txt is not None:
            cat = "bound-text" + shape_of(src, mapping.values())
            try:
                if sliced:                            # the pattern is one wildcard and holds a slice
                    reparsed = ast.parse("_[" + txt + "]", mode="eval").body.slice
                else:
                    reparsed = parse_pattern(txt)
            except SyntaxError:
                return (cat, "bound texts substituted into the pattern do not parse: %r" % txt[:120])
            if dump(reparsed) != dump(target):
                return (cat, "bound texts substituted into the pattern parse to different code: %r" % txt[:120])
        # (3) region
        s = nodes[0].region[0]
        e = nodes[-1].region[1]
        if not (start <= s and e <= end):
            return ("region", "match (%d, %d) outside the requested region (%d, %d)" % (s, e, start, end))
        if skip is not None and skip[0] < e and skip[1] > s:
            return ("region", "match (%d, %d) overlaps the skip region" % (s, e))
        # the region of an expression match holds the matched code
        if not stmt and not isinstance(nodes[0], ast.Slice) and not _has_slice(nodes[0]):
            cat = "match-text" + shape_of(src, nodes)
            try:
                if isinstance(nodes[0], ast.Starred):
                    again = ast.parse("f(" + src[s:e] + ")", mode="eval").body.args[0]
                else:
                    again = ast.parse("(" + src[s:e] + ")", mode="eval").body
                if dump(again) != dump(nodes[0]):
                    return (cat, "text of the match region is not the matched code: %r" % src[s:e][:80])
            except (SyntaxError, IndexError):
                return (cat, "text of the match region does not parse: %r" % src[s:e][:80])
        seen.append((stmt, tuple(id(n) for n in nodes)))
    if len(set(seen)) != len(seen):
        return ("duplicate", "the same match is reported twice")
    # (4) completeness against the brute-force matcher
    want = []
    for (stmt, nodes, mapping) in bf_find(tree, pat, exact):
        s = nodes[0].region[0]
        e = nodes[-1].region[1]
        if start <= s and e <= end and not (skip is not None and skip[0] < e and skip[1] > s):
            want.append((stmt, tuple(id(n) for n in nodes), tuple(sorted((w, id(b)) for w, b in mapping.items()))))
    got = [(stmt, tuple(id(n) for n in nodes), tuple(sorted((w, id(b)) for w, b in mapping.items())))
           for (stmt, nodes, mapping) in ms]
    missing = [w for w in want if w not in got]
    extra = [g for g in got if g not in want]
    if missing:
        return ("incomplete", "%d instance(s) inside the region not reported" % len(missing))
    if extra:
        return ("spurious", "%d reported match(es) the brute-force matcher does not find" % len(extra))
    return None


def shape_of(src, nodes):
    """structural suffix of an oracle category: the known region defects of patchedast, recognised by what
    they do (Starred whose region is its operand's region; one-element tuple whose region text is no tuple)."""
    for b in nodes:
        if isinstance(b, ast.Starred) and getattr(b, "region", None) == getattr(b.value, "region", 0):
            return ":starred"
    for b in nodes:
        if isinstance(b, ast.Tuple) and len(b.elts) == 1 and hasattr(b, "region"):
            try:
                again = ast.parse("(" + src[b.region[0]:b.region[1]] + ")", mode="eval").body
            except SyntaxError:
                again = None
            if again is None or dump(again) != dump(b):
                return ":tuple1"
    return ""


def has_try_else_finally(src):
    try:
        tree = ast.parse(src)
    except SyntaxError:
        return False
    return any(isinstance(n, (ast.Try, getattr(ast, "TryStar", ast.Try))) and n.handlers and n.orelse and n.finalbody
               for n in ast.walk(tree))


def _has_slice(n):
    return any(isinstance(x, ast.Slice) for x in ast.walk(n)) and isinstance(n, ast.Tuple)


def cut_template(text):
    """[(is_var, text)] -- the harness's own cutting of ${name}: occurrences inside a string literal or a
    comment are literal text (rope's CodeTemplate skips them with a regex; this is a plain scanner; the code
    generated here uses one-line '...' / "..." strings without escapes)."""
    out = []
    lit = []
    i, n = 0, len(text)
    quote = None
    comment = False
    while i < n:
        ch = text[i]
        if comment:
            if ch == "\n":
                comment = False
            lit.append(ch)
            i += 1
        elif quote:
            if ch == quote:
                quote = None
            lit.append(ch)
            i += 1
        elif ch in "'\"":
            quote = ch
            lit.append(ch)
            i += 1
        elif ch == "#":
            comment = True
            lit.append(ch)
            i += 1
        elif text.startswith("${", i):
            m = re.match(r"\$\{([^}\s$]*)\}", text[i:])
            if m:
                if lit:
                    out.append((False, "".join(lit)))
                    lit = []
                out.append((True, m.group(1)))
                i += m.end()
            else:
                lit.append(ch)
                i += 1
        else:
            lit.append(ch)
            i += 1
    if lit:
        out.append((False, "".join(lit)))
    return out


def text_substitute(user, texts, bare):
    """own positional substitution of the ${name} occurrences of a pattern (those outside strings/comments)"""
    out = []
    for is_var, t in cut_template(user):
        if not is_var:
            out.append(t)
        elif t not in texts:
            return None
        else:
            out.append(texts[t] if bare[t] else "(" + texts[t] + ")")
    return "".join(out)


# ----------------------------------------------------------------------------- one case
def run_case(rope, case):
    """Runs rope; returns dict(obs=..., oracle=..., term=Gallina case or None, n=number of matches)."""
    src = case["source"]
    res = {"error": None, "oracle": None, "term": None, "n": 0, "obs": None}
    try:
        tree, ms = rope.matches(src, case["mode"], case["user"], case["exact"], case["start"], case["end"], case["skip"])
    except Exception as e:   # patchedast refusing a source belongs to C08; anything else is reported
        res["error"] = "%s: %s" % (type(e).__name__, e)
        return res
    obs = [obs_of_match(m) for m in ms]
    res["obs"] = obs
    res["n"] = len(ms)
    plain = []
    from rope.refactor import similarfinder
    for m in ms:
        if isinstance(m, similarfinder.StatementMatch):
            plain.append((True, list(m.ast_list), dict(m.mapping)))
        else:
            plain.append((False, [m.ast], dict(m.mapping)))
    res["multi_piece"] = any(
        isinstance(x, ast.Constant) and isinstance(x.value, str) and hasattr(x, "region")
        and "\n" in src[x.region[0]:x.region[1]] and "#" in src[x.region[0]:x.region[1]]
        for (_st, nodes, mp) in plain for top in list(nodes) + list(mp.values()) for x in ast.walk(top))
    res["oracle"] = oracle(src, case, tree, plain)
    res["tree"] = tree
    return res


def g_case(body_name, case, obs, src_len):
    pat = ast.parse(case["model"])
    exact = case["exact"] if case["mode"] != "raw" else []
    end = src_len if case["end"] is None else case["end"]
    skip = "None" if case["skip"] is None else "(Some (%d, %d))" % tuple(case["skip"])
    o = g_list(["{| o_stmt := %s; o_ids := [%s]; o_map := [%s] |}" % (
        "true" if st else "false", ";".join(str(i) for i in ids),
        ";".join("(%s, %d)" % (g_text(k), v) for k, v in mp)) for (st, ids, mp) in obs])
    return ("{| c_body := %s; c_user := %s; c_model := %s; c_pat := %s; c_exact := [%s]; c_start := %d; c_end := %d; "
            "c_skip := %s; c_obs := %s |}"
            % (body_name, g_text(case["user"]), g_text(case["model"]), g_tree(pat), ";".join(g_text(w) for w in exact),
               case["start"], end, skip, o))


HEADER = ("From Coq Require Import List NArith Bool.\nImport ListNotations.\n"
          "From RopeVerif.C19 Require Import Tree Matcher Restructure CodeTemplate Runner.\nOpen Scope N_scope.\n")


def pick_region(rng, src, tree):
    """(start, end, skip)"""
    n = len(src)
    r = rng.random()
    cuts = sorted({0, n} | {m.start() for m in __import__("re").finditer(r"\n", src)} |
                  {rng.randint(0, n) for _ in range(3)})
    if r < 0.45:
        start, end = 0, None
    else:
        a, b = sorted([rng.choice(cuts), rng.choice(cuts)])
        start, end = a, (b if rng.random() < 0.85 else None)
    skip = None
    if rng.random() < 0.25:
        a, b = sorted([rng.randint(0, n), rng.randint(0, n)])
        skip = (a, b)
    return start, end, skip


def gen_cases(ctx, n_modules, per_module):
    rng = ctx.rng
    cases = []
    for _ in range(n_modules):
        src = c19_gen.gen_module(rng, rich=rng.random() < 0.8)
        tree = ast.parse(src)
        for _ in range(per_module):
            p = None
            for _try in range(6):
                p = derive_pattern(rng, src, tree)
                if p is not None:
                    break
            if p is None:
                ctx.count("match:pattern_derivation_failed")
                continue
            start, end, skip = pick_region(rng, src, tree)
            mode = "raw" if rng.random() < 0.5 else "similar"
            cases.append({"kind": "match", "source": src, "user": p["user"], "model": p["model"],
                          "exact": p["exact"], "pkind": p["kind"], "mode": mode,
                          "start": start, "end": end, "skip": skip})
    return cases


FIXED = [
    # (source, pattern)
    ("a = 1 + 2\nb = (1 + 2) * 3\n", "1 + 2"),
    ("x = f(a, a)\ny = f(a, b)\nz = f(b + 1, b+1)\n", "f(${p}, ${p})"),
    ("a = 1\nb = 2\na = 1\nb = 2\nc = 3\n", "a = 1\nb = 2"),
    ("a = False\nb = 0\nc = 0.0\nd = 0\n", "0"),
    ("x = y = 1\nx = x + 1\n", "${x} = ${x} + 1"),
    ("if a:\n    pass\n    pass\n    pass\n", "pass\npass"),
    ("d = {**a, 1: 2}\ne = {a: 1, 1: 2}\n", "{${k}: 1, 1: 2}"),
    ("def f(a, *, b=1, c):\n    global u, v\n    return a\n", "return ${?r}"),
    ("x = u'a'\ny = 'a'\n", "'a'"),
    ("t = a[1:2]\nu = a[b]\n", "a[${i}]"),
    ("f(*a)\nf(b)\n", "f(${z})"),
    ("__rope__variable_normal_z + 5\n", "${a} + ${a}"),      # module using a reserved identifier (open finding)
]


def run_match_cases(ctx, cases):
    rope = Rope()
    try:
        modules = {}
        terms = []          # (module name, case term, case index)
        results = []
        for idx, case in enumerate(cases):
            r = run_case(rope, case)
            results.append(r)
            if r["error"] is not None:
                continue
            src = case["source"]
            key = (src, case["mode"])
            if key not in modules:
                modules[key] = ("b%d" % len(modules), g_tree(r["tree"]))
            terms.append((modules[key][0], g_case(modules[key][0], case, r["obs"], len(src)), idx))
    finally:
        rope.close()
    # Coq evaluation, sharded by module definitions
    shard = 160
    bodies, index_maps = [], []
    for s in range(0, len(terms), shard):
        part = terms[s:s + shard]
        used = []
        for (bn, _, _) in part:
            if bn not in used:
                used.append(bn)
        defs = "".join("Definition %s : tree := %s.\n" % (bn, [v for (k, v) in modules.values() if k == bn][0])
                       for bn in used)
        bodies.append(HEADER + defs + "Definition cases : list case := [\n%s].\n"
                      "Eval vm_compute in (mismatches cases).\nEval vm_compute in (count_dom cases).\n"
                      "Eval vm_compute in (count_matches cases).\n" % ";\n".join(t for (_, t, _) in part))
        index_maps.append([i for (_, _, i) in part])
    outs = ctx.coq_files_parallel(bodies) if bodies else []
    mism = {}
    dom = nmatch = 0
    for out, imap in zip(outs, index_maps):
        pairs = ctx.parse_pairs(out)
        for (i, code) in (pairs[0] if pairs else []):
            mism[imap[i]] = code
        nums = ctx.parse_nums(out)
        if len(nums) >= 2:
            dom += nums[-2][0]
            nmatch += nums[-1][0]
    ctx.extra["match_cases_in_theorem_domain"] = ctx.extra.get("match_cases_in_theorem_domain", 0) + dom
    ctx.extra["model_matches_total"] = ctx.extra.get("model_matches_total", 0) + nmatch
    for idx, (case, r) in enumerate(zip(cases, results)):
        replay = {k: case[k] for k in ("kind", "source", "user", "model", "exact", "mode", "start", "end", "skip")}
        if r["error"] is not None:
            ctx.count("match:rope_raised:" + r["error"].split(":")[0])
            ctx.case(("match-error", case["source"], case["user"]), nontrivial=False)
            if not r["error"].startswith("MismatchedTokenError"):
                cat = "crash:try-else-finally" if (r["error"].startswith("AttributeError") and "region" in r["error"]
                                                   and has_try_else_finally(case["source"])) else "crash"
                ctx.violation(dict(replay, category=cat, observed=r["error"]),
                              "C19 matching: rope raised %s on pattern %r" % (r["error"][:120], case["user"][:80]))
            continue
        nontrivial = r["n"] > 0
        ctx.case(("match", case["source"], case["user"], case["mode"], case["start"], case["end"], case["skip"],
                  tuple(case["exact"])), nontrivial=nontrivial)
        ctx.traces += 1
        ctx.count("match:mode=" + case["mode"])
        ctx.count("match:pattern=" + case.get("pkind", "fixed"))
        ctx.count("match:matches=%s" % (r["n"] if r["n"] < 3 else "3+"))
        if case["skip"] is not None or case["start"] or case["end"] is not None:
            ctx.count("match:restricted_region")
        if case["exact"] and case["mode"] != "raw":
            ctx.count("match:exact_wildcard")
        if any(len(set(v for k, v in mp)) < len(mp) for (_, _, mp) in r["obs"]):
            ctx.count("match:two_wildcards_same_node")
        if r.get("multi_piece"):
            ctx.count("match:bound_or_matched_multi_piece_string_with_comment")
        if r["oracle"]:
            ctx.violation(dict(replay, category=r["oracle"][0], observed=r["oracle"][1]),
                          "C19 matching: %s; pattern %r mode %s" % (r["oracle"][1], case["user"][:80], case["mode"]))
        elif idx in mism:
            what = {1: "match list differs from the model's", 3: "model match is not an instance",
                    4: "CodeTemplate model cuts the pattern differently"}.get(mism[idx], "code %d" % mism[idx])
            found = neighbourhood(case)
            if found is None:
                ctx.violation(dict(replay, mismatch=what,
                                   broken="correspondence RopeVerif.C19.Runner.run_case (model Matcher.get_matches vs "
                                          "rope/refactor/similarfinder.py); theorems C19_match_sound / C19_match_complete / "
                                          "C19_find_all no longer speak about the code"),
                              "C19 matching: %s; pattern %r" % (what, case["user"][:80]), no_input=True)
            else:
                ctx.violation(found, "C19 matching: %s; pattern %r" % (found["observed"], found["user"][:80]))
        if ctx.too_many():
            break
    return results


def neighbourhood(case):
    """the oracle passed but model and rope disagree: try the same pattern on every region variant and
    both drivers."""
    rope = Rope()
    try:
        for mode in ("raw", "similar"):
            for (start, end, skip) in [(0, None, None), (case["start"], case["end"], case["skip"])]:
                c = dict(case, mode=mode, start=start, end=end, skip=skip)
                r = run_case(rope, c)
                if r["oracle"]:
                    out = {k: c[k] for k in ("kind", "source", "user", "model", "exact", "mode", "start", "end", "skip")}
                    out["category"], out["observed"] = r["oracle"]
                    return out
    finally:
        rope.close()
    return None


def fixed_cases():
    cases = []
    for src, user in FIXED:
        model = user
        import re
        model = re.sub(r"\$\{([^}]*)\}", lambda m: reserved(m.group(1)), user)
        for mode in ("raw", "similar"):
            cases.append({"kind": "match", "source": src, "user": user, "model": model, "exact": [], "pkind": "fixed",
                          "mode": mode, "start": 0, "end": None, "skip": None})
    return cases


def run(ctx):
    ctx.rule = ("matching: random modules (harness/c19_gen.py: 4-12 top-level statements over 5 names, sub-expressions "
                "re-used from a per-module pool, runs of 3-6 equal or unifiable consecutive statements also inside blocks, "
                "string literals spelling ${name} of the wildcard names, layout variation); patterns = source of a random "
                "expression or window of 1-3 statements of the module (2-3 statement windows inside a run with the differing "
                "leaves as wildcards: chains of mutually overlapping instances; nodes whose optional children are set in different "
                "slots -- slices, raise/from, annotated assignments, dicts with ** -- with the set children as wildcards; a third of the "
                "one-line patterns re-spelled with another layout; PEP 515 number spellings) with 0-4 sub-expressions abstracted into wildcards (same wildcard for "
                "equal code, sometimes for unequal code; ${?x} and `exact` wildcards), random region and skip region, "
                "RawSimilarFinder or SimilarFinder; non-trivial = at least one match reported; distinct by "
                "(source, pattern, driver, region, exact). restructuring: see coverage.restructure_rule")
    cases = fixed_cases() + gen_cases(ctx, ctx.scale(110, 900), ctx.scale(8, 10))
    results = run_match_cases(ctx, cases)
    for case, r in list(zip(cases, results))[24:27]:
        ctx.sample({"source": case["source"][:400], "pattern": case["user"], "driver": case["mode"],
                    "region": [case["start"], case["end"]], "skip": case["skip"], "matches": repr(r.get("obs"))[:300]})
    from harness import c19_restructure
    if not ctx.too_many():
        finder_reuse_stream(ctx, [c for c in cases if c["mode"] == "similar" and c["exact"]][:ctx.scale(25, 200)])
    if not ctx.too_many():
        c19_restructure.run(ctx)


def finder_reuse_stream(ctx, cases):
    """one SimilarFinder asked for the same pattern first with the `exact` arguments, then without"""
    from harness import c19_restructure
    for case in cases:
        obj = {"kind": "finder-reuse", "source": case["source"], "user": case["user"],
               "args1": {w: "exact" for w in case["exact"]}, "args2": {}}
        try:
            bad = c19_restructure.finder_reuse_fails(obj)
        except Exception as e:
            if type(e).__name__ == "MismatchedTokenError":
                continue
            cat = "crash:try-else-finally" if (isinstance(e, AttributeError) and "region" in str(e)
                                               and has_try_else_finally(case["source"])) else "crash"
            ctx.violation(dict(obj, category=cat, observed="%s: %s" % (type(e).__name__, e)),
                          "C19: SimilarFinder raised %s: %s" % (type(e).__name__, str(e)[:120]))
            continue
        ctx.case(("finder-reuse", case["source"], case["user"], tuple(case["exact"])), nontrivial=bad)
        ctx.count("finder_reuse:" + ("stale" if bad else "same"))
        if bad:
            ctx.violation(obj, "C19: a SimilarFinder asked again with other wildcard arguments returns the first call's matches; "
                               "pattern %r" % case["user"][:80])


def replay(ctx, obj):
    if obj.get("kind") == "match":
        rope = Rope()
        try:
            r = run_case(rope, obj)
        finally:
            rope.close()
        if r["error"] is not None:
            return not r["error"].startswith("MismatchedTokenError")
        return bool(r["oracle"])
    from harness import c19_restructure
    return c19_restructure.replay(ctx, obj)


def signature(obj):
    if obj.get("kind") == "match":
        cat = str(obj.get("category", ""))
        if cat.endswith(":starred") or cat.endswith(":tuple1"):
            return "region:" + cat.rsplit(":", 1)[1]
        if cat.startswith("crash:"):
            return "restructure:" + cat
        if cat == "instance" and "__rope__variable_" in str(obj.get("source", "")):
            return "match:reserved-name"          # the module itself uses rope's reserved identifiers
        return "match:" + cat
    from harness import c19_restructure
    return c19_restructure.signature(obj)
