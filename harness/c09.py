"""C09 — computing changes is pure; performing them touches only what was announced.

Generated worlds (harness/c09_lib.py: a multi-module project with ignored resources, importing from a sibling
out-of-project folder) x every refactoring kind x offsets of every category (identifier start/middle/end,
keyword, operator, string, comment, whitespace, end of file, past the end) x argument variations (valid and
malformed names, `resources=` restrictions).  Every request is served under `sys.addaudithook` with full
snapshots (path, type, bytes, mtime_ns) of the folder that contains the project root AND the out-of-project
folder, before computing, after computing, after Project.do and after History.undo().

Independent oracle (knows nothing of the model), per request:
  P1 computing (constructor + get_changes + get_description + get_changed_resources) audits no writing event
     and leaves the snapshot identical (mtime included);
  P2 an exception out of the computation is a rope.base.exceptions.RopeError subclass;
  P3 after Project.do every path whose type/bytes/mtime differ is an announced resource or lies below one,
     every announced resource belongs to the project, is not ignored and lies below the project root, the
     out-of-project folder and every ignored resource are untouched (same after History.undo());
  P4 get_description() of every ChangeContents, applied as a unified diff to the file as it was, gives the
     bytes that were written; the composite description is the documented concatenation;
  P5 an exception out of Project.do is a RopeError subclass and leaves the bytes of the tree as they were;
  P7 a performed MoveResource landed at the announced destination (source gone, destination holds the same entries);
  P6 with resources=R every edited file is in R or is the file holding the selected name (rope edits that file
     for local names whatever R says; counted as an observation).
Besides the one-request-per-fresh-project stream there are multi-step SESSIONS on one live project (nothing is
reopened between steps): project-wide renames, random requests of every kind (performed, some undone), modules
retired THROUGH ROPE into the ignored folder, modules replaced OUTSIDE rope by a symbolic link to an out-of-project
copy followed by project.validate(); and performs under a TaskHandle stopped at notification 0, 1, 2, ... (every
refused attempt must leave the disk untouched).  P1-P6 are applied after every step.
  P8 Project.is_ignored answers, for every resource of the world, what the generator built (and, inside Coq, what
     the pattern model of coq/C09/Ignore.v computes, also for paths that do not exist).
Correspondence (inside Coq, coq/C09/Runner.v): the change tree rope returned is run by the model (C10's
history_do / history_undo on the real paths, C09's traced run) on the abstracted disk tree; compared: raised
flag and exception class, tree after do, trace of mutating primitives (audited vs model), announced set vs
`resources`, tree and trace after undo; and the facts the theorems predict are evaluated on the OBSERVED
trees and traces for every case inside the theorems' domain (all_in_root).
"""
import json
import os
import shutil

from harness import c09_lib as L
from harness.common import g_N, g_nat, g_bool, g_list, g_pair

PROPERTY = "C09"
HEADER = ("From Coq Require Import List NArith Bool.\nImport ListNotations.\n"
          "From RopeVerif.C10 Require Import FsModel Change.\n"
          "From RopeVerif.C09 Require Import Footprint Runner.\n")

NAMES_OK = ["nn", "nn", "nn", "f", "v"]
NAMES_BAD = ["1x", "", "../evil", "a.b", "class", "x y", "pkg/x"]
OFFSET_KINDS = ["rename", "inline", "change_signature", "move", "encapsulate_field", "introduce_factory",
                "introduce_parameter", "local_to_field", "method_object", "use_function"]
TAKES_RESOURCES = {"rename", "inline", "change_signature", "move", "encapsulate_field", "introduce_factory",
                   "restructure", "use_function"}


# ------------------------------------------------------------------------------------------ generator
def pick_name(rng, bad=0.12):
    return rng.choice(NAMES_BAD) if rng.random() < bad else rng.choice(NAMES_OK)


def gen_requests(rng, world, density):
    """density in (0,1]: share of the non-identifier offsets that is tried (identifier offsets: all)"""
    pf = L.python_files(world)
    folders = sorted(set(os.path.dirname(p) for p in pf if "/" in p))
    reqs = []

    def restrict(req):
        if req["kind"] in TAKES_RESOURCES and rng.random() < 0.2:
            k = rng.randint(0, len(pf))
            req["resources"] = sorted(rng.sample(pf, k))
        return req
    for p in pf:
        text = world["files"]["proj/" + p]
        for off in L.interesting_offsets(text):
            cat = L.offset_category(text, off)
            for kind in OFFSET_KINDS:
                if cat not in ("identifier", "identifier-end") and rng.random() > density:
                    continue
                if cat in ("identifier", "identifier-end") and rng.random() > max(density, 0.55):
                    continue
                req = {"kind": kind, "resource": p, "offset": off}
                if kind in ("rename", "introduce_factory", "introduce_parameter", "method_object"):
                    req["new_name"] = pick_name(rng)
                if kind == "rename":
                    # docs=True at every offset category: at an offset that selects no name rope used to search the
                    # text for '' (hang / IndexError; fixed in repo 3048e16, regression: corpus/C09/rename-docs-hang*.json)
                    if rng.random() < 0.15:
                        req["docs"] = True
                    if rng.random() < 0.1:
                        req["in_hierarchy"] = True
                    if rng.random() < 0.08:
                        req["in_file"] = True
                if kind == "inline":
                    req["remove"] = rng.random() < 0.8
                    req["only_current"] = rng.random() < 0.2
                if kind == "change_signature":
                    req["changer"] = rng.choice(L.CHANGERS)
                    req["new_name"] = "p"
                if kind == "move":
                    req["dest"] = rng.choice([q for q in pf if q != p] + folders + [""])
                if kind == "introduce_factory":
                    req["global_"] = rng.random() < 0.4
                u = rng.random()
                if u < 0.08:
                    req["stop"] = rng.randrange(0, 6)      # perform under a TaskHandle stopped at that notification
                    req["no_undo"] = True
                elif u < 0.16:
                    req["fault"] = rng.randrange(0, 4)     # the file system refuses that mutating call of the perform
                    req["no_undo"] = True
                reqs.append(restrict(req))
        if "def mm(" in text:
            # MoveMethod: destination attribute whose class lives in another project module (hh), in the
            # out-of-project module (ext), or does not exist; with and without resources= excluding the destination
            for dest in ("hh", "ext", "nope"):
                for restr in (None, [q for q in pf if q != "h.py"], [p]):
                    if rng.random() < max(density, 0.6):
                        req = {"kind": "move", "resource": p, "offset": text.index("def mm(") + 4, "dest": dest,
                               "new_name": rng.choice([None, "moved"])}
                        if restr is not None:
                            req["resources"] = sorted(restr)
                        reqs.append(req)
        for act in L.IMPORT_ACTIONS:
            if rng.random() < max(density, 0.5):
                reqs.append({"kind": "organize_imports", "resource": p, "offset": None, "action": act})
        for (s, e, k) in L.regions(text):
            for kind in ("extract_method", "extract_variable"):
                if rng.random() < max(density, 0.5):
                    reqs.append({"kind": kind, "resource": p, "start": s, "end": e, "new_name": pick_name(rng, 0.08),
                                 "similar": rng.random() < 0.3, "global_": rng.random() < 0.2})
        for _ in range(3):                                   # arbitrary regions (mostly refused)
            s = rng.randrange(0, len(text) + 3)
            e = rng.randrange(s, len(text) + 6)
            reqs.append({"kind": rng.choice(["extract_method", "extract_variable"]), "resource": p, "start": s, "end": e,
                         "new_name": "nm"})
        for nn in ["nn", "../evil", "pkg/x", "1x", "", "b", "x/../../evil", "./nn"]:
            if rng.random() < max(density, 0.6):
                reqs.append({"kind": "rename_module", "resource": p, "offset": None, "new_name": nn})
        for d in folders + ["", "a.py"]:
            if rng.random() < max(density, 0.6):
                reqs.append({"kind": "move_module", "resource": p, "offset": None, "dest": d})
        reqs.append({"kind": "module_to_package", "resource": p})
    for f in folders:                                        # a package moved INTO another existing folder
        for g in folders + [x for x in ("plain",) if ("proj/plain/readme.txt" in world["files"])]:
            if g != f and "/" not in f and "/" not in g:
                reqs.append({"kind": "move_module", "resource": f, "offset": None, "dest": g})
                # hand-built MoveResource(folder, existing folder) as Resource.move builds it (exact=False)
                reqs.append({"kind": "synthetic", "spec": ["CS", "mvdir", [["MV", f, g, True, "as-requested"]]]})
    for f in folders:                                        # packages as resources
        reqs.append({"kind": "rename_module", "resource": f, "offset": None, "new_name": rng.choice(["pk2", "../pk2", "a"])})
        reqs.append({"kind": "move_module", "resource": f, "offset": None, "dest": rng.choice(["", f])})
    for pat, goal in L.RESTRUCTURES:
        reqs.append(restrict({"kind": "restructure", "pattern": pat, "goal": goal}))
    if pf:
        reqs.extend(synthetic_requests(rng, world, pf, folders))
    if "proj2/u.py" in world["files"] and "proj/a.py" in world["files"]:
        text = world["files"]["proj/a.py"]
        for off in L.interesting_offsets(text):
            cat = L.offset_category(text, off)
            if cat in ("identifier", "identifier-end") and rng.random() < 0.5 or rng.random() < density * 0.3:
                reqs.append({"kind": "multi", "refactoring": rng.choice(["rename", "rename", "change_signature"]),
                             "resource": "a.py", "offset": off, "new_name": pick_name(rng, 0.05)})
    rng.shuffle(reqs)
    return reqs


def synthetic_requests(rng, world, pf, folders):
    """hand-built change trees with the leaf kinds the refactorings never produce (RemoveResource, CreateFile,
    CreateFolder, nested sets, refused creations with a rollback); all resources in_root"""
    some = rng.choice(pf)
    other = rng.choice([q for q in pf if q != some] or pf)
    S = [
        ["CS", "s1", [["CR", "newpkg", True, True], ["CR", "newpkg/__init__.py", False, True],
                      ["CC", "newpkg/__init__.py", "x = 1\n"]]],
        ["CS", "s2", [["RM", "notes.txt", False]]],
        ["CS", "s3", [["CC", some, "y = 2\n"], ["CS", "s3b", [["CR", "d1", True], ["MV", other, "d1/" + other.split("/")[-1], False]]]]],
        ["CS", "s4", [["CC", some, "y = 2\n"], ["CR", some, False]]],                   # refused: exists -> rollback
        ["CS", "s5", [["CC", some, "z = 3\n"], ["CR", "nodir/x.py", False]]],           # refused: no parent
        ["CS", "s6", [["CR", "e.txt", False], ["RM", "e.txt", False]]],
        ["CS", "s7", [["MV", some, "moved_" + some.split("/")[-1], False], ["CC", "moved_" + some.split("/")[-1], "q = 0\n"]]],
        ["CC", some, "lonely = 1\n"],
    ]
    # a later change fails at do() time with an OS-level error: everything done before it must be rolled back
    E = [
        ["CS", "e1", [["CC", some, "y = 2\n"], ["MV", other, "nodir/deep/" + other.split("/")[-1], False]]],
        ["CS", "e2", [["CC", some, "y = 2\n"], ["CR", "e_dir", True], ["CC", "missing_%d.py" % rng.randrange(9), "z = 1\n"]]],
        ["CS", "e3", [["MV", some, "moved2_" + some.split("/")[-1], False], ["CC", other, "q = 1\n"], ["RM", "no_such.txt", False]]],
    ]
    for f in folders:
        S.append(["CS", "s8", [["MV", f, f + "2", True], ["CR", f, True]]])
        S.append(["CS", "s9", [["RM", f, True]]])
    out = [{"kind": "synthetic", "spec": spec, "os_error_expected": True, "no_undo": True} for spec in E]
    for spec in S:
        if rng.random() < 0.8:
            req = {"kind": "synthetic", "spec": spec}
            if any(l[0] == "RM" for l in L.leaves(spec)):
                req["no_undo"] = True            # RemoveResource.undo is not implemented (C10's open finding)
            out.append(req)
    return out


def req_offset_category(world, req):
    off = req.get("offset", req.get("start"))
    if off is None or req.get("resource") is None:
        return "none"
    text = world["files"].get("proj/" + req["resource"])
    if text is None:
        return "none"
    if off >= len(text.rstrip("\n")):
        return "end-or-past"
    cat = L.offset_category(text, off)
    if cat in ("identifier", "identifier-end"):
        return "identifier"
    return "non-identifier"


# --------------------------------------------------------------------------------------------- oracle
def root_closure_ok(path, announced_real):
    """path (relative to base) is one of the announced real paths or lies below one"""
    return any(path == a or path.startswith(a + "/") for a in announced_real)


def announced_real_paths(r):
    root = getattr(r, "root", "proj")
    out = []
    for a in r.announced:
        out.append(os.path.normpath(os.path.join(root, *a.split("/"))).replace(os.sep, "/") if a != "" else root)
    return out


def ignored_paths(r):
    """predicate on base-relative paths: ignored by construction (name patterns of the generator), or a symbolic
    link present before the step / anything below one (rope: links are ignored resources); the destination a step
    explicitly asks for (`requested`, e.g. retiring a module into the ignored folder) is exempt for that step"""
    links = [p for p, v in r.s1.items() if v[0] == "l"]
    requested = set(r.req.get("requested", []))

    moved_folders = []
    if r.req.get("kind") in ("rename", "rename_module", "move", "move_module", "module_to_package"):
        # the request names the destination of the module it moves (new name / destination folder)
        root0 = getattr(r, "root", "proj")
        for l in L.leaves(getattr(r, "spec", None) or ["CS", "", []]):
            if l[0] == "MV":
                requested.add(os.path.normpath(os.path.join(root0, *l[2].split("/"))).replace(os.sep, "/"))
    for l in L.leaves(getattr(r, "spec", None) or ["CS", "", []]):
        if l[0] == "MV" and l[3]:          # a folder is moved on request: what it contains moves with it
            root = getattr(r, "root", "proj")
            moved_folders += [os.path.normpath(os.path.join(root, *q.split("/"))).replace(os.sep, "/") for q in (l[1], l[2])]

    def is_ignored(p):
        if p in requested or any(p.startswith(k + "/") for k in moved_folders):
            return False
        return L.is_ignored_by_construction(p) or any(p == k or p.startswith(k + "/") for k in links)
    is_ignored.requested = requested
    return is_ignored


def judge(world, r):
    """-> list of (check id, text).  Independent of the model."""
    bad = []
    req = r.req
    root = getattr(r, "root", "proj")
    is_ignored = ignored_paths(r)
    # P1
    if r.compute_raw:
        bad.append(("P1-write-audited", "writing events while computing: %r" % (r.compute_raw[:4],)))
    d = L.snap_diff(r.s0, r.s1)
    if d:
        bad.append(("P1-snapshot", "snapshot differs after computing at %s" % ", ".join(d[:5])))
    if r.outcome == "changes":
        d = L.snap_diff(r.s1, r.s1b)
        if d:
            bad.append(("P1-snapshot", "snapshot differs after get_description/get_changed_resources at %s" % ", ".join(d[:5])))
    # P2
    if r.exc is not None and not r.exc["rope_error"]:
        bad.append(("P2-crash", "%s out of %s: %s [%s]" % (r.exc["cls"], req["kind"], r.exc["msg"], r.exc["site"])))
    if r.outcome == "hang":
        bad.append(("P2-hang", "%s did not return within %.0f s" % (req["kind"], L.TIME_LIMIT)))
    if r.outcome == "not-a-change":
        bad.append(("P2-crash", "get_changes returned something that is not a Change"))
    if r.outcome != "changes":
        return bad
    # announced resources
    if r.announced_foreign:
        bad.append(("P3-foreign-announced", "out-of-project resources announced: %s" % ", ".join(r.announced_foreign)))
    real = announced_real_paths(r)
    outside = [a for a in real if not (a == root or a.startswith(root + "/"))]
    if outside and not r.announced_foreign:
        bad.append(("P3-outside-announced", "announced resources outside the project root: %s" % ", ".join(outside)))
    ign = [a for a in real if is_ignored(a)]
    by_rope = [a for a in r.announced_ignored_by_rope
               if os.path.normpath(os.path.join(root, *a.split("/"))).replace(os.sep, "/") not in is_ignored.requested]
    if ign or by_rope:
        bad.append(("P3-ignored-announced", "ignored resources announced: %s" % ", ".join(ign or by_rope)))
    if not r.composite_ok:
        bad.append(("P4-composite", "ChangeSet.get_description() is not the concatenation of its children's"))
    # P6
    if req.get("resources") is not None:
        extra = [l[1] for l in L.leaves(r.spec) if l[0] == "CC" and l[1] not in req["resources"]]
        r.restriction_overridden = bool(extra)     # rope edits the file holding the selected name for local names
        extra = [x for x in extra if x != req.get("resource")]
        if req.get("only_current"):
            extra = []      # Inline(only_current=True) names its own working set: this occurrence + the definition
        if extra:
            bad.append(("P6-resources", "files excluded by resources= edited: %s" % ", ".join(extra)))
    if not r.performed:
        return bad
    # P3 after do / undo
    for (a, b, what) in ((r.s1, r.s2, "do"), (r.s2, r.s3, "undo")):
        ch = L.snap_diff(a, b)
        unannounced = [p for p in ch if not root_closure_ok(p, real)]
        if unannounced:
            bad.append(("P3-unannounced", "%s changed unannounced paths: %s" % (what, ", ".join(unannounced[:5]))))
        out = [p for p in ch if not (p == root or p.startswith(root + "/"))]
        if out:
            bad.append(("P3-outside-root", "%s changed paths outside the project root: %s" % (what, ", ".join(out[:5]))))
        ig = [p for p in ch if is_ignored(p)]
        if ig:
            bad.append(("P3-ignored-touched", "%s changed ignored resources: %s" % (what, ", ".join(ig[:5]))))
    # P7: every announced move landed where it was announced ("rename to"): the source is gone, the destination
    # holds what the source held (kind; for folders the same relative entries)
    if r.do_exc is None and (req["kind"] != "synthetic" or any(len(l) > 4 for l in L.leaves(r.spec) if l[0] == "MV")):
        mvs = [l for l in L.leaves(r.spec) if l[0] == "MV"]
        if len(mvs) == 1 and norm(mvs[0][1]) != norm(mvs[0][2]):
            src = os.path.normpath(os.path.join(root, *mvs[0][1].split("/"))).replace(os.sep, "/")
            dst = os.path.normpath(os.path.join(root, *mvs[0][2].split("/"))).replace(os.sep, "/")

            def sub(snap, top):
                return sorted((p[len(top):], v[0]) for p, v in snap.items() if p == top or p.startswith(top + "/"))
            if sub(r.s2, src) and not dst.startswith(src + "/"):
                bad.append(("P7-move-landed", "after the move the source %s still exists" % src))
            elif sub(r.s2, dst) != sub(r.s1, src):
                bad.append(("P7-move-landed", "the announced destination %s does not hold what %s held (the resource "
                            "landed elsewhere)" % (dst, src)))
    # P5
    if r.do_exc is not None:
        env = r.do_exc.get("os_error") and (getattr(r, "fault_fired", False) or req.get("os_error_expected"))
        if not r.do_exc["rope_error"] and not env:       # the refusing file system / a hand-built impossible move:
            bad.append(("P5-perform-crash", "Project.do raised %s: %s" % (r.do_exc["cls"], r.do_exc["msg"])))
        if getattr(r, "fault_in_rollback", False):
            pass            # the file system refused a call of the rollback itself: a double failure, not judged
        elif L.content_view(r.s2) != L.content_view(r.s1):
            bad.append(("P5-perform-not-atomic", "Project.do raised but the tree differs at %s" % ", ".join(
                L.snap_diff(r.s1, r.s2, mtime=False)[:5])))
    if r.undo_exc is not None:
        bad.append(("P5-undo-raised", "History.undo() raised %s: %s" % (r.undo_exc["cls"], r.undo_exc["msg"])))
    # P4
    if r.do_exc is None:
        last = {}
        newline_of = {}
        for (k, path, desc, new) in r.descriptions:
            if k != "ChangeContents":
                continue
            rel = os.path.normpath(os.path.join(root, *path.split("/"))).replace(os.sep, "/")
            pre = r.s1.get(rel)
            if pre is not None and pre[0] == "l":         # a symbolic link: the file it points to
                if os.path.isabs(pre[1].decode()):
                    continue
                pre = r.s1.get(os.path.normpath(os.path.join(os.path.dirname(rel), pre[1].decode())).replace(os.sep, "/"))
                rel = None
            old = pre[1].decode("utf-8") if pre is not None and pre[0] == "f" else ""
            nl = "\r\n" if "\r\n" in old else ("\r" if "\r" in old else "\n")
            old = old.replace("\r\n", "\n").replace("\r", "\n")     # rope previews the text with normalised line ends
            if rel is not None:
                newline_of[rel] = nl
            try:
                got = L.apply_unified(old, desc)
            except ValueError as e:
                bad.append(("P4-description", "description of <%s> does not apply to the file: %s" % (path, e)))
                continue
            if got != new:
                bad.append(("P4-description", "description of <%s> applied to the file does not give the new contents" % path))
            if rel is not None:
                last[rel] = new
        moved = set()
        for l in L.leaves(r.spec):
            if l[0] == "MV":
                for q in (l[1], l[2]):
                    moved.add(os.path.normpath(os.path.join(root, *q.split("/"))).replace(os.sep, "/"))
        for rel, new in last.items():
            if any(rel == q or rel.startswith(q + "/") for q in moved):
                continue                   # the file was moved (or moved onto) afterwards in the same change
            post = r.s2.get(rel)
            # the file keeps its line-end convention: every line of the previewed text, with the file's own line ends
            want = new.replace("\n", newline_of.get(rel, "\n")).encode("utf-8")
            if post is None or post[0] != "f" or post[1] != want:
                bad.append(("P4-written", "the bytes written to %s are not the previewed contents" % rel))
    return bad


def valid_module_name(name):
    return name.isidentifier()


def target_kind(text, off):
    """what the identifier at `off` is, read off the text alone (independent of rope): the name of a def (plain
    function / method / static / class method / property / nested), of a class, of a class attribute, a lambda
    parameter, or any other name"""
    import re
    start = off
    while start > 0 and (text[start - 1].isalnum() or text[start - 1] == "_"):
        start -= 1
    ls = text.rfind("\n", 0, start) + 1
    line = text[ls:text.find("\n", start) if text.find("\n", start) >= 0 else len(text)]
    before = text[ls:start]
    indent = len(line) - len(line.lstrip())
    if re.fullmatch(r"\s*def\s+", before):
        prev = text[:ls].rstrip("\n").split("\n")[-1].strip() if ls else ""
        if prev.startswith("@staticmethod"):
            return "def-static"
        if prev.startswith("@classmethod"):
            return "def-classmethod"
        if prev.startswith("@property"):
            return "def-property"
        if indent == 0:
            return "def-function"
        # method (directly in a class body) or nested function: the nearest less indented header decides
        for ln in reversed(text[:ls].split("\n")):
            if ln.strip() and len(ln) - len(ln.lstrip()) < indent:
                return "def-method" if ln.lstrip().startswith("class ") else "def-nested"
        return "def-nested"
    if re.fullmatch(r"\s*class\s+", before):
        return "class"
    if "lambda" in before and ":" not in before.split("lambda")[-1]:
        return "lambda-parameter"
    if indent > 0 and re.fullmatch(r"\s*", before) and re.match(r"\s*\w+\s*=[^=]", line):
        for ln in reversed(text[:ls].split("\n")):
            if ln.strip() and len(ln) - len(ln.lstrip()) < indent:
                return "class-attribute" if ln.lstrip().startswith("class ") else "assigned-name"
    return "name"


def name_shape(name):
    import keyword as kw
    if name is None:
        return "no-name"
    if name == "":
        return "empty-name"
    if kw.iskeyword(name):
        return "keyword-name"
    return "valid-name" if name.isidentifier() else "non-identifier-name"


def request_shape(world, req):
    """the structural shape of a request (read off the inputs alone), part of every crash signature"""
    kind = req["kind"]
    text = world["files"].get("proj/" + str(req.get("resource")), None)
    parts = []
    if text is not None:
        if not text.strip():
            parts.append("empty-module")
        else:
            try:
                compile(text, "<m>", "exec")
            except SyntaxError:
                parts.append("unparsable-module")
    if KIND_GROUP.get(kind) == "extract":
        s0, e0 = req.get("start", 0), req.get("end", 0)
        if text is None or degenerate_region(world, req):
            parts.append("degenerate-region")
        else:
            kinds = [k for (a, b2, k) in L.regions(text) if a == s0 and b2 == e0]
            parts.append("%s-region" % (kinds[0] if kinds else "arbitrary"))
        parts.append(name_shape(req.get("new_name")))
        if req.get("similar"):
            parts.append("similar")
    elif kind == "restructure":
        pat = req.get("pattern", "")
        try:
            compile(pat.replace("${", "_").replace("}", "_"), "<p>", "eval")
            ok = bool(pat.strip())
        except SyntaxError:
            ok = False
        parts.append("empty-pattern" if not pat.strip() else ("wellformed-pattern" if ok else "malformed-pattern"))
    elif req.get("offset") is not None and text is not None:
        off = req["offset"]
        cat = L.offset_category(text, off) if off < len(text.rstrip("\n")) or off > len(text) else "eof"
        if off >= len(text.rstrip("\n")):
            cat = "past-end" if off > len(text) else "eof"
        parts.append(cat)
        if cat in ("identifier", "identifier-end"):
            parts.append(target_kind(text, off))
        if kind == "change_signature":
            parts.append(req.get("changer", "?"))
        if kind == "introduce_factory":
            parts.append(name_shape(req.get("new_name")))
    else:
        parts.append("no-offset")
    return ",".join(parts)


CHANGER_NAMES = set(L.CHANGERS)
TARGET_KINDS = {"def-static", "def-classmethod", "def-property", "def-function", "def-method", "def-nested", "class",
                "lambda-parameter", "class-attribute", "assigned-name", "name"}


def shape_dims(shape):
    """the comma-separated shape as {dimension: value}; absent dimensions are '-'"""
    d = {"module": "-", "offset": "-", "target": "-", "changer": "-", "region": "-", "name": "-", "similar": "-",
         "pattern": "-"}
    for tok in shape.split(","):
        if tok in ("empty-module", "unparsable-module"):
            d["module"] = tok
        elif tok.endswith("-region"):
            d["region"] = tok
        elif tok.endswith("-name"):
            d["name"] = tok
        elif tok == "similar":
            d["similar"] = tok
        elif tok.endswith("-pattern"):
            d["pattern"] = tok
        elif tok in CHANGER_NAMES:
            d["changer"] = tok
        elif tok in TARGET_KINDS:
            d["target"] = tok
        elif tok:
            d["offset"] = tok
    return d


def shape_allowed(allowed, shape):
    """`allowed`: {dimension: [values]} a finding was established for (product closure of the observed shapes)"""
    d = shape_dims(shape)
    return all(d[k] in allowed.get(k, ["-"]) for k in d)


def load_expected_shapes():
    """findings.d/C09.json: every crash finding lists the request shapes it was established for"""
    from harness import common
    out = {}
    for f in common.load_findings().get("open", []):
        if f.get("property") == PROPERTY and f.get("shapes") is not None:
            out[f["signature"]] = f["shapes"]
    return out


EXPECTED_SHAPES = None
LEARNING = bool(os.environ.get("C09_LEARN"))

KIND_GROUP = {"extract_method": "extract", "extract_variable": "extract"}
SITE_ALIAS = {"refactor/change_signature.py:change_argument_mapping": "refactor/change_signature.py:change_*",
              "refactor/change_signature.py:change_definition_info": "refactor/change_signature.py:change_*"}


def degenerate_region(world, req):
    text = world["files"].get("proj/" + str(req.get("resource")), "")
    s0, e0 = req.get("start", 0), req.get("end", 0)
    if e0 <= s0 or e0 >= len(text.rstrip("\n")) or not text.strip() or not text[s0:e0].strip():
        return True
    try:
        compile(text, "<m>", "exec")
    except SyntaxError:
        return True
    return False


def norm(p):
    return os.path.normpath(p).replace(os.sep, "/") if p else ""


def structural_class(world, r, check):
    """Which recorded root cause explains a failed check (structure of the request / returned change)."""
    req = r.req
    kind = req["kind"]
    if check == "P2-crash":
        base = crash_base_class(world, r)
        global EXPECTED_SHAPES
        if EXPECTED_SHAPES is None:
            EXPECTED_SHAPES = load_expected_shapes()
        allowed = EXPECTED_SHAPES.get(base)
        shape = request_shape(world, req)
        if "change_signature.py" not in base:
            shape = ",".join(t for t in shape.split(",") if t not in CHANGER_NAMES)
        if req["kind"] == "introduce_factory" and "introduce_factory.py" not in base:
            shape = ",".join(t for t in shape.split(",") if not t.endswith("-name"))
        r.crash_shape = (base, shape)
        # inside a session the program text is the product of earlier refactorings: crashes there are attributed by
        # class + frame only (the request-shape narrowing is a property of the one-shot stream on generated worlds)
        if allowed is not None and not shape_allowed(allowed, shape) and not LEARNING \
                and not getattr(r, "in_session", False):
            return base + " [on a request shape it is not known for: %s]" % shape
        return base
    return structural_class_rest(world, r, check)


def crash_base_class(world, r):
    req = r.req
    kind = req["kind"]
    if True:
        site = (r.exc or {}).get("site") or "?"
        cls = (r.exc or {}).get("cls") or "?"
        site = SITE_ALIAS.get(site, site)
        if KIND_GROUP.get(kind) == "extract" and cls == "IndexError" and degenerate_region(world, req):
            return ("crash: IndexError in extract on a degenerate region (empty or blank, touching the end of the "
                    "source, or in an empty or unparsable module)")
        if site.startswith("base/"):
            return "crash: %s at %s" % (cls, site)     # shared front-end: the offset category is part of the shape
        if site.startswith("refactor/change_signature.py"):
            kind = "change_signature"         # InlineParameter delegates to ChangeSignature (ArgumentDefaultInliner)
        return "crash: %s at %s in %s" % (cls, site, KIND_GROUP.get(kind, kind))
    return "?"


def structural_class_rest(world, r, check):
    req = r.req
    kind = req["kind"]
    if check == "P2-hang":
        return "hang: %s does not return%s" % (kind, " (docs=True)" if req.get("docs") else "")
    spec = getattr(r, "spec", None)
    if spec is not None:
        mvs = [l for l in L.leaves(spec) if l[0] == "MV"]
        if mvs and kind in ("rename", "rename_module") and not valid_module_name(req.get("new_name", "")):
            return ("module-renamed-to-invalid-name: Rename of a module/package accepts a new name that is not an "
                    "identifier")
        if getattr(r, "announced_foreign", None):
            label = kind
            if kind == "inline":          # InlineMethod was repaired in repo 94f57ce; InlineVariable is a sibling
                d = str(spec[1]) if spec[0] == "CS" else ""
                label = ("inline_variable" if d.startswith("Inline variable") else
                         "inline_method" if d.startswith("Inline method") else "inline")
            return ("out-of-project-resource-changed: %s computes a change of the out-of-project module that "
                    "defines the selected name" % label)
        if getattr(r, "announced_ignored_by_rope", None) or any(
                ignored_paths(r)(a) for a in announced_real_paths(r)):
            return ("ignored-resource-changed: %s computes a change of an ignored resource (the module that defines "
                    "or is the selected name)" % kind)
        for l in mvs:
            if norm(l[2]) == norm(l[1]) or norm(l[2]).startswith(norm(l[1]) + "/"):
                return "resource-moved-into-itself: MoveModule announces a move of a folder below itself"
    return "unexplained: %s in %s" % (check, kind)


# ------------------------------------------------------------------------------------- Gallina printing
class Interner:
    def __init__(self):
        self.seg = {"": 0, ".": 1, "..": 2}
        self.content = {}

    def s(self, name):
        if name not in self.seg:
            self.seg[name] = len(self.seg)
        return self.seg[name]

    def c(self, data):
        if isinstance(data, str):
            data = data.encode("utf-8")
        if data not in self.content:
            self.content[data] = len(self.content) + 1
        return self.content[data]


def g_path(I, p):
    """rope path (string, '/'-separated) -> list N; '' is the root"""
    if p == "":
        return "[]"
    return g_list([g_N(I.s(x)) for x in p.split("/")])


def g_change(I, spec, nl_of=lambda path: "\n"):
    """`nl_of(rope path)`: the line-end convention of the file on disk; rope keeps it when it writes (the strings in
    a ChangeContents are normalised to LF), so the model's contents are the bytes really written"""
    k = spec[0]
    if k == "CC":
        nl = nl_of(spec[1])
        old = "None" if spec[3] is None else "(Some [%s])" % g_N(I.c(spec[3].replace("\n", nl)))
        return "(CC %s [%s] %s)" % (g_path(I, spec[1]), g_N(I.c(spec[2].replace("\n", nl))), old)
    if k == "MV":
        return "(MV %s %s %s)" % (g_path(I, spec[1]), g_path(I, spec[2]), g_bool(spec[3]))
    if k == "CR":
        return "(CR %s %s)" % (g_path(I, spec[1]), g_bool(spec[2]))
    if k == "RM":
        return "(RM %s %s)" % (g_path(I, spec[1]), g_bool(spec[2]))
    return "(CS 0%%N %s)" % g_list([g_change(I, c, nl_of) for c in spec[2]])


def g_tree(I, snap):
    items = []
    for p in sorted(snap):
        t, data, _ = snap[p]
        if t == "l":
            continue                      # symbolic links are outside the model; representable() checks they are untouched
        if t == "d":
            items.append(g_pair(g_path(I, p), "Dir"))
        elif t == "f":
            items.append(g_pair(g_path(I, p), "(File [%s])" % g_N(I.c(data))))
        else:
            raise ValueError("unrepresentable node at %s" % p)
    return g_list(items)


def real_rel(base, p):
    """absolute path the audit saw -> path relative to base, normalised ('..' kept if it leaves base)"""
    return os.path.relpath(os.path.normpath(str(p)), os.path.realpath(base)).replace(os.sep, "/")


def link_table(base, snap):
    """[(link path, target path)] relative to base, for the symbolic links of a snapshot"""
    out = []
    for p, v in sorted(snap.items()):
        if v[0] == "l":
            t = v[1].decode()
            full = t if os.path.isabs(t) else os.path.join(os.path.realpath(base), os.path.dirname(p), t)
            out.append((p, os.path.relpath(os.path.normpath(full), os.path.realpath(base)).replace(os.sep, "/")))
    return out


def follow_links(links, rel):
    for l, t in links:
        if rel == l or rel.startswith(l + "/"):
            return t + rel[len(l):]
    return rel


def g_events(I, base, raw, links=()):
    out = []
    for e in L.primitive_events(raw):
        if e[0] == "write":
            # open(p, "wb") follows a symbolic link: the model's event names the file really written
            out.append("(EvWrite %s)" % g_path(I, follow_links(links, real_rel(base, e[1]))))
        elif e[0] == "create":
            out.append("(EvCreate %s %s)" % (g_bool(e[1]), g_path(I, real_rel(base, e[2]))))
        elif e[0] == "remove":
            out.append("(EvRemove %s)" % g_path(I, real_rel(base, e[1])))
        elif e[0] == "move":
            out.append("(EvMove %s %s)" % (g_path(I, real_rel(base, e[1])), g_path(I, real_rel(base, e[2]))))
        else:
            out.append("(EvRead [%s])" % g_N(999999))        # can never match a (mutating) model event
    return g_list(out)


def representable(r):
    if getattr(r, "fault", None) is not None:
        return False          # injected OS-level refusals: judged by the oracle (the model statement is C10's atomicity)
    links = {p: v for p, v in r.s1.items() if v[0] == "l"}
    root = getattr(r, "root", "proj")
    for l in L.leaves(r.spec):
        if l[0] == "CC":
            continue                      # an edit THROUGH a link is modelled (Footprint.follow)
        for q in ([l[1], l[2]] if l[0] == "MV" else [l[1]]):
            rel = os.path.normpath(os.path.join(root, *q.split("/"))).replace(os.sep, "/")
            if any(rel == k or rel.startswith(k + "/") for k in links):
                return False              # moving / creating / removing a link itself: outside the model
    for s in (r.s1, r.s2, r.s3):
        for p, v in s.items():
            if v[0] not in ("d", "f", "l"):
                return False
        if {p: v for p, v in s.items() if v[0] == "l"} != links:
            return False
    return True


def g_case(I, base, r):
    stp = getattr(r, "stop", None)
    links = link_table(base, r.s1)
    g_links = g_list([g_pair(g_path(I, l), g_path(I, t)) for l, t in links])
    root = getattr(r, "root", "proj")

    moved_from = {}
    for l in L.leaves(r.spec):            # a file edited after it was moved by the same change keeps its line ends
        if l[0] == "MV":
            moved_from[norm(l[2])] = moved_from.get(norm(l[1]), norm(l[1]))

    def nl_of(path):
        path = moved_from.get(norm(path), path)
        rel = follow_links(links, os.path.normpath(os.path.join(root, *path.split("/"))).replace(os.sep, "/"))
        v = r.s1.get(rel)
        data = v[1] if v is not None and v[0] == "f" else b""
        return "\r\n" if b"\r\n" in data else ("\r" if b"\r" in data else "\n")
    return ("{| c_root := %s; c_tree := %s; c_change := %s; c_links := %s; c_stp := %s; o_announced := %s; o_compute_writes := %s; "
            "o_raised := %s; o_cls := %s; o_trace := %s; o_tree := %s; o_undone := %s; o_uraised := %s; "
            "o_ucls := %s; o_utrace := %s; o_utree := %s |}" % (
                g_path(I, getattr(r, "root", "proj")), g_tree(I, r.s1), g_change(I, r.spec, nl_of), g_links,
                "None" if stp is None else "(Some %s)" % g_nat(stp),
                g_list([g_path(I, a) for a in r.announced]), g_nat(min(len(r.compute_raw), 4000)),
                g_bool(r.do_exc is not None), g_N(getattr(r, "do_code", 0) if r.do_exc is not None else 0),
                g_events(I, base, r.do_raw, links), g_tree(I, r.s2), g_bool(r.undone), g_bool(r.undo_exc is not None),
                g_N(getattr(r, "undo_code", 0) if r.undo_exc is not None else 0),
                g_events(I, base, r.undo_raw, links), g_tree(I, r.s3)))


MISMATCH_BITS = {1: "raised flag / exception class of Project.do", 2: "tree after Project.do",
                 4: "trace of mutating primitives of Project.do", 8: "get_changed_resources() vs resources of the change tree",
                 16: "raised flag / class / tree of History.undo()", 32: "trace of History.undo()",
                 64: "writing events audited while computing"}


def describe_bits(w):
    return ", ".join(t for b, t in MISMATCH_BITS.items() if w & b)


def evaluate(ctx, terms, shard=250):
    bodies = []
    for s in range(0, len(terms), shard):
        body = HEADER + "Definition cases : list case := %s.\n" % g_list(terms[s:s + shard]).replace("; {|", ";\n {|")
        body += "Eval vm_compute in (report cases).\nEval vm_compute in (landed cases).\n"
        bodies.append(body)
    if not bodies:
        return []
    outs = ctx.coq_files_parallel(bodies)
    words = []
    for si, out in enumerate(outs):
        nums = ctx.parse_nums(out)
        n_here = len(terms[si * shard:(si + 1) * shard])
        if len(nums) != 2 or len(nums[0]) != n_here or len(nums[1]) != n_here:
            raise RuntimeError("unexpected coqc output for shard %d: %s" % (si, out[:500]))
        # bit 2^20: C09_move_lands_at_destination holds on the observed trees
        words.extend(w + (1 << 20) * l for w, l in zip(nums[0], nums[1]))
    return words


# ---------------------------------------------------------------------------------------------- serving
class Session:
    """one world on disk with an open project; rebuilt whenever a request leaves it changed"""

    def __init__(self, world):
        self.world = world
        self.base = None
        self.project = None
        self.open()

    def open(self):
        self.close()
        self.base = L.materialize(self.world)
        self.project = L.open_project(self.base, self.world)
        self.other = None

    def reopen(self):
        try:
            self.project.close()
        except Exception:
            pass
        self.project = L.open_project(self.base, self.world)
        self.other = None

    def close(self):
        if self.project is not None:
            try:
                self.project.close()
            except Exception:
                pass
            self.project = None
        if self.base is not None:
            shutil.rmtree(self.base, ignore_errors=True)
            self.base = None

    def serve(self, req):
        r = L.serve(self.base, self.world, self.project, req)
        if r.outcome == "hang":
            # confirm on a fresh project with a four times longer limit (a loaded machine is not a hang)
            self.open()
            old = L.TIME_LIMIT
            L.TIME_LIMIT = old * 4
            try:
                r = L.serve(self.base, self.world, self.project, req)
            finally:
                L.TIME_LIMIT = old
        r.base = self.base
        if r.performed:
            self.pending_rebuild = L.content_view(r.s3) != L.content_view(r.s0)
        return r

    def serve_all(self, req):
        """-> list of records: one, or one per project for a cross-project request"""
        if req["kind"] != "multi":
            return [self.serve(req)]
        if self.other is None:
            self.other = L.open_second_project(self.base)
        rs = L.serve_multi(self.base, self.world, self.project, self.other, req)
        self.pending_rebuild = any(x.performed for x in rs) and \
            L.content_view(rs[-1].s3 if rs[-1].performed else rs[-1].s1) != L.content_view(rs[0].s0)
        return rs

    def after(self, rs):
        """restore a pristine state for the next request (after the Gallina terms have been printed)"""
        if not isinstance(rs, list):
            rs = [rs]
        if any(r.outcome == "hang" for r in rs):
            self.open()
        elif any(r.performed for r in rs):
            if getattr(self, "pending_rebuild", False):
                self.open()
            else:
                self.reopen()


def serve_one(world, req, root=None):
    """-> (record, session); for a cross-project request the record of project `root` (default: the first)"""
    s = Session(world)
    try:
        rs = s.serve_all(req)
        pick = [r for r in rs if r.root == root] or rs
        return pick[0], s
    except Exception:
        s.close()
        raise


# ------------------------------------------------------------------------------------- ignore patterns
EXTRA_PATHS = ["gen", "gen/x.py", "gen/a/b/c/x.py", "gen/a/x.txt", "xgen/y.py", "gen2/y.py", "pkg/gen/y.py",
               "skip", "skipper/z.py", "a/skip/b.txt", "skip.py", "ign_.py", "ign_x.pyc", "pkg/ign_w.py", "ign_dir/x.txt",
               "x/ign_a.py/y"]


def matcher_cases(project, world):
    """(patterns, resource path, what Project.is_ignored answers) for every non-link resource of the world and a few
    paths that do not exist; the pattern part of the matcher is modelled in coq/C09/Ignore.v"""
    paths = sorted(set([p[len("proj/"):] for p in world["files"] if p.startswith("proj/")] + EXTRA_PATHS))
    pats = list(project.ignored.patterns)
    out = []
    for rel in paths:
        if ("proj/" + rel) in world.get("links", {}):
            continue
        out.append((pats, rel, bool(project.is_ignored(project.get_file(rel)))))
    return out


def g_matcher_case(c):
    pats, rel, obs = c
    from harness.common import g_text
    return "(%s, %s, %s)" % (g_list([g_text(p) for p in pats]), g_list([g_text(x) for x in rel.split("/")]), g_bool(obs))


def evaluate_matcher(ctx, cases):
    if not cases:
        return []
    body = ("From Coq Require Import List NArith Bool.\nImport ListNotations.\nFrom RopeVerif.C09 Require Import Ignore.\n"
            "Definition cases : list (list (list N) * list (list N) * bool) := %s.\nEval vm_compute in (ign_report cases).\n"
            % g_list([g_matcher_case(c) for c in cases]).replace("; (", ";\n ("))
    nums = ctx.parse_nums(ctx.coq_file(body))
    if len(nums) != 1 or len(nums[0]) != len(cases):
        raise RuntimeError("unexpected coqc output for the matcher cases")
    return nums[0]


def matcher_replay(obj):
    """-> (rope's answer, by-construction answer or None) for one (patterns, path)"""
    import tempfile
    from rope.base.project import Project
    d = tempfile.mkdtemp(prefix="ropeverif-c09-")
    try:
        prj = Project(d, ropefolder=None, ignored_resources=list(obj["patterns"]))
        got = bool(prj.is_ignored(prj.get_file(obj["path"])))
        prj.close()
    finally:
        shutil.rmtree(d, ignore_errors=True)
    return got


# --------------------------------------------------------------------------------------------- sessions
def current_world(world, snap):
    """the world as it is on disk now (text files only): requests of a session are generated against it"""
    files = {}
    for p, v in snap.items():
        if v[0] == "f":
            try:
                files[p] = v[1].decode("utf-8").replace("\r\n", "\n").replace("\r", "\n")
            except UnicodeDecodeError:
                pass
    return dict(world, files=files)


class LiveSession:
    """one world, ONE live project for the whole sequence of steps (nothing is reopened or rebuilt between steps):
        {"op": "request", "req": {...}, "undo": bool, "stops": bool}
              compute + perform (+ History.undo()); with "stops": the perform is attempted under a TaskHandle
              stopped at notification 0, 1, 2, ... until one attempt goes through (each refused attempt must leave
              the disk untouched)
        {"op": "retire", "path": p}     the module is moved THROUGH ROPE into the ignored folder skip/
        {"op": "swap", "path": p}       OUTSIDE rope the module is replaced by a symbolic link to an out-of-project
                                        copy, then project.validate()
        {"op": "crlf", "path": p}       OUTSIDE rope the module's line ends become CRLF, libutils.report_change
        a request with "faults": like "stops", but the file system refuses mutating call 0, 1, 2, ... of the perform"""

    def __init__(self, world):
        self.world = world
        self.base = L.materialize(world)
        self.project = L.open_project(self.base, world)

    def close(self):
        try:
            self.project.close()
        except Exception:
            pass
        shutil.rmtree(self.base, ignore_errors=True)

    def cur(self):
        return current_world(self.world, L.snapshot(self.base))

    def step(self, step):
        op = step["op"]
        if op == "swap":
            L.external_symlink_swap(self.base, self.project, step["path"])
            return []
        if op == "crlf":
            L.external_crlf(self.base, self.project, step["path"])
            return []
        if op == "retire":
            name = step["path"].split("/")[-1]
            req = {"kind": "synthetic", "spec": ["CS", "retire", [["MV", step["path"], "skip/" + name, False]]],
                   "requested": ["proj/skip/" + name], "no_undo": True}
            return [self._serve(req)]
        req = dict(step["req"])
        if not step.get("undo"):
            req["no_undo"] = True
        if not step.get("stops") and not step.get("faults"):
            return [self._serve(req)]
        out = []
        key = "stop" if step.get("stops") else "fault"
        for j in range(0, 14):
            r = self._serve(dict(req, no_undo=True, **{key: j}))
            out.append(r)
            if r.outcome != "changes" or not r.performed or r.do_exc is None or getattr(r, "fault_in_rollback", False):
                break
        return out

    def _serve(self, req):
        r = L.serve(self.base, self.world, self.project, req)
        r.base = self.base
        r.in_session = True
        return r


def global_rename_request(rng, cur, turn=0):
    """rename of a module-level function / class / variable of a.py with default resources (project-wide)"""
    import re
    text = cur["files"].get("proj/a.py", "")
    spots = [m.start(2) for m in re.finditer(r"^(def |class )(\w+)", text, re.M)]
    spots += [m.start(1) for m in re.finditer(r"^(\w+) = ", text, re.M)]
    if not spots:
        return None
    spots.sort()
    return {"kind": "rename", "resource": "a.py", "offset": spots[turn % len(spots)], "new_name": "zz%d" % rng.randrange(100)}


def wellformed_request(cur, q):
    """sessions exist to catch STATE-dependent defects (caches, ignored / foreign resources, interruption): their
    random requests are restricted to well-formed ones (identifier offsets, valid names, regions that are exactly
    a statement or an expression, well-formed patterns); malformed requests belong to the one-shot stream"""
    if "new_name" in q and q["new_name"] is not None and name_shape(q["new_name"]) != "valid-name":
        return False
    d = shape_dims(request_shape(cur, q))
    if d["module"] != "-" or d["offset"] not in ("-", "identifier", "identifier-end", "no-offset"):
        return False
    if d["region"] not in ("-", "stmt-region", "expr-region") or d["pattern"] not in ("-", "wellformed-pattern"):
        return False
    if q["kind"] == "change_signature" and q.get("changer") in ("remove0", "reorder"):
        return False        # would strip / displace `self`: the following steps would work on an ill-formed program
    return "stop" not in q and "fault" not in q


def gen_session(rng, world, n_steps):
    """generates AND executes: yields (steps so far, world as on disk before the step, records of the step)"""
    live = LiveSession(world)
    steps = []
    force_global = 2                       # every session starts with project-wide renames (they warm rope's caches)
    turn = rng.randrange(8)
    retire_at = rng.randrange(2, max(3, n_steps // 2))
    swap_at = rng.randrange(2, max(3, n_steps // 2))
    crlf_at = rng.randrange(2, max(3, n_steps // 2))
    try:
        for i in range(n_steps):
            cur = live.cur()
            pf = L.python_files(cur)
            movable = [q for q in pf if q not in ("a.py", "bad.py", "h.py") and not q.endswith("__init__.py")]
            u = rng.random()
            step = None
            if (i == retire_at or u < 0.03) and movable:
                step = {"op": "retire", "path": rng.choice(movable)}
                force_global = 4
            elif (i == swap_at or u < 0.06) and movable:
                step = {"op": "swap", "path": rng.choice(movable)}
                force_global = 4
            elif (i == crlf_at or u < 0.09) and pf:
                # a module every project-wide rename edits (it uses a.py's names), or a.py itself
                step = {"op": "crlf", "path": rng.choice([q for q in pf if q != "bad.py"] or pf)}
                force_global = 4
            elif force_global > 0:
                force_global -= 1
                turn += 1
                req = global_rename_request(rng, cur, turn)
                if req is not None:
                    mode = rng.random()
                    step = {"op": "request", "req": req, "undo": False, "stops": mode < 0.45,
                            "faults": 0.45 <= mode < 0.8}
            if step is None:
                cands = [q for q in gen_requests(rng, cur, 0.3) if q["kind"] != "multi"
                         and not (q["kind"] == "synthetic" and q.get("no_undo"))]
                pick = None
                for _try in range(60):                       # rejection sampling: the first well-formed candidate
                    if not cands:
                        break
                    q = rng.choice(cands)
                    if wellformed_request(cur, q):
                        pick = q
                        break
                if pick is None:
                    break
                mode = rng.random()
                step = {"op": "request", "req": pick, "undo": rng.random() < 0.3, "stops": mode < 0.4,
                        "faults": 0.4 <= mode < 0.7}
            records = live.step(step)
            steps.append(step)
            yield list(steps), cur, records
            if any(r.outcome == "hang" or getattr(r, "fault_in_rollback", False) for r in records):
                break           # a hang, or a rollback the file system refused: the project is no longer in a defined state
    finally:
        live.close()


def replay_session(world, steps):
    """-> [(world before the step, record)] of the LAST step, after re-executing all steps on one live project"""
    live = LiveSession(world)
    try:
        out = []
        for i, step in enumerate(steps):
            cur = live.cur()
            records = live.step(step)
            if i == len(steps) - 1:
                out = [(cur, r) for r in records]
        return out
    finally:
        live.close()


# ------------------------------------------------------------------------------------- replay / signature
def replay_obj(world, r, check, text, cls):
    return {"kind": "request", "world": world, "req": r.req, "root": getattr(r, "root", "proj"), "check": check,
            "observed": text, "class": cls}


def signature(obj):
    if obj.get("fixed_by"):
        return "regression of repo commit %s" % obj["fixed_by"]      # corpus inputs never match a known finding
    if obj.get("class"):
        return obj["class"]
    if obj.get("kind") == "session":
        for cur, r in replay_session(obj["world"], obj["steps"]):
            bad = judge(cur, r)
            if bad:
                return structural_class(cur, r, bad[0][0])
        return "other:passes"
    if obj.get("kind") == "request":
        r, s = serve_one(obj["world"], obj["req"], obj.get("root"))
        try:
            bad = judge(obj["world"], r)
            if not bad:
                return "other:passes"
            return structural_class(obj["world"], r, bad[0][0])
        finally:
            s.close()
    return None


def replay(ctx, obj):
    if obj.get("kind") == "matcher":
        got = matcher_replay(obj)
        w = evaluate_matcher(ctx, [(obj["patterns"], obj["path"], got)])
        return bool(w[0]) or (obj.get("expected") is not None and got != obj["expected"])
    if obj.get("kind") == "session":
        want = obj.get("check")
        for cur, r in replay_session(obj["world"], obj["steps"]):
            bad = judge(cur, r)
            if (any(c == want for c, _ in bad) if want else bool(bad)):
                return True
        return False
    if obj.get("kind") == "request":
        r, s = serve_one(obj["world"], obj["req"], obj.get("root"))
        try:
            bad = judge(obj["world"], r)
            want = obj.get("check")
            if want:
                return any(c == want for c, _ in bad)
            return bool(bad)
        finally:
            s.close()
    if obj.get("kind") == "mismatch":
        r, s = serve_one(obj["world"], obj["req"], obj.get("root"))
        try:
            if r.outcome != "changes" or not r.performed or not representable(r):
                return False
            I = Interner()
            w = evaluate(ctx, [g_case(I, s.base, r)])[0]
            return bool(w & 127)
        finally:
            s.close()
    return True


# ------------------------------------------------------------------------------------------------ run
def run(ctx):
    ctx.rule = ("world = generated project (2-5 python modules over tiny name pools, optional package with relative "
                "imports, two ignored resources, one non-python file, optional .ropeproject) importing from a sibling "
                "out-of-project folder; request = one of 17 refactoring kinds x resource x offset of every category "
                "(all identifier offsets, a share of the others incl. end of file and past the end) x valid / malformed "
                "names x optional resources= restriction. Every request is computed under the audit hook; every returned "
                "change is performed and undone (some under a TaskHandle stopped at a job boundary). Plus multi-step sessions on one live "
                "project: project-wide renames, mixed requests, modules retired through rope into the ignored folder, external "
                "symlink swaps + validate(), performs stopped at every notification until one goes through. A case is non-trivial when a change with at least one leaf came back and "
                "was performed; distinct by (world files, request).")
    n_worlds = ctx.scale(5, 36)
    density = ctx.scale(0.18, 0.6)
    budget = ctx.scale(900, 2200)               # requests per world
    terms, owners = [], []
    I = Interner()
    n_req = 0
    crash_groups = {}
    crash_shapes = {}
    ign_cases = []

    def handle_record(world, req, r, base, mk_replay, tag=""):
        nontrivial = r.outcome == "changes" and r.performed and bool(L.leaves(r.spec))
        ctx.case((sorted(world["files"].items()), sorted(req.items(), key=str), r.root, tag), nontrivial=nontrivial)
        bad = judge(world, r)
        if getattr(r, "restriction_overridden", False):
            ctx.count("resources_restriction_overridden_by_rope")
        if r.outcome == "changes" and r.performed:
            ctx.traces += 1
            ctx.count("performed")
            ctx.count("performed_in:%s" % r.root)
            ctx.count("perform:%s" % ("raised" if r.do_exc else "ok"))
            if getattr(r, "stop", None) is not None:
                ctx.count("perform_under_stopped_handle:%s" % ("refused" if r.do_exc else "went through"))
            if getattr(r, "fault", None) is not None:
                ctx.count("perform_on_refusing_file_system:%s" % (
                    "refusal hit the rollback (not judged)" if getattr(r, "fault_in_rollback", False)
                    else "refused" if r.do_exc else "went through"))
            ctx.count("leaves:%d" % min(len(L.leaves(r.spec)), 6))
            for l in L.leaves(r.spec):
                ctx.count("leaf:%s" % l[0])
            if representable(r):
                terms.append(g_case(I, base, r))
                owners.append((world, req, [c for c, _ in bad],
                               structural_class(world, r, bad[0][0]) if bad else None, mk_replay))
            else:
                ctx.count("unrepresentable_tree")
            if len(ctx.samples) < 3 and nontrivial:
                ctx.sample({"request": req, "change": json.loads(json.dumps(r.spec, default=repr))[:3],
                            "announced": r.announced,
                            "audited_do": L.primitive_events(r.do_raw)[:6],
                            "changed_by_do": L.snap_diff(r.s1, r.s2)})
        seen = set()
        for check, text in bad:
            cls = structural_class(world, r, check)
            if (check, cls) in seen:
                continue
            seen.add((check, cls))
            ctx.count("oracle_failed:%s" % check)
            if check == "P2-crash":
                crash_groups[cls] = crash_groups.get(cls, 0) + 1
                if getattr(r, "crash_shape", None):
                    crash_shapes.setdefault(r.crash_shape[0], set()).add(r.crash_shape[1])
            ctx.violation(mk_replay(r, check, text, cls),
                          "C09 %s%s: %s [%s %s]" % (tag, check, text, req["kind"], {k: v for k, v in req.items() if k != "kind"}))

    for wi in range(n_worlds):
        world = L.gen_world(ctx.rng)
        reqs = gen_requests(ctx.rng, world, density)[:budget]
        ctx.count("worlds")
        ctx.count("layout:%s" % world["layout"])
        ctx.count("ropefolder:%s" % world["ropefolder"])
        if world.get("links"):
            ctx.count("world_with_symlink_to_out_of_project_module")
        if "proj/bad.py" in world["files"]:
            ctx.count("world_with_unparsable_module%s" % ("_ignored" if world.get("prefs") else ""))
        sess = Session(world)
        try:
            for c in matcher_cases(sess.project, world):
                ign_cases.append(c)
                # independent oracle: the generator knows which of ITS resources are ignored
                exp = L.is_ignored_by_construction("proj/" + c[1]) if ("proj/" + c[1]) in world["files"] else None
                if exp is not None and exp != c[2]:
                    ctx.violation({"kind": "matcher", "patterns": c[0], "path": c[1], "expected": exp,
                                   "class": "matcher: Project.is_ignored(%s) is %s" % (c[1], c[2])},
                                  "C09 P8-ignored: Project.is_ignored(<%s>) answers %s with ignored_resources=%r"
                                  % (c[1], c[2], c[0]))
            for req in reqs:
              rs = sess.serve_all(req)
              n_req += 1
              cat = req_offset_category(world, req)
              ctx.count("kind:%s" % req["kind"])
              ctx.count("offset:%s" % cat)
              ctx.count("outcome:%s" % rs[0].outcome)
              if req.get("resources") is not None:
                  ctx.count("with_resources_restriction")
              if rs[0].exc is not None:
                  ctx.count("refusal:%s" % (rs[0].exc["cls"] if rs[0].exc["rope_error"] else "NOT-ROPE-ERROR"))
              for r in rs:
                handle_record(world, req, r, sess.base, lambda r, check, text, cls: replay_obj(world, r, check, text, cls))
              sess.after(rs)
              if ctx.too_many(12):
                  break
        finally:
            sess.close()
        if ctx.too_many(12):
            break
    # ---- multi-step sessions on one live project
    n_sessions = ctx.scale(20, 90)          # short sessions: the text stays close to a generated world
    n_steps = ctx.scale(18, 24)
    n_session_steps = 0
    for si in range(n_sessions):
        if ctx.too_many(12):
            break
        world = L.gen_world(ctx.rng)
        ctx.count("sessions")
        for steps, cur, records in gen_session(ctx.rng, world, n_steps):
            n_session_steps += 1
            step = steps[-1]
            ctx.count("session_step:%s" % (step["op"] + ("+stops" if step.get("stops") else "+faults" if step.get("faults") else "")))
            if step["op"] == "request":
                ctx.count("kind:%s" % step["req"]["kind"])
            for r in records:
                def mk(r, check, text, cls, steps=steps, world=world):
                    return {"kind": "session", "world": world, "steps": steps, "check": check, "observed": text,
                            "class": cls, "last_request": r.req}
                handle_record(cur, r.req, r, r.base, mk, tag="session step %d: " % len(steps))
            if ctx.too_many(12):
                break
    ctx.extra["session_steps"] = n_session_steps
    ctx.extra["requests_served"] = n_req
    ctx.extra["crash_groups_seen"] = crash_groups
    ctx.extra["crash_shapes_seen"] = {k: sorted(v) for k, v in crash_shapes.items()}

    # ---- correspondence inside Coq: the ignore-pattern matcher
    seen_ign = {}
    for c in ign_cases:
        seen_ign[(tuple(c[0]), c[1])] = c
    uniq = list(seen_ign.values())
    for c, w in zip(uniq, evaluate_matcher(ctx, uniq)):
        ctx.case(("matcher", c[0], c[1]), nontrivial=c[2])
        if w:
            ctx.violation({"kind": "matcher", "patterns": c[0], "path": c[1], "expected": not c[2],
                           "class": "matcher: model and rope differ on %s" % c[1]},
                          "C09: Project.is_ignored(<%s>) = %s differs from the pattern model (coq/C09/Ignore.v) for %r"
                          % (c[1], c[2], c[0]))
    ctx.extra["matcher_cases"] = len(uniq)
    # ---- correspondence inside Coq
    words = evaluate(ctx, terms)
    in_domain = 0
    known_sigs = set(f.get("signature") for f in ctx.findings if f.get("property") == PROPERTY)
    for w, (world, req, checks, cls, mk_replay) in zip(words, owners):
        if w & 2048:
            ctx.count("model_artefact")
            continue
        dom = bool(w & 128)
        if dom:
            in_domain += 1
        mism = w & 127
        if mism:
            ctx.count("model_mismatch")
            # a known finding outside the theorems' domain may explain a difference in the exception Project.do /
            # History.undo ends with (rope raises AttributeError from is_ignored AFTER an out-of-project write); the
            # model must still predict the tree, the trace and the announced resources exactly
            if cls is not None and cls in known_sigs and not dom and not (mism & (2 | 4 | 8 | 64)):
                ctx.count("model_mismatch_outside_domain_on_known_finding")
            else:
                ctx.violation({"kind": "mismatch", "world": world, "req": req, "differs": describe_bits(mism),
                               "oracle_failed": checks,
                               "broken": "correspondence RopeVerif.C09.Runner.report1 (C10 model of Change.do/undo + "
                                         "C09 resources/realize/trun vs rope/base/change.py, project.py): theorems C09_* no "
                                         "longer speak about the code"},
                              "C09: model and rope differ on %s [%s %s]" % (describe_bits(mism), req["kind"],
                                                                           {k: v for k, v in req.items() if k != "kind"}),
                              no_input=not checks)
        if dom and not mism:
            # what C09_frame / C09_confined / C09_confined_trace predict, evaluated on the observed trees and traces
            for bitv, thm in ((256, "C09_frame (a changed path is outside the footprint)"),
                              (512, "C09_confined_trace (an audited primitive acts outside the project root)"),
                              (1024, "C09_confined (a path outside the project root changed)")):
                if not (w & bitv):
                    ctx.violation({"kind": "mismatch", "world": world, "req": req, "oracle_failed": checks,
                                   "broken": "observation contradicts %s although model and code agree on the case" % thm},
                                  "C09: observation contradicts %s" % thm, no_input=not checks)
            if not (w & 8192) and not (w & (1 << 20)) and not (
                    req["kind"] == "synthetic" and not any(len(l) > 4 for l in L.leaves(req.get("spec", ["CS", "", []])))):
                ctx.violation({"kind": "mismatch", "world": world, "req": req, "oracle_failed": checks,
                               "broken": "observation contradicts C09_move_lands_at_destination: a performed MoveResource "
                                         "did not land at the destination it announces"},
                              "C09: a performed move did not land at its announced destination", no_input=not checks)
            if not (w & 8192) and not (w & 16384):
                ctx.violation({"kind": "mismatch", "world": world, "req": req, "oracle_failed": checks,
                               "broken": "observation contradicts C09_trace_exact"},
                              "C09: audited trace of a successful perform is not expected_events", no_input=not checks)
        if ctx.too_many(14):
            break
    ctx.extra["cases_in_theorem_domain"] = in_domain
    ctx.extra["cases_evaluated_by_model"] = len(words)
    ctx.assumptions.append("sys.addaudithook sees every file-system mutation made through Python's os/io/shutil/sqlite3 "
                           "(a C extension writing behind the hook would only be caught by the snapshots)")
    ctx.assumptions.append("POSIX path resolution without symbolic links (rope treats links as ignored resources)")
    ctx.assumptions.append("a raising file-system primitive has no partial effect (inherited from C10)")
