"""Generator of modules for C02 (occurrence finding).

gen_module(rng, features=()) -> source text.  Tiny identifier pools, shared between variables, parameters,
attributes and keyword arguments, so that one spelling has several bindings in every module.  Without
features the module stays inside the domain of the C02 theorems by construction (measured inside Coq, not
assumed); each feature switches on one production that leaves the domain - one per known departure of rope
from Python's binding rules (see FEATURES).  Layout variation: comments and string literals containing the
identifiers and keywords of the module, f-strings with real uses, blank lines, calls broken over lines.
"""

V = ["a", "b", "c", "x", "y"]
FN = ["f", "g", "h"]
CL = ["A", "B", "K"]
ATTRS = ["x", "y", "n"]
MODS = ["ext", "lib.util", "other"]

FEATURES = (
    "header",       # a header expression (default, annotation, decorator, base) names a local of the defined scope
    "classhdr",     # a method header names an attribute of the enclosing class
    "firstiter",    # the first iterable of a comprehension names its own iteration variable
    "classname",    # a class has an attribute with its own name
    "kwunres",      # keyword argument of a callee without a known signature, spelled like a variable in scope
    "imports2",     # one spelling imported from unresolvable modules in two scopes
    "paramrebound",  # a def with defaulted parameters whose name is rebound later
    # productions that used to leave the domain and are inside it since the repairs in /repo (kept: they exercise the
    # repaired code on every run)
    "tuplekw",      # unparenthesised tuple target: its last name is preceded by ',' and followed by '='  (9405717)
    "genexp",       # generator expression as the sole argument of a call                                 (61b2b10)
    "eofimport",    # the module ends with `from m import name` without a newline                          (b5db6ac)
    "strprefix",    # a function called f in a module with f-strings                                       (417bae9)
    "indentimport",  # `import m as v` inside a function that has a variable m                             (49ab4fe)
)


class Scope:
    def __init__(self, kind, parent=None, name=None):
        self.kind = kind            # module | function | class
        self.parent = parent
        self.name = name
        self.bound = set()          # names bound directly in this scope
        self.params = []
        self.attrs = set()          # class: names of the class body and self attributes
        self.selfname = None
        self.globals = set()

    def module(self):
        s = self
        while s.parent is not None:
            s = s.parent
        return s


class Gen:
    def __init__(self, rng, features=()):
        self.rng = rng
        self.f = set(features)
        self.lines = []
        self.funcs = {}             # module-level function name -> parameter names (defined exactly once)
        self.classes = {}           # module-level class name -> (init parameter names or None, attrs set, base or None)
        self.imported = set()       # spellings bound by an import somewhere
        self.mod_names = set()      # names bound at module level
        self.budget = 26

    # ---------------------------------------------------------------- helpers
    def pick(self, xs):
        return self.rng.choice(list(xs))

    def chance(self, p):
        return self.rng.random() < p

    def emit(self, ind, text):
        self.lines.append(" " * ind + text)

    def noise(self, ind):
        r = self.rng.random()
        if r < 0.07:
            self.lines.append("")
        elif r < 0.16:
            self.emit(self.pick([ind, 0]), "# %s = %s(%s=%s)" % (self.pick(V), self.pick(FN), self.pick(V), self.pick(V)))
        elif r < 0.20:
            self.emit(ind, self.pick(["'%s'" % self.pick(V), '"def %s(%s): return %s"' % (self.pick(FN), self.pick(V), self.pick(V)),
                                      '"""%s.%s"""' % (self.pick(CL), self.pick(ATTRS))]))

    def visible(self, sc, avoid=()):
        """names that may be used (read) from scope sc: bound here or in an enclosing function / module scope"""
        out = set()
        s = sc
        first = True
        while s is not None:
            if s.kind != "class" or first:
                out |= s.bound | set(s.params)
            first = False
            s = s.parent
        out |= self.mod_names
        return sorted(out - set(avoid))

    def atom(self, sc, avoid=()):
        vs = [v for v in self.visible(sc, avoid) if v not in CL and v not in self.funcs]
        r = self.rng.random()
        if vs and r < 0.7:
            return self.pick(vs)
        if r < 0.85:
            return str(self.rng.randint(0, 9))
        v1 = self.pick(vs) if vs else "0"
        v2 = self.pick(vs) if vs else "1"
        return self.pick(["'%s'" % self.pick(V), "'(%s'" % self.pick(V), "f'{%s} %s'" % (v1, self.pick(V)),
                          # names in a nested replacement field of a format spec, after a conversion, in a nested f-string
                          "f'{%s:{%s}} %s'" % (v1, v2, self.pick(V)), "f'{%s!r:>{%s}}'" % (v1, v2),
                          'f"{f\'{%s}\'} {%s:>{%s}.2f}"' % (v1, v2, v1)])

    def expr(self, sc, depth=0, avoid=()):
        r = self.rng.random()
        if depth > 1 or r < 0.4:
            return self.atom(sc, avoid)
        if r < 0.6:
            return "%s %s %s" % (self.expr(sc, depth + 1, avoid), self.pick(["+", "*", "<", "and"]), self.expr(sc, depth + 1, avoid))
        if r < 0.8:
            c = self.call(sc, depth + 2, avoid)
            if "'" not in c and '"' not in c and "\n" not in c and self.chance(0.25):
                return "f'{%s} %s'" % (c, self.pick(V))      # a call (with keyword arguments) inside a replacement field
            return c
        if r < 0.9:
            return "(%s, %s)" % (self.expr(sc, depth + 1, avoid), self.expr(sc, depth + 1, avoid))
        return "[%s]" % self.expr(sc, depth + 1, avoid)

    def call(self, sc, depth=0, avoid=()):
        """call of a module-level function or class with positional and keyword arguments"""
        shadow = set()
        s = sc
        while s is not None and s.kind != "module":
            if s.kind == "function":
                shadow |= s.bound | set(s.params)
            s = s.parent
        if sc.kind == "class":
            shadow |= sc.bound
        cands = [f for f in self.funcs if f not in shadow and f not in avoid]
        ccands = [c for c in self.classes if c not in shadow and c not in avoid]
        r = self.rng.random()
        if "kwunres" in self.f and self.chance(0.35):
            vs = [v for v in self.visible(sc, avoid) if v in V]
            callee = None
            if sc.kind == "function" and sc.params and self.chance(0.6):
                callee = self.pick(sc.params)
            else:
                noinit = [c for c in ccands if self.classes[c][0] is None and self.classes[c][2] is None]
                if noinit:
                    callee = self.pick(noinit)
            if callee and vs:
                k = self.pick(vs)
                return "%s(%s=%s)" % (callee, k, self.pick(vs))
        if ccands and (r < 0.3 or not cands):
            c = self.pick(ccands)
            ps = self.classes[c][0]
            if ps is None:
                return "%s()" % c
            return self.args(sc, c, ps, depth, avoid)
        if cands:
            f = self.pick(cands)
            return self.args(sc, f, self.funcs[f], depth, avoid)
        return self.atom(sc, avoid)

    def args(self, sc, callee, ps, depth, avoid):
        n_pos = self.rng.randint(0, len(ps))
        parts = [self.expr(sc, depth + 1, avoid) for _ in range(n_pos)]
        for p in ps[n_pos:]:
            if self.chance(0.8):
                parts.append("%s=%s" % (p, self.expr(sc, depth + 1, avoid)))
        if len(parts) >= 2 and self.chance(0.15):
            return "%s(%s,\n%s%s)" % (callee, ", ".join(parts[:-1]), " " * 12, parts[-1])
        return "%s(%s)" % (callee, ", ".join(parts))

    def comp(self, sc):
        tgt = self.pick(V)
        if "firstiter" in self.f and self.chance(0.6):
            it = tgt
        else:
            it = self.pick([v for v in self.visible(sc, avoid=[tgt]) if v not in self.funcs and v not in CL] or ["()"])
        elt = self.pick([tgt, "%s + %s" % (tgt, self.atom(sc)), "(%s, %s)" % (self.atom(sc), tgt)])
        cond = (" if %s" % self.pick([tgt, self.atom(sc)])) if self.chance(0.3) else ""
        kind = self.pick(["list", "set", "gen", "dict"])
        body = "%s for %s in %s%s" % (elt, tgt, it, cond)
        if kind == "list":
            return "[%s]" % body
        if kind == "set":
            return "{%s}" % body
        if kind == "dict":
            return "{%s: %s for %s in %s%s}" % (tgt, elt, tgt, it, cond)
        if "genexp" in self.f and self.chance(0.7):
            return "sum(%s)" % body
        return "sum((%s))" % body

    # ---------------------------------------------------------------- statements
    def bind(self, sc, name):
        if name in sc.globals:
            self.mod_names.add(name)
        else:
            sc.bound.add(name)
            if sc.kind == "module":
                self.mod_names.add(name)
            if sc.kind == "class":
                sc.attrs.add(name)

    def target_name(self, sc):
        cands = [v for v in V if v not in self.imported]
        return self.pick(cands or V)

    def stmt(self, sc, ind, in_method=None):
        self.budget -= 1
        self.noise(ind)
        r = self.rng.random()
        deep = ind >= 12 or self.budget <= 0
        if sc.kind == "class":
            return self.class_stmt(sc, ind)
        if r < 0.30:
            t = self.target_name(sc)
            if in_method is None and self.chance(0.25):
                value = self.comp(sc)
            else:
                value = self.expr(sc)
            self.emit(ind, "%s = %s" % (t, value))
            self.bind(sc, t)
        elif r < 0.36 and in_method is not None:
            a = self.pick(ATTRS)
            self.emit(ind, "%s.%s = %s" % (in_method.selfname, a, self.expr(sc)))
            in_method.parent.attrs.add(a)
        elif r < 0.42 and in_method is not None:
            cls = in_method.parent
            known = sorted(cls.attrs | self.inherited(cls))
            if known:
                t = self.target_name(sc)
                self.emit(ind, "%s = %s.%s" % (t, self.pick([in_method.selfname, cls.name]) if cls.name in self.classes else in_method.selfname, self.pick(known)))
                self.bind(sc, t)
            else:
                self.emit(ind, "pass")
        elif r < 0.47:
            t = self.target_name(sc)
            if "tuplekw" in self.f and self.chance(0.7):
                u = self.target_name(sc)
                self.emit(ind, "%s, %s = %s, %s" % (t, u, self.expr(sc), self.expr(sc)))
                self.bind(sc, u)
            else:
                u = self.target_name(sc)
                self.emit(ind, "(%s, %s) = (%s, %s)" % (t, u, self.expr(sc), self.expr(sc)))
                self.bind(sc, u)
            self.bind(sc, t)
        elif r < 0.53:
            self.emit(ind, self.pick(["print(%s)" % self.expr(sc), self.call(sc), self.comp(sc) if in_method is None or True else "pass"]))
        elif r < 0.58:
            vs = [v for v in sorted(sc.bound) if v in V and v not in sc.globals]
            if vs:
                self.emit(ind, "%s += %s" % (self.pick(vs), self.expr(sc)))
            else:
                self.emit(ind, "pass")
        elif r < 0.63 and sc.kind == "function":
            self.emit(ind, "return %s" % self.expr(sc))
        elif r < 0.70 and not deep:
            self.emit(ind, "if %s:" % self.expr(sc))
            self.block(sc, ind + 4, self.rng.randint(1, 2), in_method)
            if self.chance(0.4):
                self.emit(ind, "else:")
                self.block(sc, ind + 4, 1, in_method)
        elif r < 0.76 and not deep:
            t = self.target_name(sc)
            self.emit(ind, "for %s in %s:" % (t, self.expr(sc)))
            self.bind(sc, t)
            self.block(sc, ind + 4, self.rng.randint(1, 2), in_method)
        elif r < 0.80 and not deep:
            t = self.target_name(sc)
            self.emit(ind, "try:")
            self.block(sc, ind + 4, 1, in_method)
            self.emit(ind, "except Exception as %s:" % t)
            self.bind(sc, t)
            self.block(sc, ind + 4, 1, in_method)
        elif r < 0.84:
            self.import_stmt(sc, ind)
        elif r < 0.93 and not deep and sc.kind != "module":
            self.gen_def(sc, ind, nested=True)
        else:
            self.emit(ind, "print(%s)" % self.expr(sc))

    def import_stmt(self, sc, ind):
        if "indentimport" in self.f and ind > 0 and self.chance(0.6):
            vs = [v for v in self.visible(sc) if v in V]
            al = [a for a in ("al1", "al2") if a not in self.imported]
            if vs and al:
                self.emit(ind, "import %s as %s" % (self.pick(vs), al[0]))
                self.imported.add(al[0])
                self.bind(sc, al[0])
                return
        free = [v for v in V + ["ext", "other"] if v not in self.imported
                and v not in sc.bound and v not in sc.params and v not in sc.globals
                and (sc.kind != "module" or v not in self.mod_names)]
        if "imports2" in self.f and self.imported and self.chance(0.7):
            cand = [v for v in sorted(self.imported) if v not in sc.bound and v not in sc.params and v not in sc.globals]
            if cand:
                v = self.pick(cand)
                self.emit(ind, "from %s import %s" % (self.pick(["other", "third"]), v))
                self.bind(sc, v)
                return
        # an import binds a spelling that nothing else in the module binds (mixed bindings have no single definition)
        free = [v for v in free if not self.bound_anywhere(v)]
        if not free:
            self.emit(ind, "pass")
            return
        v = self.pick(free)
        if v in ("ext", "other"):
            self.emit(ind, "import %s" % v)
        elif self.chance(0.5):
            self.emit(ind, "from %s import %s" % (self.pick(MODS), v))
        else:
            self.emit(ind, "from %s import %s as %s" % (self.pick(MODS), self.pick(["thing", "item"]), v))
        self.imported.add(v)
        self.never_bind.add(v)
        self.bind(sc, v)

    def bound_anywhere(self, v):
        return v in self.all_bound

    def block(self, sc, ind, n, in_method=None):
        for _ in range(n):
            self.stmt(sc, ind, in_method)

    def inherited(self, cls):
        out = set()
        b = getattr(cls, "base", None)
        while b is not None and b in self.classes:
            out |= self.classes[b][1]
            b = self.classes[b][2]
        return out

    # ---------------------------------------------------------------- definitions
    def header_name(self, outer, inner_bound, cls_attrs):
        """a name for a header expression of a scope whose own names are inner_bound"""
        vis = [v for v in self.visible(outer) if v not in CL]
        if "header" in self.f and self.chance(0.6):
            hot = [v for v in vis if v in inner_bound]
            if hot:
                return self.pick(hot)
        if "classhdr" in self.f and cls_attrs and self.chance(0.6):
            hot = [v for v in sorted(cls_attrs) if v in self.mod_names]
            if hot:
                return self.pick(hot)
        safe = [v for v in vis if v not in inner_bound and v not in cls_attrs]
        return self.pick(safe) if safe else None

    def gen_def(self, sc, ind, nested=False, method_of=None, name=None):
        fs = Scope("function", sc)
        if name is None:
            if sc.kind == "module":
                cands = [f for f in FN if f not in self.funcs and f not in self.mod_names]
                if not cands:
                    return
                name = self.pick(cands)
            else:
                name = self.pick(["inner", "helper"] + FN)
        pool = list(V)
        self.rng.shuffle(pool)
        params = []
        if method_of is not None:
            fs.selfname = self.pick(["self", "self", "this"])
            params.append(fs.selfname)
        for _ in range(self.rng.randint(0, 2)):
            params.append(pool.pop())
        fs.params = list(params)
        star = None
        if self.chance(0.15):
            star = pool.pop()
            fs.params.append(star)
        fs.name = name
        # body first (into a side buffer), so that the header can avoid - or hit - the names the body binds
        saved, self.lines = self.lines, []
        body_ind = ind + 4
        if self.chance(0.12):
            self.emit(body_ind, '"""%s(%s=%s)"""' % (name, self.pick(V), self.pick(V)))
        if sc.kind != "class" or True:
            gl = [v for v in sorted(self.mod_names) if v in V and v not in fs.params and v not in self.imported]
            if gl and self.chance(0.2):
                g = self.pick(gl)
                self.emit(body_ind, "global %s" % g)
                fs.globals.add(g)
        self.block(fs, body_ind, self.rng.randint(1, 3), in_method=fs if method_of is not None else None)
        if not any(l.strip() and not l.strip().startswith("#") for l in self.lines):
            self.emit(body_ind, "pass")
        if fs.params and self.chance(0.5):
            self.emit(body_ind, "return %s" % self.pick(fs.params))
        body, self.lines = self.lines, saved
        inner = fs.bound | set(fs.params)
        cls_attrs = (method_of.attrs | self.inherited(method_of)) if method_of is not None else set()
        if self.chance(0.15):
            d = self.header_name(sc, inner, cls_attrs)
            if d and d in self.funcs:
                self.emit(ind, "@%s" % d)
        elif method_of is not None and name != "__init__" and self.chance(0.12):
            self.emit(ind, self.pick(["@property", "@staticmethod", "@classmethod"]))
        parts = []
        defaulting = False
        for p in params:
            if p == fs.selfname:
                parts.append(p)
                continue
            if not defaulting and self.chance(0.35):
                defaulting = True
            h = self.header_name(sc, inner, cls_attrs) if (defaulting or self.chance(0.15)) else None
            if defaulting:
                parts.append("%s=%s" % (p, h if h and self.chance(0.6) else str(self.rng.randint(0, 9))))
            elif h:
                parts.append("%s: %s" % (p, h))
            else:
                parts.append(p)
        if star:
            parts.append("*" + star)
        self.emit(ind, "def %s(%s):" % (name, ", ".join(parts)))
        self.lines.extend(body)
        self.bind(sc, name)
        if sc.kind == "module":
            self.funcs[name] = [p for p in params]
            if "paramrebound" in self.f and defaulting and self.chance(0.7):
                self.emit(ind, "def %s(): pass" % name)
                del self.funcs[name]
        return fs

    def class_stmt(self, sc, ind):
        r = self.rng.random()
        if r < 0.45:
            a = self.pick(ATTRS)
            # the value only uses names that are not attributes of the class (class-body lookups of inherited /
            # instance attributes are C15's findings)
            vs = [v for v in sorted(self.mod_names) if v not in sc.attrs and v not in self.inherited(sc)
                  and v not in ATTRS and v not in CL]
            val = self.pick(vs) if vs and self.chance(0.4) else str(self.rng.randint(0, 9))
            self.emit(ind, "%s = %s" % (a, val))
            self.bind(sc, a)
        else:
            nm = self.pick(["m", "n", "run", "get"])
            if nm in sc.bound:
                self.emit(ind, "pass")
                return
            self.gen_def(sc, ind, method_of=sc, name=nm)

    def gen_class(self, sc, ind):
        cands = [c for c in CL if c not in self.classes and c not in self.mod_names]
        if not cands:
            return
        name = self.pick(cands)
        cs = Scope("class", sc, name)
        base = None
        if self.classes and self.chance(0.4):
            base = self.pick(sorted(self.classes))
        cs.base = base
        self.emit(ind, "class %s%s:" % (name, "(%s)" % base if base else self.pick(["", "", "(object)"])))
        start = len(self.lines)
        init = None
        if self.chance(0.6):
            a = self.pick(ATTRS)
            self.emit(ind + 4, "%s = %d" % (a, self.rng.randint(0, 9)))
            self.bind(cs, a)
        if "classname" in self.f and self.chance(0.7):
            self.emit(ind + 4, "%s = %d" % (name, self.rng.randint(0, 9)))
            self.bind(cs, name)
        if self.chance(0.6):
            fs = self.gen_def(cs, ind + 4, method_of=cs, name="__init__")
            init = [p for p in fs.params if p != fs.selfname and not self.is_star(fs, p)]
        for _ in range(self.rng.randint(1, 3)):
            self.class_stmt(cs, ind + 4)
        if len(self.lines) == start:
            self.emit(ind + 4, "pass")
        self.bind(sc, name)
        if base is not None and init is None:
            init_inh = self.classes[base][0]
            # an inherited __init__ : keep the callee out of the keyword-argument production
            self.classes[name] = ("?", set(cs.attrs), base) if False else (None if init_inh is None else init_inh, set(cs.attrs), base)
        else:
            self.classes[name] = (init, set(cs.attrs), base)

    def is_star(self, fs, p):
        return False

    def module(self):
        m = Scope("module")
        self.all_bound = set()
        self.never_bind = set()
        # module-level variables first
        for v in self.rng.sample(V, self.rng.randint(2, 4)):
            self.emit(0, "%s = %s" % (v, self.rng.randint(0, 9)))
            self.bind(m, v)
            self.all_bound.add(v)
        # every spelling of V may be bound by assignments anywhere: imports only take spellings outside it
        self.all_bound |= set(V)
        n = self.rng.randint(3, 6)
        for _ in range(n):
            self.noise(0)
            r = self.rng.random()
            if r < 0.45:
                self.gen_def(m, 0)
            elif r < 0.75:
                self.gen_class(m, 0)
            else:
                self.stmt(m, 0)
        for _ in range(self.rng.randint(1, 3)):
            self.stmt(m, 0)
        if "imports2" in self.f or self.chance(0.3):
            # imports of spellings nothing else binds
            self.all_bound -= {"ext", "other"}
        src = "\n".join(self.lines) + "\n"
        if "eofimport" in self.f:
            src += "from ext import %s" % self.pick(V)
        return src


def gen_module(rng, features=()):
    for _ in range(50):
        g = Gen(rng, features)
        src = g.module()
        try:
            compile(src, "m.py", "exec")
        except (SyntaxError, ValueError):
            continue
        return src
    return None


def gen_project(rng):
    """{"lib.py": source, "mod_under_test.py": source}: the second module imports names of the first (plain, aliased,
    through the module) and uses them next to homonym locals / parameters; None when no usable pair was found"""
    import ast
    import symtable
    for _ in range(20):
        lib = gen_module(rng, ())
        body = gen_module(rng, ())
        if not lib or not body:
            continue
        tree = ast.parse(lib)
        tops = {}
        for n in tree.body:
            if isinstance(n, ast.FunctionDef):
                tops.setdefault(n.name, []).append(("def", [a.arg for a in n.args.args]))
            elif isinstance(n, ast.ClassDef):
                tops.setdefault(n.name, []).append(("class", None))
            elif isinstance(n, ast.Assign) and len(n.targets) == 1 and isinstance(n.targets[0], ast.Name):
                tops.setdefault(n.targets[0].id, []).append(("var", None))
        tops = {k: v[0] for k, v in tops.items() if len({x[0] for x in v}) == 1}
        if not tops:
            continue
        bound = {s.get_name() for s in symtable.symtable(body, "m", "exec").get_symbols() if s.is_local()}
        if "lib" in bound:
            continue
        early = None
        if rng.random() < 0.5 and "gv" not in bound:
            # a module-level variable of lib that a function written ABOVE its module-level assignment rebinds through
            # `global`: the first assignment in the source is not the module-level one
            early = "gv"
            lib = "def early_gv():\n    global gv\n    gv = 1\n    return gv\n" + lib + "gv = 0\nprint(gv)\n"
            tree = ast.parse(lib)
            tops["gv"] = ("var", None)
        head = ["import lib"]
        used = {"lib"} | bound
        imported = []
        line1 = None
        if rng.random() < 0.7:
            # the first line of lib binds a name - spelled like the module itself or like a variable -: an
            # ImportedModule's definition location is (module, 1), the same as that name's
            line1 = rng.choice(["lib", "lib", rng.choice(V), "top"])
            if line1 in {s_.get_name() for s_ in symtable.symtable(lib, "m", "exec").get_symbols()}:
                line1 = None
            else:
                lib = "%s = %d\n" % (line1, rng.randint(0, 9)) + lib
                tops[line1] = ("var", None)
        picks = rng.sample(sorted(tops), min(len(tops), rng.randint(1, 3)))
        if early and early not in picks:
            picks.append(early)
        cls_names = [k for k, v in tops.items() if v[0] == "class"]
        if cls_names and not set(picks) & set(cls_names):
            picks.append(rng.choice(sorted(cls_names)))
        for x in picks:
            alias = rng.choice([None, None, "q1", "q2", rng.choice(V)])
            sp = alias or x
            if sp in used:
                continue
            used.add(sp)
            head.append("from lib import %s%s" % (x, " as %s" % alias if alias else ""))
            imported.append((x, sp, tops[x]))
        foot = []
        for (x, sp, (kind, params)) in imported:
            if kind == "def":
                args = ", ".join("%s=%d" % (p, rng.randint(0, 9)) for p in (params or [])[:2])
                foot.append("print(%s(%s), lib.%s)" % (sp, args, x))
            else:
                foot.append("print(%s, lib.%s)" % (sp, x))
            foot.append("def sh_%s(%s):\n    return %s" % (sp, sp, sp))
        if line1 == "lib":
            foot.append("def via_from():\n    from lib import lib\n    return lib")
            foot.append("print(lib.lib, lib)")
        elif line1 is not None and line1 not in used:
            foot.append("def via_alias():\n    import lib as %s\n    return %s.%s" % (line1, line1, line1))
            foot.append("def via_name():\n    from lib import %s\n    return %s" % (line1, line1))
        # attributes of lib's classes - those created by `self.attr = ...` in a method included - referenced from
        # this module, through the imported class and through the module
        for cls in [n for n in tree.body if isinstance(n, ast.ClassDef) and tops.get(n.name, ("", None))[0] == "class"]:
            attrs = set()
            for st in cls.body:
                if isinstance(st, ast.Assign):
                    attrs |= {t_.id for t_ in st.targets if isinstance(t_, ast.Name)}
                elif isinstance(st, ast.FunctionDef) and st.args.args:
                    self_ = st.args.args[0].arg
                    attrs |= {n.attr for n in ast.walk(st) if isinstance(n, ast.Attribute) and isinstance(n.ctx, ast.Store)
                              and isinstance(n.value, ast.Name) and n.value.id == self_}
            sps = [sp for (x_, sp, _k) in imported if x_ == cls.name]
            for a_ in sorted(attrs)[:3]:
                foot.append("print(lib.%s.%s)" % (cls.name, a_))
                for sp in sps:
                    foot.append("print(%s.%s)" % (sp, a_))
        x = rng.choice(sorted(tops))
        foot.append("print(lib.%s)" % x)
        foot.append("def use_lib(lib):\n    return lib.%s" % x)
        return {"lib.py": lib, "mod_under_test.py": "\n".join(head) + "\n" + body + "\n".join(foot) + "\n"}
    return None


def gen_sequence(rng):
    """(files of version 1, second version of lib.py): app does `from lib import *` and already uses a name that only the
    second version of lib defines"""
    import ast
    for _ in range(20):
        lib = gen_module(rng, ())
        body = gen_module(rng, ())
        if not lib or not body:
            continue
        try:
            top = {n.name for n in ast.parse(lib).body if isinstance(n, (ast.FunctionDef, ast.ClassDef))}
        except SyntaxError:
            continue
        new = rng.choice(["store", "fresh", rng.choice(V)])
        import symtable
        lib_bound = {s.get_name() for s in symtable.symtable(lib, "m", "exec").get_symbols() if s.is_local()}
        if new in lib_bound:
            continue
        if rng.random() < 0.6:
            add = "def %s(data):\n    return data\n" % new
            use = "%s(1)" % new
        else:
            add = "%s = %d\n" % (new, rng.randint(0, 9))
            use = new
        old_names = sorted(n for n in top if not n.startswith("_"))
        foot = ["def run_new(path):\n    return %s" % use, "print(%s)" % use]
        if old_names:
            foot.append("print(%s)" % rng.choice(old_names))
        app = "from lib import *\n" + body + "\n".join(foot) + "\n"
        # the new definition last, or first (every other definition then moves down)
        lib2 = (lib + add) if rng.random() < 0.5 else (add + lib)
        return {"lib.py": lib, "mod_under_test.py": app}, lib2
    return None
