"""C02 helpers: rope driver, independent oracle, Gallina case printer.

observe(src) -> Observed
    .tr        translation (harness/c15_gen.to_gallina): PyF term, token ids (= index in tokenize order)
    .tokens    [Token]  every identifier token of the module (id, kind, spelling, line, col, offset)
    .rope      {token id: sorted [token id] | "EXC:<type>"}   findit.find_occurrences with that token as the query
    .stray     offsets rope reported that are not identifier tokens (inside strings / comments / keywords)
    .kwlike    ids of the tokens that textually look like keyword arguments (computed from tokenize)
    .skip      ids of the tokens in a textual situation outside the Coq model, with the reason
    .key       {token id: binding key}   the ORACLE: which binding the token denotes by CPython's rules
               ("var", scope path) | ("builtin",) | ("ent", entity) | None (unbound) | "U" (not statically determined)
    .cat       {token id: "name" | "kw" | "attr" | "import"}
The oracle uses CPython's symtable (through harness/c15.observe_python) for plain names and a small static
resolver over `ast` for keyword arguments, attributes and imports; it uses neither rope nor the Coq model.
"""
import ast
import io
import keyword
import os
import re
import shutil
import tempfile
import token as _token
import tokenize

from harness import c15, c15_gen

MODNAME = "mod_under_test.py"


class Token:
    __slots__ = ("id", "kind", "name", "line", "col", "offset")

    def __repr__(self):
        return "%s#%d@%d:%d(%s)" % (self.name, self.id, self.line, self.col, self.kind)


class Observed:
    pass


# ============================================================================ tokens
def line_starts(src):
    starts = [0]
    for l in src.split("\n"):
        starts.append(starts[-1] + len(l) + 1)
    return starts


def tokens_of(tr, src):
    ls = line_starts(src)
    out = []
    for (i, kind, name, line, col) in tr.occs:
        t = Token()
        t.id, t.kind, t.name, t.line, t.col = i, kind, name, line, col
        t.offset = ls[line - 1] + col
        out.append(t)
    out.sort(key=lambda t: t.id)
    return out


def all_name_tokens(src):
    """(index, string, offset) of every NAME token, keywords included"""
    ls = line_starts(src)
    out = []
    for i, t in enumerate(tokenize.generate_tokens(io.StringIO(src).readline)):
        if t.type == _token.NAME:
            out.append((i, t.string, ls[t.start[0] - 1] + t.start[1]))
    return out


def kwlike_ids(src):
    """worder.is_function_keyword_parameter, recomputed from tokenize: the token is followed by '=' and preceded by '('
    or ',' inside the same logical line (worder works on text in which line breaks inside brackets are blanks), and it
    stands inside parentheses (find_parens_start_from_inside reaches a '(': since 9405717 the last name of a tuple
    target `x, y = ...` is no keyword)"""
    toks = [t for t in tokenize.generate_tokens(io.StringIO(src).readline)]
    sig = [(i, t) for i, t in enumerate(toks) if t.type not in (_token.NL, _token.COMMENT)]
    out = set()
    stack = []
    for k, (i, t) in enumerate(sig):
        if t.type == _token.OP and t.string in "([{":
            stack.append(t.string)
        elif t.type == _token.OP and t.string in ")]}" and stack:
            stack.pop()
        if t.type != _token.NAME or keyword.iskeyword(t.string):
            continue
        if k == 0 or k + 1 >= len(sig):
            continue
        prev, nxt = sig[k - 1][1], sig[k + 1][1]
        if prev.type == _token.OP and prev.string in ("(", ",") and nxt.type == _token.OP and nxt.string == "=" \
                and stack and stack[-1] == "(":
            out.add(i)
    return out


# ============================================================================ rope
def observe_rope(src, tokens, extra_files=None, fresh=False):
    """{token id: sorted ids | "EXC:..."}, {query id: stray offsets}.
    fresh=False: one project per module, the queries asked one after the other (normal use);
    fresh=True: a new project for every query (no state carried from one query to the next)"""
    from rope.base.project import Project
    from rope.contrib import findit
    d = tempfile.mkdtemp(prefix="ropeverif-c02-")
    try:
        with open(os.path.join(d, MODNAME), "w") as f:
            f.write(src)
        for path, text in (extra_files or {}).items():
            full = os.path.join(d, path)
            os.makedirs(os.path.dirname(full), exist_ok=True)
            with open(full, "w") as f:
                f.write(text)
        by_offset = {t.offset: t.id for t in tokens}
        out = {}
        stray = {}
        proj = None
        try:
            for t in tokens:
                if proj is None or fresh:
                    if proj is not None:
                        proj.close()
                    proj = Project(d, ropefolder=None)
                    res = proj.get_resource(MODNAME)
                try:
                    locs = findit.find_occurrences(proj, res, t.offset)
                except Exception as e:  # noqa: BLE001 - the kind of failure is part of the observation
                    out[t.id] = "EXC:" + type(e).__name__
                    continue
                ids = []
                for l in locs:
                    if l.resource.path != MODNAME:
                        continue
                    if l.offset in by_offset:
                        ids.append(by_offset[l.offset])
                    else:
                        stray.setdefault(t.id, []).append(l.offset)
                out[t.id] = sorted(set(ids))
            return out, stray
        finally:
            if proj is not None:
                proj.close()
    finally:
        shutil.rmtree(d, ignore_errors=True)


def history_dependent(src, first, other):
    """asks about the token at offset `first`, then about `other`, then about `first` again, in one project:
    (answer 1, answer 3) as offset lists"""
    from rope.base.project import Project
    from rope.contrib import findit
    d = tempfile.mkdtemp(prefix="ropeverif-c02-")
    try:
        with open(os.path.join(d, MODNAME), "w") as f:
            f.write(src)
        proj = Project(d, ropefolder=None)
        try:
            res = proj.get_resource(MODNAME)

            def ask(off):
                try:
                    return sorted(l.offset for l in findit.find_occurrences(proj, res, off))
                except Exception as e:  # noqa: BLE001
                    return "EXC:" + type(e).__name__
            a1 = ask(first)
            ask(other)
            return a1, ask(first)
        finally:
            proj.close()
    finally:
        shutil.rmtree(d, ignore_errors=True)


# ============================================================================ oracle
SCOPE_NODES = c15.SCOPE_NODES
COMP_NODES = c15.COMP_NODES


class _Where(ast.NodeVisitor):
    """the scope node in which CPython evaluates / binds each node (decorators, defaults, annotations, bases and
    the first iterable of a comprehension belong to the enclosing scope)"""

    def __init__(self, tree):
        self.scope_of = {}
        self.parent_scope = {}
        self.stack = [tree]
        self.generic_visit(tree)

    def visit(self, node):
        self.scope_of[id(node)] = self.stack[-1]
        m = getattr(self, "v_" + node.__class__.__name__, None)
        if m is not None:
            return m(node)
        return self.generic_visit(node)

    def _inside(self, scope, nodes):
        self.stack.append(scope)
        for n in nodes:
            self.visit(n)
        self.stack.pop()

    def v_FunctionDef(self, node):
        self.parent_scope[id(node)] = self.stack[-1]
        for d in node.decorator_list:
            self.visit(d)
        a = node.args
        for x in a.posonlyargs + a.args + a.kwonlyargs + [y for y in (a.vararg, a.kwarg) if y]:
            if x.annotation is not None:
                self.visit(x.annotation)
        for x in a.defaults + [y for y in a.kw_defaults if y is not None]:
            self.visit(x)
        if node.returns is not None:
            self.visit(node.returns)
        self.stack.append(node)
        for x in a.posonlyargs + a.args + a.kwonlyargs + [y for y in (a.vararg, a.kwarg) if y]:
            self.scope_of[id(x)] = node
        for s in node.body:
            self.visit(s)
        self.stack.pop()

    v_AsyncFunctionDef = v_FunctionDef

    def v_Lambda(self, node):
        self.parent_scope[id(node)] = self.stack[-1]
        a = node.args
        for x in a.defaults + [y for y in a.kw_defaults if y is not None]:
            self.visit(x)
        self.stack.append(node)
        for x in a.posonlyargs + a.args + a.kwonlyargs + [y for y in (a.vararg, a.kwarg) if y]:
            self.scope_of[id(x)] = node
        self.visit(node.body)
        self.stack.pop()

    def v_ClassDef(self, node):
        self.parent_scope[id(node)] = self.stack[-1]
        for d in node.decorator_list:
            self.visit(d)
        for b in node.bases:
            self.visit(b)
        for k in node.keywords:
            self.visit(k)
        self._inside(node, node.body)

    def _comp(self, node, elts):
        self.parent_scope[id(node)] = self.stack[-1]
        g0 = node.generators[0]
        self.visit(g0.iter)
        self.stack.append(node)
        self.scope_of[id(g0)] = node
        self.visit(g0.target)
        for c in g0.ifs:
            self.visit(c)
        for g in node.generators[1:]:
            self.visit(g)
        for e in elts:
            self.visit(e)
        self.stack.pop()

    def v_ListComp(self, node):
        self._comp(node, [node.elt])

    v_SetComp = v_ListComp
    v_GeneratorExp = v_ListComp

    def v_DictComp(self, node):
        self._comp(node, [node.key, node.value])


def _binders(tree, where, resolve_in):
    """{(owner scope node id, name): [("def", node) | ("class", node) | ("import", entity) | ("param", node) | ("other", node)]}
    owner = the scope the binding construct binds the name in (global declarations taken into account through
    resolve_in(scope_node, name) -> owner scope node | "B" | None)"""
    out = {}

    def add(scope, name, what):
        owner = resolve_in(scope, name)
        if owner is None or owner == "B" or owner == "?":
            return
        out.setdefault((id(owner), name), []).append(what)

    for n in ast.walk(tree):
        sc = where.scope_of.get(id(n))
        if sc is None:
            continue
        if isinstance(n, (ast.FunctionDef, ast.AsyncFunctionDef)):
            add(sc, n.name, ("def", n))
        elif isinstance(n, ast.ClassDef):
            add(sc, n.name, ("class", n))
        elif isinstance(n, ast.Name) and isinstance(n.ctx, (ast.Store, ast.Del)):
            add(sc, n.id, ("other", n))
        elif isinstance(n, ast.arg):
            add(sc, n.arg, ("param", n))
        elif isinstance(n, ast.Import):
            for a in n.names:
                if a.asname:
                    add(sc, a.asname, ("import", ("mod", 0, a.name)))
                else:
                    add(sc, a.name.split(".")[0], ("import", ("mod", 0, a.name.split(".")[0])))
        elif isinstance(n, ast.ImportFrom):
            for a in n.names:
                if a.name != "*":
                    add(sc, a.asname or a.name, ("import", ("name", n.level or 0, n.module or "", a.name)))
        elif isinstance(n, ast.ExceptHandler) and n.name:
            add(sc, n.name, ("other", n))
    return out


def oracle(src, tr, tokens, resolvable=()):
    """binding key and category of every token; None when the module cannot be analysed"""
    idents = sorted({t.name for t in tokens} | {"len", "__init__"})
    py_scopes, tree = c15.observe_python(src, idents)
    by_node = {id(p.node): p for p in py_scopes}
    where = _Where(tree)

    def resolve_in(scope_node, name):
        p = by_node[id(scope_node)]
        r = p.resolve.get(name)
        if r is None or r == "B" or r == "?":
            return r
        return r.node

    binders = _binders(tree, where, resolve_in)
    mixed = set()

    def var_key(scope_node, name):
        """key of the binding `name` resolves to from scope_node"""
        r = by_node[id(scope_node)].resolve.get(name)
        if r is None:
            return None
        if r == "B":
            return ("builtin",)
        if r == "?":
            return "U"
        bs = binders.get((id(r.node), name), [])
        imps = [b[1] for b in bs if b[0] == "import"]
        if imps:
            if len(imps) == len(bs) and len(set(imps)) == 1:
                return ("ent", imps[0])
            mixed.add((r.path, name))   # bound by an import and by something else: one variable of that scope
        return ("var", r.path)

    def unique_binder(scope_node, name):
        """(kind, node) when `name`, looked up from scope_node, denotes a binding made by exactly one construct"""
        r = by_node[id(scope_node)].resolve.get(name)
        if r is None or r == "B" or r == "?":
            return None
        bs = binders.get((id(r.node), name), [])
        if len(bs) == 1:
            return bs[0]
        return None

    def own_attrs(cls):
        names = {sym.get_name() for sym in by_node[id(cls)].table.get_symbols()
                 if sym.is_local() and not sym.get_name().startswith("__scope_")}
        for s in cls.body:
            if isinstance(s, (ast.FunctionDef, ast.AsyncFunctionDef)) and s.args.args:
                self_ = s.args.args[0].arg
                for n in ast.walk(s):
                    if (isinstance(n, ast.Attribute) and isinstance(n.ctx, ast.Store)
                            and isinstance(n.value, ast.Name) and n.value.id == self_):
                        names.add(n.attr)
        return names

    def visible_self_attrs(cls):
        """instance attributes assigned where rope's _ClassInitVisitor looks: assignment statements of a method,
        also inside if / while / try, but not inside for / with / nested definitions"""
        names = set()

        def targets(t, self_):
            if isinstance(t, ast.Attribute) and isinstance(t.value, ast.Name) and t.value.id == self_:
                names.add(t.attr)
            elif isinstance(t, (ast.Tuple, ast.List)):
                for e in t.elts:
                    targets(e, self_)
            elif isinstance(t, ast.Starred):
                targets(t.value, self_)

        def stmts(body, self_):
            for s in body:
                if isinstance(s, ast.Assign):
                    for t in s.targets:
                        targets(t, self_)
                elif isinstance(s, (ast.AugAssign, ast.AnnAssign)):
                    targets(s.target, self_)
                elif isinstance(s, (ast.If, ast.While)):
                    stmts(s.body, self_)
                    stmts(s.orelse, self_)
                elif isinstance(s, ast.Try):
                    stmts(s.body, self_)
                    for h in s.handlers:
                        stmts(h.body, self_)
                    stmts(s.orelse, self_)
                    stmts(s.finalbody, self_)

        for s in cls.body:
            if isinstance(s, (ast.FunctionDef, ast.AsyncFunctionDef)) and s.args.args:
                stmts(s.body, s.args.args[0].arg)
        return names

    hidden_attr = {}
    # names declared global in a class body (rope stores the module's PyName among the class's names)
    class_global = set()
    for p_ in py_scopes:
        if p_.kind == "Class":
            for sym in p_.table.get_symbols():
                if sym.is_declared_global() and not sym.get_name().startswith("__scope_"):
                    class_global.add(sym.get_name())

    def attr_key(cls, name, fuel=10):
        while fuel:
            fuel -= 1
            try:
                if by_node[id(cls)].table.lookup(name).is_declared_global():
                    class_global.add(name)
                    return "U"      # `global name` in a class body: no attribute of that name is defined by the class
            except KeyError:
                pass
            if name in own_attrs(cls):
                if name not in by_node[id(cls)].names and name not in visible_self_attrs(cls):
                    hidden_attr[(by_node[id(cls)].path, name)] = True
                bs = binders.get((id(cls), name), [])
                imps = [b[1] for b in bs if b[0] == "import"]
                if imps:
                    # an attribute bound by an import in the class body: the imported entity (as for plain names)
                    return ("ent", imps[0]) if len(imps) == len(bs) and len(set(imps)) == 1 else "U"
                return ("var", by_node[id(cls)].path)
            if len(cls.bases) != 1 or cls.keywords or not isinstance(cls.bases[0], ast.Name):
                return "U"
            b = unique_binder(where.scope_of[id(cls.bases[0])], cls.bases[0].id)
            if b is None or b[0] != "class":
                return "U"
            cls = b[1]
        return "U"

    def plain_method_self(fn):
        """the class whose instance the first parameter of fn is, when fn is a plain method"""
        parent = where.parent_scope.get(id(fn))
        if not isinstance(parent, ast.ClassDef) or fn not in parent.body:
            return None
        if fn.decorator_list or not fn.args.args or fn.args.posonlyargs:
            return None
        return parent

    def object_class(scope_node, name):
        """the class the plain name denotes (("class", K)) or is an instance of (("inst", K)), when static"""
        b = unique_binder(scope_node, name)
        if b is None:
            return None
        if b[0] == "class":
            return ("class", b[1])
        if b[0] == "param":
            r = by_node[id(scope_node)].resolve.get(name)
            fn = r.node
            if isinstance(fn, (ast.FunctionDef, ast.AsyncFunctionDef)) and fn.args.args and fn.args.args[0] is b[1]:
                k = plain_method_self(fn)
                if k is not None:
                    return ("inst", k)
        return None

    def params_of(fn):
        a = fn.args
        return [x.arg for x in a.args + a.kwonlyargs] + [x.arg for x in (a.vararg, a.kwarg) if x and False]

    pos_name = {}
    pos_arg = {}
    pos_kw = {}
    pos_attr = {}
    defs = {}
    handlers = []
    stmts = []
    calls_of_kw = {}
    for n in ast.walk(tree):
        if isinstance(n, ast.Name):
            pos_name[(n.lineno, n.col_offset)] = n
        elif isinstance(n, ast.arg):
            pos_arg[(n.lineno, n.col_offset)] = n
        elif isinstance(n, ast.Call):
            for k in n.keywords:
                if k.arg is not None:
                    pos_kw[(k.lineno, k.col_offset)] = k
                    calls_of_kw[id(k)] = n
        elif isinstance(n, ast.ClassDef):
            for k in n.keywords:
                if k.arg is not None:
                    pos_kw[(k.lineno, k.col_offset)] = k
            defs.setdefault((n.lineno, n.name), n)
        elif isinstance(n, (ast.FunctionDef, ast.AsyncFunctionDef)):
            defs.setdefault((n.lineno, n.name), n)
        elif isinstance(n, ast.Attribute):
            pos_attr[(n.end_lineno, n.end_col_offset - len(n.attr))] = n
        elif isinstance(n, ast.ExceptHandler):
            handlers.append(n)
        if isinstance(n, (ast.Import, ast.ImportFrom, ast.Global, ast.Nonlocal)):
            stmts.append(n)

    def stmt_at(line, types):
        for s in stmts:
            if isinstance(s, types) and s.lineno <= line <= s.end_lineno:
                return s
        return None

    key, cat = {}, {}
    base_of = {}
    tok_at = {(t.line, t.col): t.id for t in tokens}
    for t in tokens:
        pos = (t.line, t.col)
        k, c = "U", "name"
        if t.kind in ("KUse", "KStore", "KDel"):
            n = pos_name.get(pos)
            if n is not None:
                k = var_key(where.scope_of[id(n)], t.name)
        elif t.kind == "KParam":
            n = pos_arg.get(pos)
            if n is not None:
                k = var_key(where.scope_of[id(n)], t.name)
        elif t.kind in ("KDefName", "KClassName"):
            n = defs.get((t.line, t.name))
            if n is not None:
                k = var_key(where.scope_of[id(n)], t.name)
        elif t.kind == "KExceptName":
            for h in handlers:
                if h.name == t.name and h.lineno <= t.line <= (h.body[0].lineno if h.body else h.end_lineno):
                    k = var_key(where.scope_of[id(h)], t.name)
                    break
        elif t.kind == "KGlobalDecl":
            s = stmt_at(t.line, (ast.Global,))
            if s is not None:
                k = var_key(where.scope_of[id(s)], t.name)
        elif t.kind == "KNonlocalDecl":
            s = stmt_at(t.line, (ast.Nonlocal,))
            if s is not None:
                k = var_key(where.scope_of[id(s)], t.name)
        elif t.kind == "KAlias":
            s = stmt_at(t.line, (ast.Import, ast.ImportFrom))
            if s is not None:
                k = var_key(where.scope_of[id(s)], t.name)
        elif t.kind == "KImportName":
            c = "import"
            s = stmt_at(t.line, (ast.ImportFrom,))
            if s is not None:
                al = [a for a in s.names if a.name == t.name and (a.lineno, a.col_offset) == pos]
                if al and al[0].asname is None:
                    k = var_key(where.scope_of[id(s)], t.name)
                elif al:
                    k = ("ent", ("name", s.level or 0, s.module or "", t.name))
                    va = var_key(where.scope_of[id(s)], al[0].asname)
                    if isinstance(va, tuple) and va[0] == "var" and (va[1], al[0].asname) in mixed:
                        k = "U"     # rope evaluates this token through the alias, which is not only an import
        elif t.kind == "KImportMod" and stmt_at(t.line, (ast.ImportFrom,)) is not None:
            c = "import"
            s = stmt_at(t.line, (ast.ImportFrom,))
            if s.module and "." not in s.module and s.module == t.name and not s.level and s.module in resolvable:
                k = ("ent", ("mod", 0, s.module))       # the module of an absolute `from m import ..`
        elif t.kind == "KImportMod":
            c = "import"
            s = stmt_at(t.line, (ast.Import,))
            if s is not None:
                al = [a for a in s.names if a.asname is None and a.name.split(".")[0] == t.name]
                first = [a for a in s.names if a.name.split(".")[0] == t.name]
                if al and len(first) == len(al) and all("." not in a.name for a in al):
                    k = var_key(where.scope_of[id(s)], t.name)
                else:
                    k = "U"
        elif t.kind == "KKwArg":
            c = "kw"
            n = pos_kw.get(pos)
            call = calls_of_kw.get(id(n)) if n is not None else None
            if call is not None and isinstance(call.func, ast.Name):
                base_of[t.id] = tok_at.get((call.func.lineno, call.func.col_offset))
                b = unique_binder(where.scope_of[id(call.func)], call.func.id)
                fn = None
                if b is not None and b[0] == "def":
                    fn = b[1]
                elif b is not None and b[0] == "class":
                    inits = [s for s in ast.walk(b[1]) if False]
                    cands = binders.get((id(b[1]), "__init__"), [])
                    if len(cands) == 1 and cands[0][0] == "def" and "__init__" in own_attrs(b[1]):
                        fn = cands[0][1]
                if fn is not None:
                    a = fn.args
                    if t.name in [x.arg for x in a.args + a.kwonlyargs]:
                        k = ("var", by_node[id(fn)].path)
        elif t.kind == "KAttr":
            c = "attr"
            n = pos_attr.get(pos)
            if n is not None and isinstance(n.value, ast.Name):
                base_of[t.id] = tok_at.get((n.value.lineno, n.value.col_offset))
                oc = object_class(where.scope_of[id(n.value)], n.value.id)
                if oc is not None:
                    k = attr_key(oc[1], t.name)
        key[t.id] = k
        cat[t.id] = c
    info = Observed()
    info.py_scopes = py_scopes
    info.by_node = by_node
    info.tree = tree
    info.where = where
    info.hidden_attr = hidden_attr
    info.attr_key = attr_key
    info.binders = binders
    info.class_global = class_global
    info.mixed = mixed
    info.base_of = base_of
    return key, cat, info


def owner_kind(info, k):
    """kind of the scope a ("var", path) key names"""
    for p in info.py_scopes:
        if p.path == k[1]:
            return p.kind
    return None


def judge(o):
    """oracle verdicts: list of dicts {query, kind: missing|extra|stray|exception, tokens}"""
    out = []
    by_id = {t.id: t for t in o.tokens}
    for q in o.tokens:
        if q.id in o.stray:
            out.append({"kind": "stray", "query": q.id, "tokens": [], "offsets": sorted(o.stray[q.id])})
        r = o.rope[q.id]
        kq = o.key[q.id]
        if isinstance(r, str):
            out.append({"kind": "exception", "query": q.id, "tokens": [], "exc": r})
            continue
        if kq == "U" or kq is None:
            continue
        want = {t.id for t in o.tokens if t.name == q.name and o.key[t.id] == kq}
        got = set(r)
        missing = sorted(want - got)
        extra = []
        for i in sorted(got - want):
            ki = o.key[i]
            if o.cat[i] == "import" and kq[0] == "var" and (kq[1], q.name) in o.info.mixed:
                continue            # the imported name of `import .. as v` for a variable v that is also bound otherwise
            if (o.cat[q.id] == "import" and kq[0] == "ent" and isinstance(ki, tuple) and ki[0] == "var"
                    and (ki[1], q.name) in o.info.mixed):
                continue            # ... and the other way round
            if ki == "U":
                c = o.cat[i]
                if c == "kw" and kq[0] == "var" and owner_kind(o.info, kq) in ("Function", "Lambda"):
                    continue        # a keyword of a call whose callee is not static may belong to a parameter
                if c == "attr" and (kq[0] == "ent" or (kq[0] == "var" and owner_kind(o.info, kq) == "Class")):
                    continue        # an attribute of an object that is not static may belong to a class attribute
                if c in ("name", "import") and by_id[i].kind in ("KUse", "KStore", "KDel", "KAlias", "KImportMod", "KImportName") \
                        and kq[0] == "ent":
                    continue
            extra.append(i)
        if missing:
            out.append({"kind": "missing", "query": q.id, "tokens": missing})
        if extra:
            out.append({"kind": "extra", "query": q.id, "tokens": extra})
    return out


# ============================================================================ skip set (textual situations outside the model)
def skip_ids(src, tr, tokens, kwl):
    """token ids the Coq model does not speak about, with the reason (structural facts from ast / tokenize only).
    Since the repairs 417bae9 / 61b2b10 / 9405717 / b5db6ac no textual situation is excluded any more: a token that
    looks like a keyword argument without being one (impossible in valid Python now) is the only entry left."""
    out = {}
    for t in tokens:
        if t.id in kwl and t.kind not in ("KKwArg", "KParam"):
            out.setdefault(t.id, "kwlike-" + t.kind)
    return out


def hint_crash_shape(tree, name):
    """a class assigns `name` (assignment statement, for / with target) and a base class written as a plain name is a
    class of the module that binds `name` by an import, a def or a class (rope's inheritance-based assignment hint then
    hands an ImportedModule / ImportedName / DefinedName to code that expects an AssignedName)"""
    classes = [n for n in ast.walk(tree) if isinstance(n, ast.ClassDef)]

    def block_stmts(body):
        for st in body:
            yield st
            if isinstance(st, (ast.FunctionDef, ast.AsyncFunctionDef, ast.ClassDef)):
                continue
            for f in ("body", "orelse", "finalbody"):
                yield from block_stmts(getattr(st, f, []) or [])
            for h in getattr(st, "handlers", []) or []:
                yield from block_stmts(h.body)

    def imports(cls):
        # names the class binds by something that is not an assignment: import, def, class
        out = set()
        for st in block_stmts(cls.body):
            if isinstance(st, ast.Import):
                out |= {a.asname or a.name.split(".")[0] for a in st.names}
            elif isinstance(st, ast.ImportFrom):
                out |= {a.asname or a.name for a in st.names}
            elif isinstance(st, (ast.FunctionDef, ast.AsyncFunctionDef, ast.ClassDef)):
                out.add(st.name)
        return out

    def assigns(cls):
        out = set()
        for st in block_stmts(cls.body):
            ts = []
            if isinstance(st, ast.Assign):
                ts = st.targets
            elif isinstance(st, (ast.For, ast.AnnAssign)):
                ts = [st.target]
            elif isinstance(st, ast.With):
                ts = [i.optional_vars for i in st.items if i.optional_vars is not None]
            for t in ts:
                out |= {n.id for n in ast.walk(t) if isinstance(n, ast.Name)}
        return out

    # the crash happens while the object of that attribute is inferred, which any query whose candidates are evaluated
    # through it can trigger (a keyword argument of a call of it, an attribute of it): `name` None = any such attribute
    for k in classes:
        for nm in assigns(k):
            if name is not None and nm != name:
                continue
            for b in k.bases:
                if isinstance(b, ast.Name) and any(c.name == b.id and nm in imports(c) for c in classes):
                    return True
    return False


# ============================================================================ Gallina
def g_path(p):
    return "[" + "; ".join("%d%%nat" % i for i in p) + "]"


def g_key(k):
    if k is None:
        return "BNone"
    if k == ("builtin",):
        return "BBuiltin"
    if k[0] == "var":
        return "(BScope %s)" % g_path(k[1])
    return None


def case_term(o):
    tr = o.tr
    idents = sorted({t.name for t in o.tokens} | {"len", "__init__", "__call__", "staticmethod", "classmethod", "property"})
    import builtins as _b
    bi = [x for x in idents if x in set(dir(_b))]
    rope = []
    for t in o.tokens:
        r = o.rope[t.id]
        rope.append("(%d%%N, %s)" % (t.id, "[999999%N]" if isinstance(r, str) else
                                     "[" + "; ".join("%d%%N" % i for i in r) + "]"))
    py = []
    for t in o.tokens:
        if t.kind in ("KUse", "KStore", "KDel", "KParam", "KDefName", "KClassName", "KExceptName", "KGlobalDecl",
                      "KAlias") or (t.kind in ("KImportMod", "KImportName") and o.varkey.get(t.id) is not None):
            vk = o.varkey.get(t.id, "U")
            g = g_key(vk) if vk != "U" else None
            if g is not None:
                py.append("(%d%%N, %s)" % (t.id, g))
    # interning must be complete before the program term is used: all spellings are already interned by the
    # translator except the special ones
    gi = tr.g_idents
    special = (tr.g_ident("__init__"), tr.g_ident("__call__"), gi(["staticmethod", "classmethod"]), tr.g_ident("property"))
    return ("{| c_prog := %s;\n c_nlines := %d%%N; c_builtins := %s; c_idents := %s;\n c_init := %s; c_call := %s; c_odd := %s; c_prop := %s;\n"
            " c_kwlike := %s; c_skip := %s;\n c_rope := %s;\n c_py := %s |}" % (
                tr.prog, tr.nlines, gi(bi), gi(idents), special[0], special[1], special[2], special[3],
                "[" + "; ".join("%d%%N" % i for i in sorted(o.kwlike)) + "]",
                "[" + "; ".join("%d%%N" % i for i in sorted(o.skip)) + "]",
                "[" + "; ".join(rope) + "]", "[" + "; ".join(py) + "]"))


HEADER = ("From Coq Require Import List NArith Bool.\nImport ListNotations.\n"
          "From RopeVerif.C15 Require Import Syntax Scoping RopeScopes Fragment.\n"
          "From RopeVerif.C02 Require Import Occurrences Runner.\n")


# ============================================================================ one module
def observe(src, with_rope=True, fresh=False, resolvable=()):
    tr = c15_gen.to_gallina(src)
    if tr is None:
        return None
    o = Observed()
    o.src = src
    o.tr = tr
    o.tokens = tokens_of(tr, src)
    o.kwlike = kwlike_ids(src) & {t.id for t in o.tokens}
    o.skip = skip_ids(src, tr, o.tokens, o.kwlike)
    if with_rope:
        o.rope, o.stray = observe_rope(src, o.tokens, fresh=fresh)
        # offsets rope may report that are NAME tokens but not identifiers of the program (keywords): stray
        for t in o.tokens:
            if o.rope[t.id] == "EXC:AttributeError" and hint_crash_shape(tr.tree, None):
                o.skip[t.id] = "inherited-import-attribute-hint-crash"
    o.key, o.cat, o.info = oracle(src, tr, o.tokens, resolvable)
    # the scoping binding without import transparency (what the Coq SPEC computes): owner scope of the name
    o.varkey = scoping_keys(o)
    return o


def scoping_keys(o):
    """token id -> ("var", path) | ("builtin",) | None : plain symtable resolution of the token's name from the scope
    CPython evaluates it in (no import transparency); only for the tokens whose binding needs no object knowledge"""
    info = o.info
    where, by_node = info.where, info.by_node
    tree = info.tree
    pos_name, pos_arg, defs, handlers, stmts = {}, {}, {}, [], []
    for n in ast.walk(tree):
        if isinstance(n, ast.Name):
            pos_name[(n.lineno, n.col_offset)] = n
        elif isinstance(n, ast.arg):
            pos_arg[(n.lineno, n.col_offset)] = n
        elif isinstance(n, (ast.FunctionDef, ast.AsyncFunctionDef, ast.ClassDef)):
            defs.setdefault((n.lineno, n.name), n)
        elif isinstance(n, ast.ExceptHandler):
            handlers.append(n)
        elif isinstance(n, (ast.Import, ast.ImportFrom, ast.Global)):
            stmts.append(n)

    def res(node, name):
        r = by_node[id(where.scope_of[id(node)])].resolve.get(name)
        if r is None:
            return None
        if r == "B":
            return ("builtin",)
        if r == "?":
            return "U"
        return ("var", r.path)

    out = {}
    for t in o.tokens:
        pos = (t.line, t.col)
        n = None
        if t.kind in ("KUse", "KStore", "KDel"):
            n = pos_name.get(pos)
        elif t.kind == "KParam":
            n = pos_arg.get(pos)
        elif t.kind in ("KDefName", "KClassName"):
            n = defs.get((t.line, t.name))
        elif t.kind == "KExceptName":
            for h in handlers:
                if h.name == t.name and h.lineno <= t.line <= (h.body[0].lineno if h.body else h.end_lineno):
                    n = h
                    break
        elif t.kind in ("KGlobalDecl", "KAlias"):
            for s in stmts:
                if s.lineno <= t.line <= s.end_lineno:
                    n = s
                    break
        elif t.kind == "KImportName":
            for s in stmts:
                if isinstance(s, ast.ImportFrom) and s.lineno <= t.line <= s.end_lineno:
                    if any(a.name == t.name and a.asname is None and (a.lineno, a.col_offset) == pos for a in s.names):
                        n = s
                    break
        elif t.kind == "KImportMod":
            for s in stmts:
                if isinstance(s, ast.Import) and s.lineno <= t.line <= s.end_lineno:
                    if any(a.asname is None and a.name.split(".")[0] == t.name for a in s.names) and \
                            not any(a.asname is not None and t.name in a.name.split(".") for a in s.names):
                        # only the first component of an un-aliased import is a plain name for the model
                        firsts = [a for a in s.names if a.asname is None and a.name.split(".")[0] == t.name]
                        col_ok = True
                        n = s if col_ok else None
                    break
        if n is not None:
            out[t.id] = res(n, t.name)
    return out


# ============================================================================ two-module projects (oracle only)
LIBNAME = "lib.py"


def observe_project(files, passes=1):
    """passes=2: every query is asked twice and the second answer kept (a project that has already answered queries).
    files: {path: source}. Returns {path: Observed} with .rope2[token id] = sorted [(path, token id)] | "EXC:.." and
    .stray2[token id] = [(path, offset)], all queries asked one after the other in one project."""
    from rope.base.project import Project
    from rope.contrib import findit
    obs = {}
    for path, src in files.items():
        if not (path == LIBNAME or path.endswith(MODNAME)):
            continue            # a decoy (pkg/__init__.py, pkg/lib.py): written, never queried; a hit there is stray
        o = observe(src, with_rope=False, resolvable=(LIBNAME[:-3],))
        if o is None:
            return None
        obs[path] = o
    d = tempfile.mkdtemp(prefix="ropeverif-c02-")
    try:
        for path, src in files.items():
            os.makedirs(os.path.dirname(os.path.join(d, path)), exist_ok=True)
            with open(os.path.join(d, path), "w") as f:
                f.write(src)
        proj = Project(d, ropefolder=None)
        try:
            by_offset = {(path, t.offset): t.id for path, o in obs.items() for t in o.tokens}
            for _pass in range(passes - 1):
                for path, o in obs.items():
                    res = proj.get_resource(path)
                    for t in o.tokens:
                        try:
                            findit.find_occurrences(proj, res, t.offset)
                        except Exception:  # noqa: BLE001
                            pass
            for path, o in obs.items():
                res = proj.get_resource(path)
                o.rope2, o.stray2 = {}, {}
                for t in o.tokens:
                    try:
                        locs = findit.find_occurrences(proj, res, t.offset)
                    except Exception as e:  # noqa: BLE001
                        o.rope2[t.id] = "EXC:" + type(e).__name__
                        continue
                    ids = []
                    for l in locs:
                        k = (l.resource.path, l.offset)
                        if k in by_offset:
                            ids.append((l.resource.path, by_offset[k]))
                        else:
                            o.stray2.setdefault(t.id, []).append(k)
                    o.rope2[t.id] = sorted(set(ids))
            if passes == 1:
                rename_consistency(proj, files, obs)
        finally:
            proj.close()
    finally:
        shutil.rmtree(d, ignore_errors=True)
    return obs


RENAMED = "zz_renamed"


def rename_consistency(proj, files, obs, limit=24):
    """the other observable of the property: the tokens Rename rewrites.  For the queries whose answer spans both
    modules (and a few others) Rename(project, resource, offset).get_changes(new) must rewrite exactly the tokens
    find_occurrences reports - in every file.  o.rename_diff[token id] = [path, ...] lists the files whose text after
    the rename differs from 'every reported token replaced'."""
    from rope.refactor.rename import Rename
    for path, o in obs.items():
        o.rename_diff = {}
    picked = 0
    for path, o in obs.items():
        res = proj.get_resource(path)
        toks = {t.id: t for t in o.tokens}
        for t in o.tokens:
            r = o.rope2[t.id]
            if isinstance(r, str) or not r or t.kind in ("KImportMod",) or picked >= limit:
                continue
            if len({m for m, _ in r}) < 2:
                continue
            picked += 1
            try:
                changes = Rename(proj, res, t.offset).get_changes(RENAMED)
            except Exception:  # noqa: BLE001 - refusals (builtins, bad identifiers) are not this check's subject
                continue
            new_text = {}
            moved = False
            for c in changes.changes:
                if hasattr(c, "new_contents"):
                    new_text[c.resource.path] = c.new_contents
                else:
                    moved = True
            if moved:
                continue
            bad = []
            for p2, o2 in obs.items():
                src = files[p2]
                spots = sorted((tk.offset for tk in o2.tokens if (p2, tk.id) in set(r)), reverse=True)
                want = src
                for off in spots:
                    want = want[:off] + RENAMED + want[off + len(t.name):]
                if new_text.get(p2, src) != want:
                    bad.append(p2)
            if bad:
                o.rename_diff[t.id] = bad


def module_level_names(o):
    """{name: ("def", node) | ("class", node) | ("var", None)} for the names the module binds at module level by
    exactly one kind of construct (def / class once, or assignments only)"""
    out = {}
    kinds = {}
    for n in o.info.tree.body:
        if isinstance(n, (ast.FunctionDef, ast.AsyncFunctionDef)):
            kinds.setdefault(n.name, []).append(("def", n))
        elif isinstance(n, ast.ClassDef):
            kinds.setdefault(n.name, []).append(("class", n))
    root = o.info.py_scopes[0]
    for name in root.names:
        ks = kinds.get(name, [])
        bs = o.info.binders.get((id(o.info.tree), name), [])
        if len(bs) == 1 and len(ks) == 1:
            out[name] = ks[0]
        elif bs and all(b[0] == "other" for b in bs):
            out[name] = ("var", None)
    return out


def project_keys(obs):
    """canonical keys across the two modules: (module path, key) ; imported entities of lib are mapped onto lib's own
    bindings; an attribute of the imported module / a keyword of an imported def likewise"""
    lib = obs[LIBNAME]
    libnames = module_level_names(lib)
    stem = LIBNAME[:-3]
    keys = {}
    for path, o in obs.items():
        for t in o.tokens:
            k = o.key[t.id]
            if isinstance(k, tuple) and k[0] == "ent":
                e = k[1]
                if e[0] == "name" and e[1] == 0 and e[2] == stem:
                    k = (LIBNAME, ("var", ()), e[3]) if e[3] in libnames else "U"
                elif e[0] == "mod" and e[1] == 0 and e[2] == stem:
                    k = ("module", stem)
                # any other imported entity: the same thing whichever module imports it (both are at the root)
            elif k not in ("U", None) and k != ("builtin",):
                k = (path, k, t.name)
            keys[(path, t.id)] = k
    main = [p for p in obs if p != LIBNAME][0]
    o = obs[main]
    info = o.info
    by_pos = {(t.line, t.col): t for t in o.tokens}
    # `from lib import *` at module level: a name the module does not bind itself is lib's public name
    star = any(isinstance(n, ast.ImportFrom) and (n.level or 0) == 0 and n.module == stem
               and any(a.name == "*" for a in n.names) for n in info.tree.body)
    if star:
        lib_public = {s_.get_name() for s_ in lib.info.py_scopes[0].table.get_symbols()
                      if s_.is_local() and not s_.get_name().startswith("_")}
        for t in o.tokens:
            if o.key[t.id] in (None, ("builtin",)) and o.cat[t.id] == "name" and t.name in lib_public:
                keys[(main, t.id)] = (LIBNAME, ("var", ()), t.name) if t.name in libnames else "U"

    def imported_entity(name_node):
        t = by_pos.get((name_node.lineno, name_node.col_offset))
        return o.key.get(t.id) if t is not None else None

    def lib_class_attr(cls_name, attr):
        """key of the attribute `attr` of lib's class cls_name (class-body names and self attributes, single inheritance
        inside lib), as lib's own oracle sees it"""
        target = libnames.get(cls_name)
        if not target or target[0] != "class":
            return "U"
        k = lib.info.attr_key(target[1], attr)
        if isinstance(k, tuple) and k[0] == "var":
            if (k[1], attr) in lib.info.hidden_attr:
                main_hidden.add(attr)
            return (LIBNAME, k, attr)
        return "U"

    main_hidden = set()
    for n in ast.walk(info.tree):
        if isinstance(n, ast.Attribute) and isinstance(n.value, ast.Name):
            e = imported_entity(n.value)
            t = by_pos.get((n.end_lineno, n.end_col_offset - len(n.attr)))
            if t is not None and e == ("ent", ("mod", 0, stem)):
                keys[(main, t.id)] = (LIBNAME, ("var", ()), n.attr) if n.attr in libnames else "U"
            elif t is not None and isinstance(e, tuple) and e[0] == "ent" and e[1][0] == "name" and e[1][1] == 0 \
                    and e[1][2] == stem:
                # an attribute of a class imported from lib:  K.attr
                keys[(main, t.id)] = lib_class_attr(e[1][3], n.attr)
        elif isinstance(n, ast.Attribute) and isinstance(n.value, ast.Attribute) and isinstance(n.value.value, ast.Name):
            # lib.K.attr
            e = imported_entity(n.value.value)
            t = by_pos.get((n.end_lineno, n.end_col_offset - len(n.attr)))
            if t is not None and e == ("ent", ("mod", 0, stem)):
                keys[(main, t.id)] = lib_class_attr(n.value.attr, n.attr)
        elif isinstance(n, ast.Call) and isinstance(n.func, ast.Name):
            e = imported_entity(n.func)
            if isinstance(e, tuple) and e[0] == "ent" and e[1][0] == "name" and e[1][1] == 0 and e[1][2] == stem:
                target = libnames.get(e[1][3])
                fn = None
                if target and target[0] == "def":
                    fn = target[1]
                elif target and target[0] == "class":
                    inits = lib.info.binders.get((id(target[1]), "__init__"), [])
                    if len(inits) == 1 and inits[0][0] == "def" and not target[1].bases:
                        fn = inits[0][1]
                for kw in n.keywords:
                    t = by_pos.get((kw.lineno, kw.col_offset)) if kw.arg else None
                    if t is None:
                        continue
                    if fn is not None and kw.arg in [a.arg for a in fn.args.args + fn.args.kwonlyargs]:
                        keys[(main, t.id)] = (LIBNAME, ("var", lib.info.by_node[id(fn)].path), kw.arg)
                    else:
                        keys[(main, t.id)] = "U"
    return keys


def judge_project(obs):
    keys = project_keys(obs)
    toks = {(p, t.id): t for p, o in obs.items() for t in o.tokens}
    out = []
    for (p, i), q in toks.items():
        o = obs[p]
        r = o.rope2[i]
        if i in o.stray2:
            out.append({"kind": "stray", "module": p, "query": i, "tokens": [], "offsets": o.stray2[i]})
        if isinstance(r, str):
            out.append({"kind": "exception", "module": p, "query": i, "tokens": [], "exc": r})
            continue
        kq = keys[(p, i)]
        if kq == "U" or kq is None:
            continue
        want = {k for k, t in toks.items() if t.name == q.name and keys[k] == kq}
        got = set(r)
        missing = sorted(want - got)
        extra = []
        for k in sorted(got - want):
            kk = keys[k]
            c = obs[k[0]].cat[k[1]]
            if kk == "U" and c in ("kw", "attr"):
                continue
            if (c == "import" or obs[p].cat[i] == "import") and kk == "U":
                continue            # dotted components / aliased names of import statements: not static here
            extra.append(k)
        if missing:
            out.append({"kind": "missing", "module": p, "query": i, "tokens": missing})
        if extra:
            out.append({"kind": "extra", "module": p, "query": i, "tokens": extra})
    for p, o in obs.items():
        for i, bad in getattr(o, "rename_diff", {}).items():
            out.append({"kind": "rename", "module": p, "query": i, "tokens": [], "files": bad})
    return out, keys


def observe_sequence(files_v1, lib_v2):
    """one live project: every token of the first version is queried, then lib.py is rewritten THROUGH ROPE
    (resource.write), then every token of both modules is queried again.  Returns the Observed of the final files with
    .rope2 / .stray2 from the live project (same layout as observe_project)."""
    from rope.base.project import Project
    from rope.contrib import findit
    final = dict(files_v1)
    final[LIBNAME] = lib_v2
    obs1 = {p: observe(src, with_rope=False, resolvable=(LIBNAME[:-3],)) for p, src in files_v1.items()}
    obs = {p: observe(src, with_rope=False, resolvable=(LIBNAME[:-3],)) for p, src in final.items()}
    if any(o is None for o in list(obs1.values()) + list(obs.values())):
        return None
    d = tempfile.mkdtemp(prefix="ropeverif-c02-")
    try:
        for path, src in files_v1.items():
            with open(os.path.join(d, path), "w") as f:
                f.write(src)
        proj = Project(d, ropefolder=None)
        try:
            for path, o in obs1.items():            # step 1: warm every cache
                res = proj.get_resource(path)
                for t in o.tokens:
                    try:
                        findit.find_occurrences(proj, res, t.offset)
                    except Exception:  # noqa: BLE001
                        pass
            proj.get_resource(LIBNAME).write(lib_v2)  # step 2: the edit, through the rope API
            by_offset = {(path, t.offset): t.id for path, o in obs.items() for t in o.tokens}
            for path, o in obs.items():             # step 3
                res = proj.get_resource(path)
                o.rope2, o.stray2 = {}, {}
                for t in o.tokens:
                    try:
                        locs = findit.find_occurrences(proj, res, t.offset)
                    except Exception as e:  # noqa: BLE001
                        o.rope2[t.id] = "EXC:" + type(e).__name__
                        continue
                    ids = []
                    for l in locs:
                        k = (l.resource.path, l.offset)
                        if k in by_offset:
                            ids.append((l.resource.path, by_offset[k]))
                        else:
                            o.stray2.setdefault(t.id, []).append(k)
                    o.rope2[t.id] = sorted(set(ids))
        finally:
            proj.close()
    finally:
        shutil.rmtree(d, ignore_errors=True)
    return obs


# ============================================================================ two-module projects inside the Coq model
HEADER2 = HEADER + "From RopeVerif.C02 Require Import Project ProjectRunner.\n"
_OCC = re.compile(r"\(Occ (\d+)%N (K\w+) (\d+)%N\)")


def enc(path, tid):
    return 2 * tid + (1 if path == LIBNAME else 0)


def project_programs(obs):
    """(lib program term, main program term, intern function): both programs over ONE interning table"""
    lib, main = obs[LIBNAME], obs[[p for p in obs if p != LIBNAME][0]]
    table = list(lib.tr.idents)
    index = {x: i for i, x in enumerate(table)}

    def intern(x):
        if x not in index:
            index[x] = len(table)
            table.append(x)
        return index[x]

    mapping = {i: intern(x) for i, x in enumerate(main.tr.idents)}
    main_prog = _OCC.sub(lambda m: "(Occ %s%%N %s %d%%N)" % (m.group(1), m.group(2), mapping[int(m.group(3))]), main.tr.prog)
    return lib.tr.prog, main_prog, intern


def project_case_term(obs, keys):
    """Gallina term of type ProjectRunner.case2: both programs over ONE interning table"""
    lib, main = obs[LIBNAME], obs[[p for p in obs if p != LIBNAME][0]]
    mainpath = [p for p in obs if p != LIBNAME][0]
    table = list(lib.tr.idents)
    index = {x: i for i, x in enumerate(table)}

    def intern(x):
        if x not in index:
            index[x] = len(table)
            table.append(x)
        return index[x]

    mapping = {i: intern(x) for i, x in enumerate(main.tr.idents)}
    main_prog = _OCC.sub(lambda m: "(Occ %s%%N %s %d%%N)" % (m.group(1), m.group(2), mapping[int(m.group(3))]), main.tr.prog)
    for x in ("len", "__init__", "__call__", "staticmethod", "classmethod", "property", LIBNAME[:-3]):
        intern(x)
    import builtins as _b
    names = sorted({t.name for o in (lib, main) for t in o.tokens} | {"len", "__init__", "__call__", "staticmethod",
                                                                        "classmethod", "property", LIBNAME[:-3]})
    gi = lambda xs: "[" + "; ".join("%d%%N" % intern(x) for x in xs) + "]"
    bi = [x for x in names if x in set(dir(_b))]
    # tokens outside the model: an imported name of lib that has a homonym bound on the same line in lib
    lines = {}
    for t in lib.tokens:
        if t.kind in ("KStore", "KParam", "KDefName", "KClassName", "KExceptName", "KAlias", "KImportName"):
            lines.setdefault(keys[(LIBNAME, t.id)], set()).add(t.line)
    clash = set()
    ks = [k for k in lines if isinstance(k, tuple) and len(k) == 3]
    for k1 in ks:
        for k2 in ks:
            if k1 != k2 and k1[2] == k2[2] and lines[k1] & lines[k2]:
                clash.add(k1[2])
    # ... and only when the importing module really imports that name from lib (the import clause of same_pyname is
    # what compares definition locations by line)
    imported = set()
    for n in ast.walk(main.info.tree):
        if isinstance(n, ast.ImportFrom) and not n.level and n.module == LIBNAME[:-3]:
            imported |= {a.name for a in n.names}
    clash &= imported
    skip = [enc(pth, t.id) for pth, o in obs.items() for t in o.tokens if t.name in clash or t.id in o.skip]
    rope = []
    for pth, o in obs.items():
        for t in o.tokens:
            r = o.rope2[t.id]
            ans = "[999999%N]" if isinstance(r, str) else "[" + "; ".join("%d%%N" % enc(m, i) for (m, i) in r) + "]"
            rope.append("(%d%%N, %s)" % (enc(pth, t.id), ans))
    nl = lambda xs: "[" + "; ".join("%d%%N" % i for i in sorted(xs)) + "]"
    return ("{| p_lib := %s;\n p_main := %s;\n p_builtins := %s; p_idents := %s;\n p_init := %d%%N; p_call := %d%%N; "
            "p_odd := %s; p_prop := %d%%N; p_libname := %d%%N;\n p_kw_lib := %s; p_kw_main := %s; p_skip := %s;\n p_rope := %s |}"
            % (lib.tr.prog, main_prog, gi(bi), gi(names), intern("__init__"), intern("__call__"),
               gi(["staticmethod", "classmethod"]), intern("property"), intern(LIBNAME[:-3]),
               nl(lib.kwlike), nl(main.kwlike), nl(skip), "[" + "; ".join(rope) + "]"))
