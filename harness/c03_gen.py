"""C03 helper: the Flow fragment (IR), generator, renderer, ast -> IR abstraction, Gallina printer.

IR (plain tuples, JSON-able):
  expr  := ["v", name] | ["c", int] | ["b", op, e1, e2]        op in + - * < == !=
         | ["sum", v, k, body, form]   sum([body for v in range(k)]) (form "list") / sum(body for v in range(k)) ("gen")
  stmt  := ["assign", x, e] | ["aug", x, op, e] | ["print", e] | ["if", c, body, orelse]
         | ["while", c, body, orelse] | ["for", x, e, body, orelse]  (for x in range(e); orelse = else-clause)
         | ["return", e] | ["pass"] | ["break"] | ["continue"]
         | ["call", rets, args, body, tail]   (only in results: outlined call with the callee's body inlined)
A host is {"pos": "function"|"method"|"module", "params": [names], "body": [stmt]}.
"""
import ast

ARITH = ["+", "-", "*"]
CMP = ["<", "==", "!="]
OPNAME = {"+": "Add", "-": "Sub", "*": "Mul", "<": "Lt", "==": "Eq", "!=": "Ne"}
ASTOP = {ast.Add: "+", ast.Sub: "-", ast.Mult: "*", ast.Lt: "<", ast.Eq: "==", ast.NotEq: "!="}

# interning of identifiers: the collector also sees the names `print` and `range`
NAMES = ["print", "range", "self", "a", "b", "x", "y", "z", "w", "i", "j", "sum", "v"]
IDX = {n: k for k, n in enumerate(NAMES)}
PARAMS = ["a", "b"]
LOCALS = ["x", "y", "z", "w"]


# ----------------------------------------------------------------------------- generator
class Gen:
    def __init__(self, rng, stream):
        self.rng = rng
        self.stream = stream            # "init" | "partial"
        self.budget = 0
        self.vars = []

    def comp(self):
        """A comprehension: the loop variable is sometimes a name of the function (shadowing), the range is a
        constant or a parameter (small), the body mentions the loop variable and other names."""
        r = self.rng
        v = r.choice(["i", "j"] + self.vars) if r.random() < 0.7 else r.choice(self.vars)
        k = ["c", r.choice([0, 1, 2, 3])] if r.random() < 0.5 else ["v", r.choice(self.params)]
        body = ["b", r.choice(["+", "*", "-"]), ["v", v], ["v", r.choice(self.vars)] if r.random() < 0.7 else ["c", 2]]
        if body[1] == "*" and body[3][0] == "v":
            body[1] = "+"
        return ["sum", v, k, body, r.choice(["list", "gen"])]

    def expr(self, depth=0):
        r = self.rng
        if depth <= 1 and r.random() < 0.06:
            return self.comp()
        k = r.random()
        if depth >= 2 or k < 0.45:
            if r.random() < 0.72:
                return ["v", r.choice(self.vars)]
            return ["c", r.choice([0, 1, 2, 3, 5])]
        op = r.choice(ARITH)
        if op == "*":          # one operand constant: values stay small enough to execute thousands of steps
            return ["b", op, self.expr(depth + 1), ["c", r.choice([2, 3])]]
        return ["b", op, self.expr(depth + 1), self.expr(depth + 1)]

    def cond(self):
        r = self.rng
        k = r.random()
        if k < 0.25:
            return ["v", r.choice(self.vars)]
        return ["b", r.choice(CMP), ["v", r.choice(self.vars)],
                ["c", r.choice([0, 1, 2, 3])] if r.random() < 0.7 else ["v", r.choice(self.vars)]]

    def simple(self, in_loop):
        r = self.rng
        k = r.random()
        if k < 0.42:
            return ["assign", r.choice(self.locals), self.expr()]
        if k < 0.62:
            op = r.choice(ARITH if r.random() < 0.3 else ["+"])
            return ["aug", r.choice(self.locals), op, ["c", r.choice([2, 3])] if op == "*" else self.expr(1)]
        if k < 0.86:
            return ["print", self.expr(1)]
        if k < 0.90:
            return ["pass"]
        if k < 0.94:
            return ["return", self.expr(1)]
        if in_loop:
            return [r.choice(["break", "continue"])]
        return ["print", ["v", r.choice(self.vars)]]

    def orelse(self, depth, in_loop):
        """else-clause of a loop: its break/continue belong to the ENCLOSING loop (only generated inside one)."""
        r = self.rng
        if r.random() > 0.3:
            return []
        out = [self.simple(False) for _ in range(r.randint(1, 2))]
        out = [x for x in out if x[0] != "return"] or [["pass"]]
        if in_loop and r.random() < 0.6:
            out.append([r.choice(["break", "continue"])])
        return out

    def block(self, depth, in_loop, maxlen):
        r = self.rng
        n = r.randint(1, maxlen)
        out = []
        for _ in range(n):
            if self.budget <= 0:
                break
            self.budget -= 1
            k = r.random()
            if depth < 3 and k < 0.20:
                body = self.block(depth + 1, in_loop, 3)
                orelse = self.block(depth + 1, in_loop, 2) if r.random() < 0.45 else []
                out.append(["if", self.cond(), body or [["pass"]], orelse])
            elif depth < 3 and k < 0.29:
                v = r.choice(self.locals)
                bound = ["c", r.choice([2, 3, 4])] if r.random() < 0.6 else ["v", r.choice(self.vars)]
                body = self.block(depth + 1, True, 3) or [["pass"]]
                inc = ["aug", v, "+", ["c", 1]] if r.random() < 0.6 else ["assign", v, ["b", "+", ["v", v], ["c", 1]]]
                # the increment sits at the top level of the loop body unless a continue was generated
                pos = r.randint(0, len(body))
                body.insert(pos, inc)
                out.append(["while", ["b", "<", ["v", v], bound], body, self.orelse(depth, in_loop)])
            elif depth < 3 and k < 0.37:
                t = r.choice(["i", "j"] + self.locals[:1])
                it = ["c", r.choice([0, 1, 2, 3])] if r.random() < 0.6 else ["v", r.choice(self.vars)]
                body = self.block(depth + 1, True, 3) or [["pass"]]
                if r.random() < 0.25:
                    body.append(["if", self.cond(), [["break"]], []])
                out.append(["for", t, it, body, self.orelse(depth, in_loop)])
                if t not in self.vars:
                    self.vars.append(t)
            else:
                s = self.simple(in_loop)
                out.append(s)
                if s[0] == "return" and r.random() < 0.8:
                    break
        return out

    def host(self, pos):
        r = self.rng
        self.params = PARAMS[: r.randint(1, 2)]
        self.locals = LOCALS[: r.randint(2, 3)] if r.random() < 0.8 else LOCALS[: 4]
        self.vars = list(self.params) + list(self.locals)
        self.budget = r.randint(5, 14)
        body = []
        for v in self.locals:
            init = ["assign", v, ["c", r.choice([0, 1, 2])] if r.random() < 0.6 else ["v", r.choice(self.params)]]
            if self.stream == "init":
                body.append(init)
            else:
                # partial stream: most locals are bound first, some only under a condition, some not at all
                k = r.random()
                if k < 0.55:
                    body.append(init)
                elif k < 0.85:
                    body.append(["if", ["b", r.choice(CMP), ["v", r.choice(self.params)], ["c", r.choice([0, 1, 2])]],
                                 [init], []])
        body += self.block(0, False, 8)
        if pos == "module":
            body = strip_returns(body)
        elif r.random() < 0.7 and (not body or body[-1][0] != "return"):
            body.append(["return", self.expr(1)])
        if not body:
            body = [["pass"]]
        return {"pos": pos, "params": self.params, "body": body}


def strip_returns(ss):
    out = []
    for s in ss:
        if s[0] == "return":
            out.append(["print", s[1]])
        elif s[0] == "if":
            out.append(["if", s[1], strip_returns(s[2]), strip_returns(s[3])])
        elif s[0] == "while":
            out.append(["while", s[1], strip_returns(s[2]), strip_returns(s[3])])
        elif s[0] == "for":
            out.append(["for", s[1], s[2], strip_returns(s[3]), strip_returns(s[4])])
        else:
            out.append(s)
    return out


# ----------------------------------------------------------------------------- renderer
def r_expr(e, top=True):
    if e[0] == "sum":
        inner = "%s for %s in range(%s)" % (r_expr(e[3]), e[1], r_expr(e[2]))
        return "sum([%s])" % inner if e[4] == "list" else "sum(%s)" % inner
    if e[0] == "v":
        return e[1]
    if e[0] == "c":
        return str(e[1])
    s = "%s %s %s" % (r_expr(e[2], False), e[1], r_expr(e[3], False))
    return s if top else "(" + s + ")"


def render_block(ss, ind, out, layout):
    """Appends lines; records in each statement's span (first, last line, 1-based in `out`)."""
    spans = []
    for s in ss:
        if layout is not None and layout.random() < 0.07:
            out.append("")
        if layout is not None and layout.random() < 0.05:
            out.append(" " * ind + "# note")
        first = len(out) + 1
        k = s[0]
        sub = None
        if k == "assign":
            out.append(" " * ind + "%s = %s" % (s[1], r_expr(s[2])))
        elif k == "aug":
            out.append(" " * ind + "%s %s= %s" % (s[1], s[2], r_expr(s[3])))
        elif k == "print":
            out.append(" " * ind + "print(%s)" % r_expr(s[1]))
        elif k == "return":
            out.append(" " * ind + "return %s" % r_expr(s[1]))
        elif k in ("pass", "break", "continue"):
            out.append(" " * ind + k)
        elif k == "if":
            out.append(" " * ind + "if %s:" % r_expr(s[1]))
            sub = [render_block(s[2], ind + 4, out, layout)]
            if s[3]:
                out.append(" " * ind + "else:")
                sub.append(render_block(s[3], ind + 4, out, layout))
            else:
                sub.append([])
        elif k in ("while", "for"):
            if k == "while":
                out.append(" " * ind + "while %s:" % r_expr(s[1]))
                body, orelse = s[2], s[3]
            else:
                out.append(" " * ind + "for %s in range(%s):" % (s[1], r_expr(s[2])))
                body, orelse = s[3], s[4]
            sub = [render_block(body, ind + 4, out, layout)]
            if orelse:
                out.append(" " * ind + "else:")
                sub.append(render_block(orelse, ind + 4, out, layout))
            else:
                sub.append([])
        else:
            raise ValueError(k)
        spans.append({"first": first, "last": len(out), "sub": sub})
    return spans


def render(host, layout=None):
    """Returns (source, spans, zero) where spans mirror host['body'] (module line numbers) and zero is the
    offset such that collector line = module line - zero."""
    out = []
    pos = host["pos"]
    if pos == "function":
        out.append("def f(%s):" % ", ".join(host["params"]))
        ind, zero = 4, 0
    elif pos == "method":
        out.append("class C:")
        out.append("    def f(%s):" % ", ".join(["self"] + host["params"]))
        ind, zero = 8, 1
    else:
        ind, zero = 0, 0
    spans = render_block(host["body"], ind, out, layout)
    return "\n".join(out) + "\n", spans, zero


# ----------------------------------------------------------------------------- ast -> IR
class Unsupported(Exception):
    pass


def a_expr(n):
    if isinstance(n, ast.Name):
        return ["v", n.id]
    if isinstance(n, ast.Constant) and isinstance(n.value, int) and not isinstance(n.value, bool):
        return ["c", n.value]
    if isinstance(n, ast.BinOp) and type(n.op) in ASTOP:
        return ["b", ASTOP[type(n.op)], a_expr(n.left), a_expr(n.right)]
    if isinstance(n, ast.Compare) and len(n.ops) == 1 and type(n.ops[0]) in ASTOP:
        return ["b", ASTOP[type(n.ops[0])], a_expr(n.left), a_expr(n.comparators[0])]
    if isinstance(n, ast.Call) and isinstance(n.func, ast.Name) and n.func.id == "sum" and len(n.args) == 1 \
            and not n.keywords and isinstance(n.args[0], (ast.ListComp, ast.GeneratorExp)):
        c = n.args[0]
        g = c.generators
        if len(g) == 1 and not g[0].ifs and not g[0].is_async and isinstance(g[0].target, ast.Name) \
                and isinstance(g[0].iter, ast.Call) and isinstance(g[0].iter.func, ast.Name) \
                and g[0].iter.func.id == "range" and len(g[0].iter.args) == 1 and not g[0].iter.keywords:
            return ["sum", g[0].target.id, a_expr(g[0].iter.args[0]), a_expr(c.elt),
                    "list" if isinstance(c, ast.ListComp) else "gen"]
    raise Unsupported(ast.dump(n))


def _names(t):
    if isinstance(t, ast.Name):
        return [t.id]
    if isinstance(t, ast.Tuple) and all(isinstance(e, ast.Name) for e in t.elts):
        return [e.id for e in t.elts]
    raise Unsupported(ast.dump(t))


def _callee(n, newname):
    """n is a Call node f(args) / self.f(args) / C.f(args) of the extracted function -> list of arg names."""
    if not isinstance(n, ast.Call) or n.keywords:
        return None
    fn = n.func
    if isinstance(fn, ast.Name) and fn.id == newname:
        pass
    elif isinstance(fn, ast.Attribute) and fn.attr == newname and isinstance(fn.value, ast.Name) and fn.value.id == "self":
        pass
    else:
        return None
    return [x for a in n.args for x in _names(a)]


def a_block(nodes, lines, newname=None):
    """lines: if a list, the lineno of every statement is appended in pre-order."""
    return [a_stmt(n, lines, newname) for n in nodes]


def a_stmt(n, lines, newname=None):
    if lines is not None:
        lines.append(n.lineno)
    if newname is not None:
        # outlined call forms; the callee's body is filled in by abstract_result
        if isinstance(n, ast.Expr) and _callee(n.value, newname) is not None:
            return ["call", [], _callee(n.value, newname), None, False]
        if isinstance(n, ast.Assign) and len(n.targets) == 1 and _callee(n.value, newname) is not None:
            return ["call", _names(n.targets[0]), _callee(n.value, newname), None, False]
        if isinstance(n, ast.Return) and n.value is not None and _callee(n.value, newname) is not None:
            return ["call", [], _callee(n.value, newname), None, True]
    if isinstance(n, ast.Assign) and len(n.targets) == 1 and isinstance(n.targets[0], ast.Name):
        return ["assign", n.targets[0].id, a_expr(n.value)]
    if isinstance(n, ast.AugAssign) and isinstance(n.target, ast.Name) and type(n.op) in ASTOP:
        return ["aug", n.target.id, ASTOP[type(n.op)], a_expr(n.value)]
    if isinstance(n, ast.Expr) and isinstance(n.value, ast.Call) and isinstance(n.value.func, ast.Name) \
            and n.value.func.id == "print" and len(n.value.args) == 1 and not n.value.keywords:
        return ["print", a_expr(n.value.args[0])]
    if isinstance(n, ast.If):
        return ["if", a_expr(n.test), a_block(n.body, lines, newname), a_block(n.orelse, lines, newname)]
    if isinstance(n, ast.While):
        return ["while", a_expr(n.test), a_block(n.body, lines, newname), a_block(n.orelse, lines, newname)]
    if isinstance(n, ast.For) and isinstance(n.target, ast.Name) and isinstance(n.iter, ast.Call) \
            and isinstance(n.iter.func, ast.Name) and n.iter.func.id == "range" and len(n.iter.args) == 1:
        return ["for", n.target.id, a_expr(n.iter.args[0]), a_block(n.body, lines, newname),
                a_block(n.orelse, lines, newname)]
    if isinstance(n, ast.Return) and n.value is not None:
        return ["return", a_expr(n.value)]
    if isinstance(n, ast.Pass):
        return ["pass"]
    if isinstance(n, ast.Break):
        return ["break"]
    if isinstance(n, ast.Continue):
        return ["continue"]
    raise Unsupported(ast.dump(n))


def find_defs(tree, pos):
    """-> dict name -> FunctionDef for the scope that holds the host ('f') and the extracted function."""
    if pos == "method":
        for n in tree.body:
            if isinstance(n, ast.ClassDef) and n.name == "C":
                return {m.name: m for m in n.body if isinstance(m, ast.FunctionDef)}
        raise Unsupported("class C missing")
    return {m.name: m for m in tree.body if isinstance(m, ast.FunctionDef)}


def abstract_result(source, pos, newname, params):
    """Parse rope's resulting module into {"params", "body"} of the host with the outlined call as a `call`
    statement carrying the extracted function's body. Raises Unsupported when the result is outside the
    expected shape (then only the execution oracle speaks about it)."""
    tree = ast.parse(source)
    defs = find_defs(tree, pos)
    if newname not in defs:
        raise Unsupported("extracted function %s not found in the host's scope" % newname)
    g = defs[newname]
    gparams = [a.arg for a in g.args.args]
    if g.args.vararg or g.args.kwarg or g.args.kwonlyargs or g.args.posonlyargs or g.args.defaults or g.decorator_list:
        raise Unsupported("unexpected signature of extracted function")
    if pos == "method":
        if gparams[:1] != ["self"]:
            raise Unsupported("extracted method has no self")
        gparams = gparams[1:]
    if pos == "module":
        host_nodes = [n for n in tree.body if not (isinstance(n, ast.FunctionDef) and n.name == newname)]
        hparams = list(params)
    else:
        if "f" not in defs:
            raise Unsupported("host function missing")
        hparams = [a.arg for a in defs["f"].args.args]
        if pos == "method":
            hparams = hparams[1:]
        host_nodes = defs["f"].body
    body = a_block(host_nodes, None, newname)
    if _count_calls(body) != 1:
        raise Unsupported("%d call sites of the extracted function" % _count_calls(body))
    c = _the_call(body)
    if c[2] != gparams:
        raise Unsupported("call arguments %r differ from parameters %r" % (c[2], gparams))
    if c[1]:
        last = g.body[-1]
        if not (isinstance(last, ast.Return) and last.value is not None):
            raise Unsupported("results assigned but the extracted function does not end with return")
        if _names(last.value) != c[1]:
            raise Unsupported("call targets %r differ from returned names" % (c[1],))
        c[3] = a_block(g.body[:-1], None)
    else:
        c[3] = a_block(g.body, None)
    return {"params": hparams, "body": body}


def _walk(ss):
    for s in ss:
        yield s
        if s[0] == "if":
            yield from _walk(s[2])
            yield from _walk(s[3])
        elif s[0] == "while":
            yield from _walk(s[2])
            yield from _walk(s[3])
        elif s[0] == "for":
            yield from _walk(s[3])
            yield from _walk(s[4])


def _count_calls(ss):
    return sum(1 for s in _walk(ss) if s[0] == "call")


def _the_call(ss):
    for s in _walk(ss):
        if s[0] == "call":
            return s



# ----------------------------------------------------------------------------- Gallina printer
def g_var(x):
    return "%d%%N" % IDX[x]


def g_expr(e):
    if e[0] == "sum":
        return "(EComp %s %s %s)" % (g_var(e[1]), g_expr(e[2]), g_expr(e[3]))
    if e[0] == "v":
        return "(EVar %s)" % g_var(e[1])
    if e[0] == "c":
        return "(EConst (%d)%%Z)" % e[1]
    return "(EBin %s %s %s)" % (OPNAME[e[1]], g_expr(e[2]), g_expr(e[3]))


def g_vars(xs):
    return "[" + "; ".join(g_var(x) for x in xs) + "]"


def g_block(ss, lines):
    """lines: iterator of collector line numbers in pre-order (or None -> 0)."""
    return "[" + "; ".join(g_stmt(s, lines) for s in ss) + "]"


def g_stmt(s, lines):
    ln = "%d%%N" % (next(lines) if lines is not None else 0)
    k = s[0]
    if k == "assign":
        return "SAssign %s %s %s" % (ln, g_var(s[1]), g_expr(s[2]))
    if k == "aug":
        return "SAug %s %s %s %s" % (ln, g_var(s[1]), OPNAME[s[2]], g_expr(s[3]))
    if k == "print":
        return "SPrint %s %s" % (ln, g_expr(s[1]))
    if k == "return":
        return "SReturn %s %s" % (ln, g_expr(s[1]))
    if k == "pass":
        return "SPass %s" % ln
    if k == "break":
        return "SBreak %s" % ln
    if k == "continue":
        return "SContinue %s" % ln
    if k == "if":
        return "SIf %s %s %s %s" % (ln, g_expr(s[1]), g_block(s[2], lines), g_block(s[3], lines))
    if k == "while":
        return "SWhile %s %s %s %s" % (ln, g_expr(s[1]), g_block(s[2], lines), g_block(s[3], lines))
    if k == "for":
        return "SFor %s %s %s %s %s" % (ln, g_var(s[1]), g_expr(s[2]), g_block(s[3], lines), g_block(s[4], lines))
    if k == "call":
        return "SCall %s %s %s %s %s %s" % (ln, g_vars(s[1]), g_vars(s[2]), g_block(s[3], None),
                                            "true" if s[4] else "false", "true" if len(s) > 5 and s[5] else "false")
    raise ValueError(k)


def g_loc(body, path, i, j, lines):
    """Zipper term for the region body[path...][i:j]; path is a list of (index, branch) with branch in
    0 (if-body / loop body) or 1 (else)."""
    if not path:
        pre = g_block(body[:i], lines)
        reg = g_block(body[i:j], lines)
        post = g_block(body[j:], lines)
        return "(LHere %s %s %s)" % (pre, reg, post)
    (k, br), rest = path[0], path[1:]
    pre = g_block(body[:k], lines)
    s = body[k]
    ln = "%d%%N" % next(lines)
    if s[0] == "if" and br == 0:
        inner = g_loc(s[2], rest, i, j, lines)
        mid = "(LIfT %s %s %s %s %s" % (pre, ln, g_expr(s[1]), inner, g_block(s[3], lines))
    elif s[0] == "if":
        a = g_block(s[2], lines)
        inner = g_loc(s[3], rest, i, j, lines)
        mid = "(LIfF %s %s %s %s %s" % (pre, ln, g_expr(s[1]), a, inner)
    elif s[0] == "while" and br == 0:
        inner = g_loc(s[2], rest, i, j, lines)
        mid = "(LWhile %s %s %s %s %s" % (pre, ln, g_expr(s[1]), inner, g_block(s[3], lines))
    elif s[0] == "while":
        b = g_block(s[2], lines)
        mid = "(LWhileE %s %s %s %s %s" % (pre, ln, g_expr(s[1]), b, g_loc(s[3], rest, i, j, lines))
    elif s[0] == "for" and br == 0:
        inner = g_loc(s[3], rest, i, j, lines)
        mid = "(LFor %s %s %s %s %s %s" % (pre, ln, g_var(s[1]), g_expr(s[2]), inner, g_block(s[4], lines))
    elif s[0] == "for":
        b = g_block(s[3], lines)
        mid = "(LForE %s %s %s %s %s %s" % (pre, ln, g_var(s[1]), g_expr(s[2]), b, g_loc(s[4], rest, i, j, lines))
    else:
        raise ValueError(s[0])
    post = g_block(body[k + 1:], lines)
    return "%s %s)" % (mid, post)


def blocks_of(body, path=()):
    """Yields (path, block) for every block of the host (pre-order)."""
    yield list(path), body
    for k, s in enumerate(body):
        if s[0] == "if":
            yield from blocks_of(s[2], path + ((k, 0),))
            if s[3]:
                yield from blocks_of(s[3], path + ((k, 1),))
        elif s[0] == "while":
            yield from blocks_of(s[2], path + ((k, 0),))
            if s[3]:
                yield from blocks_of(s[3], path + ((k, 1),))
        elif s[0] == "for":
            yield from blocks_of(s[3], path + ((k, 0),))
            if s[4]:
                yield from blocks_of(s[4], path + ((k, 1),))


def spans_at(spans, path):
    for (k, br) in path:
        spans = spans[k]["sub"][br]
    return spans
