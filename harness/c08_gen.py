"""C08 — generator of Python 3.12 modules with heavy layout variation.

Two streams:
  core    constructs rope's templates cover, printed with comments (containing brackets, keywords, quotes,
          '#'), strings containing keywords / '#' / brackets, redundant and nested parentheses, continuation
          lines, every literal spelling the number/str patterns know, unicode identifiers, decorators,
          with/try/for/while/if chains, comprehensions, lambda, walrus, star-expressions, f-strings
  stress  adds the shapes on which rope is known to deviate (open findings): annotations, keyword-only and
          positional-only parameters, class keywords, type parameters, trailing-comma tuples, match statements,
          nested/escaped/concatenated f-string parts
  (shapes of repaired findings -- 0b/0X/1_000 numbers, rb'' prefixes, comments in empty tuples, '#' in strings
  before parenthesised operands, try/else/finally -- are part of the core stream)
Every module is kept only if `compile()` accepts it.  All randomness comes from the rng passed in.
"""
import ast

NAMES = ["a", "b", "c", "x", "y", "i", "j", "f", "e", "é", "b1", "x_", "ñ2", "self", "if_", "in_", "rb", "u",
         "r", "_", "or_", "α", "e1", "j2", "print", "ab", "xy"]
ATTRS = ["a", "b", "real", "x", "é", "if_", "f", "append", "in_"]
COMMENTS = ["", " c", " (", " )", " ((", " ))", " ]", " [", " if x:", " else:", " 'q", ' "q', " # nested", " def f(",
            " x = 1", " é", " ,", " :", " = ", " lambda", " a.b", " )(", " elif", " '''", ' """', " {", " }",
            " with a as b:", " import a", " in", " not", " 12", " a b c x y", " f(a, b)", "\t#", "!", " 1_000",
            " try:", " except", " finally:", " return", " pass", " class A(", " @d", " -> ", " * ", " ** ",
            # characters str.splitlines() treats as line boundaries but the interpreter does not
            " \x0c x", " a\x1cb", " \x1d\x1e", " nel\x85x", " ls\u2028ps\u2029 elif", "\x0b"]
STR_BODY = ["", "a", "#", " # x", "(", ")", "((", "if", "else:", "def f(", "\\n", "\\\\", "{", "}", ",", ":", "x = 1",
            "[", "]", " ", "in", "'''", '"""', "\\'", '\\"', "not", "#(", ")#", "lambda", "1", "a.b", "%s", "@",
            "\x0c", "\x1c", "\x1d\x1e", "\x85", "\u2028", "\u2029x"]
NUMS = ["0", "1", "12", "007"[:1], "1.5", "1.", ".5", "1e5", "1E5", "1.5e-3", "2e+2", "0x1f", "0xFF", "0o17", "1j", "2.5J",
        "1e3j", "10", "100", "3.14", "0.0", "0xabc", "0xe", "9"]
NUMS_STRESS = ["0b101", "1_000", "0XFF", "0O17", "0B1", "1_0.0_1", "0x_ff", "1_0e1_0", "0b1_0", "1_000j"]
BINOPS = [(7, "|"), (8, "^"), (9, "&"), (10, "<<"), (10, ">>"), (11, "+"), (11, "-"), (12, "*"), (12, "/"), (12, "//"),
          (12, "%"), (12, "@")]
CMPOPS = ["==", "!=", "<", "<=", ">", ">=", "is", "in", ("is", "not"), ("not", "in")]
AUGOPS = ["+", "-", "*", "/", "//", "%", "**", ">>", "<<", "&", "^", "|", "@"]
BAD_PAIRS = {"**", "//", "<<", ">>", "<=", ">=", "==", "!=", "->", ":=", "+=", "-=", "*=", "/=", "%=", "&=", "|=", "^=",
             "@=", "..", "<>"}


def wordish(c):
    return c.isalnum() or c == "_" or ord(c) > 127


class Gen:
    def __init__(self, rng, stress=False, table=False):
        self.rng = rng
        self.stress = stress
        self.table = table       # only constructs of the transcribed template table (coq/C08/Fragment.v)
        self.feat = set()

    # ------------------------------------------------------------------ trivia
    def comment(self):
        r = self.rng
        body = r.choice(COMMENTS)
        if r.random() < 0.3:
            body += " " + r.choice(NAMES) + r.choice(COMMENTS)
        return "#" + body

    def sp(self, br, need=False):
        r = self.rng
        k = r.random()
        if br:
            if k < 0.30 and not need:
                return ""
            if k < 0.62:
                return " "
            if k < 0.68:
                return "  "
            if k < 0.71:
                return "\t"
            ind = " " * r.randint(0, 8)
            if k < 0.83:
                return "\n" + ind
            if k < 0.93:
                return (" " if r.random() < 0.7 else "") + self.comment() + "\n" + ind
            if k < 0.97:
                return " \\\n" + ind
            return "\n" + ind + self.comment() + "\n" + " " * r.randint(0, 8)
        if k < 0.35 and not need:
            return ""
        if k < 0.85:
            return " "
        if k < 0.90:
            return "  "
        if k < 0.93:
            return "\t"
        return " \\\n" + " " * r.randint(0, 8)

    def join(self, toks, br):
        out = ""
        for t in toks:
            if t == "":
                continue
            if out == "":
                out = t
                continue
            a, b = out[-1], t[0]
            need = False
            if wordish(a) and (wordish(b) or b in "'\""):
                need = True
            elif a.isdigit() and b == ".":
                need = True
            elif a == "." and (b.isdigit() or b == "."):
                need = True
            elif a + b in BAD_PAIRS:
                need = True
            elif a in "'\"" and b in "'\"":
                need = True
            elif a == "\\":
                need = True
            out += self.sp(br, need) + t
        return out

    # ------------------------------------------------------------------ atoms
    def name(self):
        return self.rng.choice(NAMES)

    def number(self):
        if self.rng.random() < 0.25:
            return self.rng.choice(NUMS_STRESS)     # 0b/0X/0O and digit separators (repaired by 4cdf1ca)
        return self.rng.choice(NUMS)

    def one_string(self, bytes_=False, allow_nl=False):
        r = self.rng
        pre = r.choice(["", "", "", "r", "u", "R", "U"]) if not bytes_ else r.choice(
            ["b", "B", "br", "bR", "Br", "BR", "rb", "Rb", "rB", "RB"])
        q = r.choice(["'", '"', "'", '"', "'''", '"""'])
        parts = []
        for _ in range(r.randint(0, 3)):
            p = r.choice(STR_BODY)
            if bytes_ and not p.isascii():
                continue
            if "r" in pre.lower() and "\\" in p:
                p = "\\\\"
            if len(q) == 1 and (q in p and "\\" + q not in p):
                continue
            if len(q) == 3 and q in p:
                continue
            parts.append(p)
            if not bytes_ and r.random() < 0.1:
                parts.append(r.choice(["é", "中", "\U0001f600"]))
            if len(q) == 3 and r.random() < 0.3:
                parts.append(r.choice(["\n", "\n  # not a comment (\n", "\n)\n"]))
        body = "".join(parts)
        if len(q) == 1 and "\n" in body:
            body = body.replace("\n", " ")
        if body.endswith(q[0]) and not body.endswith("\\" + q[0]):
            body += " "
        if body.endswith("\\") and not body.endswith("\\\\"):
            body += "\\" if "r" not in pre.lower() else " "
        if "r" in pre.lower() and body.rstrip("\\") != body and (len(body) - len(body.rstrip("\\"))) % 2 == 1:
            body += " "
        return pre + q + body + q

    def string(self, br):
        r = self.rng
        bytes_ = r.random() < 0.2
        n = 1 if r.random() < 0.75 else r.randint(2, 3)
        lits = [self.one_string(bytes_) for _ in range(n)]
        out = lits[0]
        for s in lits[1:]:
            out += self.sp(br, need=True) + s
        return out

    def fstring(self, br, depth):
        r = self.rng
        q = r.choice(["'", '"', '"""', "'''"])
        pre = r.choice(["f", "F", "rf", "fr", "Rf", "fR"])
        parts = []
        n = r.randint(1, 3)
        for _ in range(n):
            if r.random() < 0.6:
                lit = r.choice(["", "a", " ", "#", " # ", "(", ")", "x=", "if ", ":", ",", "é", "[", "%"])
                if self.stress and r.random() < 0.3:
                    lit += r.choice(["{{", "}}", "{{}}"])
                    self.feat.add("fstring-escaped-brace")
                parts.append(lit)
            inner = self.fexpr(q)
            conv = r.choice(["", "", "", "!r", "!s", "!a"])
            spec = r.choice(["", "", "", ":>10", ":x", ":#x", ":.2f", ":"])
            if self.stress and r.random() < 0.15:
                spec = ":{%s}" % r.choice(["a", "x"])
                self.feat.add("fstring-nested-spec")
            eq = "=" if r.random() < 0.1 else ""
            parts.append("{" + r.choice(["", " "]) + inner + eq + conv + spec + "}")
        if r.random() < 0.5:
            parts.append(r.choice(["", "z", " #", ")", "("]))
        if len(q) == 1 and r.random() < 0.35:
            # the other quote character, single / doubled / tripled, inside the literal text
            oq = '"' if q == "'" else "'"
            parts.insert(r.choice([0, len(parts), len(parts)]), r.choice([oq, oq * 2, oq * 3, oq * 3 + "a" + oq * 3]))
        body = "".join(parts)
        if len(q) == 1:
            body = body.replace("\n", " ")
        out = pre + q + body + q
        if self.stress and r.random() < 0.15:
            self.feat.add("fstring-concat")
            other = r.choice(['"{"', "'}'", '"x"', "'#'"])
            out = (other + " " + out) if r.random() < 0.5 else (out + " " + other)
        return out

    def fexpr(self, q):
        r = self.rng
        n = self.name()
        k = r.random()
        if k < 0.5:
            return n
        if k < 0.65:
            return n + "." + r.choice(ATTRS)
        if k < 0.8:
            return n + "(" + self.name() + ")"
        if k < 0.9:
            return n + "[0]"
        if self.stress:
            self.feat.add("fstring-nested-quote")
            return n + "[" + q[0] + "k" + q[0] + "]" if len(q) == 1 else n + "[" + q[0] + "k" + q[0] + "]"
        return n + " + 1"

    # ------------------------------------------------------------------ expressions
    def expr(self, p=1, d=0, br=False, fn=None):
        """an expression usable where precedence >= p is required"""
        r = self.rng
        if d >= 4 or r.random() < 0.30 + 0.12 * d:
            kinds = ["name"] * 6 + ["num"] * 3 + ["str"] * 2 + ["const"]
        else:
            kinds = (["name"] * 2 + ["num", "str", "const", "fstr"] + ["attr"] * 3 + ["call"] * 4 + ["sub"] * 2 +
                     ["binop"] * 4 + ["unary"] * 2 + ["not", "and", "or", "cmp", "cmp", "ifexp", "lambda", "tuple",
                                                      "list", "list", "dict", "set", "listcomp", "genexp", "dictcomp",
                                                      "setcomp", "pow", "walrus", "paren"])
            if fn:
                kinds += ["yield"]
            if fn == "async":
                kinds += ["await"]
        if self.table:
            kinds = [k for k in kinds if k in ("name", "num", "str", "const", "attr", "call", "sub", "binop", "unary",
                                               "not", "and", "or", "cmp", "tuple", "list", "pow", "paren")] or ["name"]
        kind = r.choice(kinds)
        level = {"lambda": 1, "ifexp": 2, "or": 3, "and": 4, "not": 5, "cmp": 6, "unary": 13, "pow": 14, "await": 15,
                 "walrus": 0, "yield": 0}.get(kind, 16)
        op = None
        if kind == "binop":
            level, op = r.choice(BINOPS)
        wrap = level < p or (kind not in ("walrus", "yield", "paren") and r.random() < 0.10) or kind in ("paren",)
        if wrap:
            n = 1 if r.random() < 0.85 else 2
            inner = self._expr_kind(kind if kind != "paren" else "inner", op, d, True, fn)
            for _ in range(n):
                inner = self.join(["(", inner, ")"], True)
            return inner
        return self._expr_kind(kind, op, d, br, fn)

    def _expr_kind(self, kind, op, d, br, fn):
        r = self.rng
        E = lambda p: self.expr(p, d + 1, br, fn)      # noqa: E731
        EB = lambda p: self.expr(p, d + 1, True, fn)   # noqa: E731
        J = lambda *t: self.join(list(t), br)          # noqa: E731
        JB = lambda *t: self.join(list(t), True)       # noqa: E731
        if kind == "inner":
            return self.expr(1, d + 1, True, fn)
        if kind == "name":
            return self.name()
        if kind == "num":
            return self.number()
        if kind == "str":
            return self.string(br)
        if kind == "fstr":
            return self.fstring(br, d)
        if kind == "const":
            return r.choice(["True", "False", "None", "..."])
        if kind == "attr":
            base = self.expr(16, d + 1, br, fn)
            if (base[-1].isdigit() and base[:2].lower() not in ("0x", "0o", "0b")) or base.endswith("..."):
                base = "(" + base + ")"
            return J(base, ".", r.choice(ATTRS))
        if kind == "call":
            func = self.expr(16, d + 1, br, fn)
            if func[-1].isdigit() or func[-1] in "'\"":
                func = self.name()
            return self.join([func, self.call_args(d, fn)], br)
        if kind == "sub":
            base = self.expr(16, d + 1, br, fn)
            if base[-1].isdigit():
                base = self.name()
            return self.join([base, "[", self.subscript(d, fn), "]"], br) if False else \
                self.join([base, self.join(["[", self.subscript(d, fn), "]"], True)], br)
        if kind == "binop":
            lvl = [lv for lv, o in BINOPS if o == op][0]
            return J(E(lvl), op, E(lvl + 1))
        if kind == "pow":
            return J(E(15), "**", E(13))
        if kind == "unary":
            return J(r.choice(["-", "+", "~"]), E(13))
        if kind == "not":
            return J("not", E(5))
        if kind == "and":
            return J(*self._sep([E(5) for _ in range(r.randint(2, 3))], "and"))
        if kind == "or":
            return J(*self._sep([E(4) for _ in range(r.randint(2, 3))], "or"))
        if kind == "cmp":
            toks = [E(7)]
            for _ in range(1 if r.random() < 0.8 else 2):
                o = r.choice(CMPOPS)
                toks.extend(o if isinstance(o, tuple) else [o])
                toks.append(E(7))
            return J(*toks)
        if kind == "ifexp":
            return J(E(3), "if", E(3), "else", E(1))
        if kind == "lambda":
            return J("lambda", self.params(d, fn, lam=True, br=br), ":", E(1))
        if kind == "walrus":
            return JB(self.name(), ":=", EB(1))
        if kind == "yield":
            k = r.random()
            if k < 0.3:
                return "yield"
            if k < 0.8 or fn == "async":
                return JB("yield", EB(1))
            return JB("yield", "from", EB(1))
        if kind == "await":
            return J("await", E(16))
        if kind == "tuple":
            n = r.randint(0, 3)
            if n == 0:
                return "(" + r.choice(["", " ", "\n", "  ", " # c (\n", "\\\n", " # )\n  # x\n "]) + ")"
            els = [self.star_or_expr(d, fn) for _ in range(n)]
            toks = ["("] + self._sep(els, ",")
            if n == 1 or r.random() < 0.2:
                toks.append(",")
            return JB(*toks, ")")
        if kind in ("list", "set"):
            n = r.randint(0 if kind == "list" else 1, 3)
            els = [self.star_or_expr(d, fn) for _ in range(n)]
            toks = self._sep(els, ",")
            if n and r.random() < 0.2:
                toks.append(",")
            o, c = ("[", "]") if kind == "list" else ("{", "}")
            return JB(o, *toks, c)
        if kind == "dict":
            toks = []
            n = r.randint(0, 3)
            for i in range(n):
                if i:
                    toks.append(",")
                if r.random() < 0.15:
                    toks.extend(["**", EB(7)])
                else:
                    toks.extend([EB(1), ":", EB(1)])
            if n and r.random() < 0.2:
                toks.append(",")
            return JB("{", *toks, "}")
        if kind in ("listcomp", "setcomp", "genexp", "dictcomp"):
            o, c = {"listcomp": ("[", "]"), "setcomp": ("{", "}"), "genexp": ("(", ")"), "dictcomp": ("{", "}")}[kind]
            elt = [EB(1), ":", EB(1)] if kind == "dictcomp" else [EB(1)]
            return JB(o, *elt, *self.comp_for(d, fn), c)
        raise AssertionError(kind)

    def _sep(self, items, sep):
        out = []
        for i, x in enumerate(items):
            if i:
                out.append(sep)
            out.append(x)
        return out

    def comp_for(self, d, fn):
        r = self.rng
        toks = []
        for _ in range(1 if r.random() < 0.8 else 2):
            toks.extend(["for", self.target(d, True), "in", self.expr(3, d + 1, True, fn)])
            for _ in range(r.choice([0, 0, 1, 2])):
                toks.extend(["if", self.expr(3, d + 1, True, fn)])
        return toks

    def star_or_expr(self, d, fn):
        if self.rng.random() < 0.1:
            return self.join(["*", self.expr(7, d + 1, True, fn)], True)
        return self.expr(1, d + 1, True, fn)

    def call_args(self, d, fn):
        r = self.rng
        k = r.random()
        if k < 0.12:
            return "(" + r.choice(["", " ", "\n"]) + ")"
        if k < 0.2 and not self.table:
            return self.join(["(", self.expr(1, d + 1, True, fn), *self.comp_for(d, fn), ")"], True)
        toks = []
        n = r.randint(1, 3)
        kw = False
        for i in range(n):
            if i:
                toks.append(",")
            c = r.random()
            if kw and c > 0.85:
                toks.extend(["*", self.expr(7, d + 1, True, fn)])      # f(a=1, *b): positional after keyword
            elif c < 0.15 or (kw and c < 0.6):
                kw = True
                toks.extend([self.name(), "=", self.expr(1, d + 1, True, fn)])
            elif c < 0.25:
                toks.extend(["*", self.expr(7, d + 1, True, fn)])
            elif c < 0.32:
                kw = True
                toks.extend(["**", self.expr(7, d + 1, True, fn)])
            elif kw:
                toks.extend([self.name(), "=", self.expr(1, d + 1, True, fn)])
            else:
                toks.append(self.expr(1, d + 1, True, fn))
        if r.random() < 0.15:
            toks.append(",")
        return self.join(["(", *toks, ")"], True)

    def subscript(self, d, fn):
        r = self.rng

        def one():
            if r.random() < 0.35 and not self.table:
                toks = []
                if r.random() < 0.6:
                    toks.append(self.expr(1, d + 1, True, fn))
                toks.append(":")
                if r.random() < 0.6:
                    toks.append(self.expr(1, d + 1, True, fn))
                if r.random() < 0.3:
                    toks.append(":")
                    if r.random() < 0.7:
                        toks.append(self.expr(1, d + 1, True, fn))
                return self.join(toks, True)
            return self.expr(1, d + 1, True, fn)
        n = 1 if r.random() < 0.8 else 2
        toks = self._sep([one() for _ in range(n)], ",")
        if self.stress and r.random() < 0.1:
            toks.append(",")
            self.feat.add("tuple-trailing-comma")
        return self.join(toks, True)

    def target(self, d, br, top=True):
        r = self.rng
        k = r.random()
        if k < 0.6 or d > 2:
            return self.name()
        if k < 0.7:
            return self.join([self.name(), ".", r.choice(ATTRS)], br)
        if k < 0.8:
            return self.join([self.name(), self.join(["[", self.expr(1, d + 1, True), "]"], True)], br)
        n = r.randint(2, 3)
        els = [self.target(d + 1, br, False) for _ in range(n)]
        if r.random() < 0.15:
            i = r.randrange(n)
            els[i] = self.join(["*", self.name()], br)
        if top and r.random() < 0.5:
            return self.join(self._sep(els, ","), br)
        o, c = r.choice([("(", ")"), ("[", "]")])
        return self.join([o, *self._sep([self.target(d + 1, True, False) for _ in range(n)], ","), c], True)

    def exprlist(self, d, br, fn):
        """expression or unparenthesised tuple"""
        r = self.rng
        if r.random() < 0.8:
            return self.expr(1, d, br, fn)
        n = r.randint(2, 3)
        toks = self._sep([self.expr(1, d + 1, br, fn) for _ in range(n)], ",")
        if self.stress and r.random() < 0.3:
            toks.append(",")
            self.feat.add("tuple-trailing-comma")
        return self.join(toks, br)

    # ------------------------------------------------------------------ parameters
    def params(self, d, fn, lam=False, br=True):
        r = self.rng
        toks = []
        n = r.choice([0, 1, 1, 2, 3])
        names = r.sample(["a", "b", "c", "x", "y", "self", "é", "k", "w"], n)
        nd = r.randint(0, n)

        def ann():
            if self.stress and not lam and r.random() < 0.4:
                self.feat.add("annotation")
                return [":", r.choice(["int", "str", "'x)'", "List[int]", "a.b", '"#"'])]
            return []
        for i, nm in enumerate(names):
            if toks:
                toks.append(",")
            toks.append(nm)
            toks.extend(ann())
            if i >= n - nd:
                toks.extend(["=", self.expr(1, d + 1, br, None)])
            if self.stress and i == 0 and n > 1 and r.random() < 0.15:
                toks.extend([",", "/"])
                self.feat.add("posonly")
        if r.random() < 0.2:
            if toks:
                toks.append(",")
            toks.extend(["*", "args"])
            toks.extend(ann())
            if self.stress and r.random() < 0.5:
                toks.extend([",", "kw1", "=", self.expr(1, d + 1, br, None)])
                self.feat.add("kwonly")
        elif self.stress and r.random() < 0.15:
            if toks:
                toks.append(",")
            toks.extend(["*", ",", "kw1"])
            if r.random() < 0.5:
                toks.extend(["=", self.expr(1, d + 1, br, None)])
            self.feat.add("kwonly")
        if r.random() < 0.2:
            if toks:
                toks.append(",")
            toks.extend(["**", "kwargs"])
            toks.extend(ann())
        if toks and br and r.random() < 0.1 and not lam:
            toks.append(",")
        return self.join(toks, br)

    # ------------------------------------------------------------------ statements
    def eol(self):
        r = self.rng
        out = ""
        if r.random() < 0.25:
            out += r.choice(["", " ", "  "]) + self.comment()
        elif r.random() < 0.1:
            out += " "
        return out + "\n"

    def filler(self, ind):
        """blank / comment-only lines between statements"""
        r = self.rng
        out = ""
        while r.random() < 0.2:
            k = r.random()
            if k < 0.1:
                out += r.choice(["\x0c", "\x0c" + ind, "\x0c  "]) + "\n"      # a page break on a blank line
            elif k < 0.4:
                out += r.choice(["", "  ", ind]) + "\n"
            else:
                out += r.choice(["", ind, ind + "  ", " " * r.randint(0, 6)]) + self.comment() + "\n"
        return out

    def simple(self, d, fn, loop):
        r = self.rng
        J = lambda *t: self.join(list(t), False)   # noqa: E731
        E = lambda p=1: self.expr(p, d, False, fn)   # noqa: E731
        kinds = ["assign"] * 5 + ["expr"] * 4 + ["aug"] * 2 + ["pass", "del", "assert", "import", "from", "global", "ann",
                                                                "raise", "strstmt", "strassign"]
        if fn:
            kinds += ["return"] * 2 + ["yield_stmt"]
        if loop:
            kinds += ["break", "continue"]
        if self.table:
            kinds = [k for k in kinds if k in ("assign", "expr", "pass", "import", "return", "strstmt", "strassign")]
        k = r.choice(kinds)
        if k == "assign":
            toks = []
            for _ in range(1 if r.random() < 0.8 else 2):
                toks.extend([self.target(d, False), "="])
            if fn and r.random() < 0.1:
                toks.append(J("yield", E()))
            else:
                toks.append(self.exprlist(d, False, fn))
            return J(*toks)
        if k == "expr":
            return self.expr(1, d, False, fn)
        if k == "strstmt":          # a bare (docstring-like) string statement
            return self.string(False)
        if k == "strassign":        # a statement that ends with a string literal
            return J(self.name(), "=", self.string(False))
        if k == "aug":
            return J(self.name(), r.choice(AUGOPS) + "=", self.exprlist(d, False, fn) if r.random() < 0.1 else E())
        if k == "ann":
            toks = [self.name(), ":", self.expr(3, d + 2, False, None)]
            if r.random() < 0.6:
                toks.extend(["=", E()])
            return J(*toks)
        if k == "pass":
            return "pass"
        if k == "break":
            return "break"
        if k == "continue":
            return "continue"
        if k == "del":
            return J("del", *self._sep([self.target(d + 2, False, False) for _ in range(r.randint(1, 2))], ","))
        if k == "assert":
            toks = ["assert", E()]
            if r.random() < 0.4:
                toks.extend([",", E()])
            return J(*toks)
        if k == "raise":
            toks = ["raise"]
            if r.random() < 0.8:
                toks.append(E())
                if r.random() < 0.3:
                    toks.extend(["from", E()])
            return J(*toks)
        if k == "return":
            return J("return", self.exprlist(d, False, fn)) if r.random() < 0.8 else "return"
        if k == "yield_stmt":
            if r.random() < 0.3 and fn != "async":
                return J("yield", "from", E())
            return J("yield", self.exprlist(d, False, fn)) if r.random() < 0.8 else "yield"
        if k == "global":
            return J(r.choice(["global"]), *self._sep(r.sample(["g0", "g1", "g2"], r.randint(1, 2)), ","))
        if k == "import":
            toks = ["import"]
            for i in range(r.randint(1, 2)):
                if i:
                    toks.append(",")
                toks.append(self.dotted())
                if r.random() < 0.4:
                    toks.extend(["as", self.name()])
            return J(*toks)
        if k == "from":
            toks = ["from"]
            lvl = r.choice([0, 0, 1, 2, 3])
            mod = self.dotted() if (lvl == 0 or r.random() < 0.6) else ""
            head = "." * lvl
            if head and mod:
                toks.append(head + (" " if r.random() < 0.1 else "") + mod)
            else:
                toks.append(head or mod)
            toks.append("import")
            if r.random() < 0.1:
                toks.append("*")
                return J(*toks)
            names = []
            for i in range(r.randint(1, 3)):
                if i:
                    names.append(",")
                names.append(self.name())
                if r.random() < 0.3:
                    names.extend(["as", self.name()])
            if r.random() < 0.3:
                if r.random() < 0.3:
                    names.append(",")
                toks.append(self.join(["(", *names, ")"], True))
            else:
                toks.extend(names)
            return J(*toks)
        raise AssertionError(k)

    def dotted(self):
        r = self.rng
        return ".".join(r.choice(["a", "b", "os", "x", "é", "pkg"]) for _ in range(r.choice([1, 1, 2, 3])))

    def simple_line(self, d, fn, loop):
        r = self.rng
        parts = [self.simple(d, fn, loop)]
        while r.random() < 0.12:
            parts.append(self.simple(d, fn, loop))
        out = parts[0]
        for p in parts[1:]:
            out += r.choice(["; ", ";", " ; "]) + p
        if r.random() < 0.05:
            out += r.choice([";", " ;"])
        return out + self.eol()

    def block(self, ind, d, fn, loop, cls=False):
        """text after the ':' of a compound statement header"""
        r = self.rng
        if r.random() < 0.15:
            return r.choice([" ", "", "  "]) + self.simple_line(d + 1, fn, loop)
        ind2 = ind + r.choice([" ", "  ", "    ", "    ", "\t"])
        out = self.eol()
        n = r.randint(1, 3)
        if r.random() < 0.12:
            # string-ending statement directly followed by a string-starting one, inside the block
            out += ind2 + self.join([self.name(), "=", self.one_string()], False) + self.eol()
            out += ind2 + self.one_string() + self.eol()
        for _ in range(n):
            out += self.filler(ind2)
            out += self.stmt(ind2, d + 1, fn, loop)
        return out

    def stmt(self, ind, d, fn, loop):
        r = self.rng
        if d >= 3 or r.random() < 0.6:
            return ind + self.simple_line(d, fn, loop)
        J = lambda *t: self.join(list(t), False)   # noqa: E731
        E = lambda p=1: self.expr(p, d + 1, False, fn)   # noqa: E731
        kinds = ["if"] * 3 + ["while", "for", "for", "with", "try", "def", "def", "class"]
        if fn == "async":
            kinds += ["afor", "awith"]
        if self.stress:
            kinds += ["match"]
        if self.table:
            kinds = ["if", "if", "while", "for", "def"]
        k = r.choice(kinds)
        B = lambda lp=loop, f=fn: self.block(ind, d, f, lp)   # noqa: E731
        if k == "if":
            out = ind + J("if", E(), ":") + B()
            for _ in range(r.choice([0, 0, 1, 2])):
                out += self.filler(ind) + ind + J("elif", E(), ":") + B()
            if r.random() < 0.4:
                out += self.filler(ind) + ind + J("else", ":") + B()
            elif r.random() < 0.1:
                # else: containing a lone if (not an elif)
                ind2 = ind + "  "
                out += ind + "else:" + self.eol() + ind2 + J("if", E(), ":") + self.block(ind2, d + 1, fn, loop)
            return out
        if k == "while":
            out = ind + J("while", E(), ":") + B(True)
            if r.random() < 0.3:
                out += ind + J("else", ":") + B()
            return out
        if k in ("for", "afor"):
            head = ["async", "for"] if k == "afor" else ["for"]
            out = ind + J(*head, self.target(d + 1, False), "in", self.exprlist(d + 1, False, fn), ":") + B(True)
            if r.random() < 0.3:
                out += ind + J("else", ":") + B()
            return out
        if k in ("with", "awith"):
            head = ["async", "with"] if k == "awith" else ["with"]
            items = []
            for i in range(r.randint(1, 3)):
                if i:
                    items.append(",")
                items.append(self.expr(1, d + 1, False, fn))
                if r.random() < 0.6:
                    items.extend(["as", self.target(d + 2, False, False)])
            if r.random() < 0.2:
                inner = self.join(["(", *items, *([","] if r.random() < 0.3 else []), ")"], True)
                return ind + J(*head, inner, ":") + B()
            return ind + J(*head, *items, ":") + B()
        if k == "try":
            out = ind + J("try", ":") + B()
            star = r.random() < 0.1
            hs = r.choice([0, 1, 1, 2])
            for i in range(hs):
                toks = ["except"]
                if star:
                    toks.append("*")
                if star or r.random() < 0.8 or i < hs - 1:
                    toks.append(r.choice(["E", "(E, F)", "a.E", "( E )"]))
                    if r.random() < 0.5:
                        toks.extend(["as", self.name()])
                out += self.filler(ind) + ind + J(*toks, ":") + B()
            if hs and r.random() < 0.3:
                out += ind + J("else", ":") + B()
            if hs == 0 or r.random() < 0.3:
                out += ind + J("finally", ":") + B()
            return out
        if k == "def":
            out = ""
            for _ in range(0 if self.table else r.choice([0, 0, 0, 1, 2])):
                out += ind + J("@", self.expr(1, d + 2, False, None)) + self.eol() + (self.filler(ind) if r.random() < 0.3 else "")
            is_async = r.random() < 0.2 and not self.table
            head = ["async", "def"] if is_async else ["def"]
            nm = r.choice(["f", "g", "é", "__init__", "if_"])
            tp = []
            if self.stress and r.random() < 0.15:
                tp = ["[", "T", "]"]
                self.feat.add("type-params")
            toks = [*head, nm, *tp, self.join(["(", self.params(d + 1, None), ")"], True)]
            if self.stress and r.random() < 0.3:
                toks.extend(["->", r.choice(["int", "'x:'", "List[int]", "None"])])
                self.feat.add("annotation")
            toks.append(":")
            return out + ind + J(*toks) + self.block(ind, d, "async" if is_async else "sync", False)
        if k == "class":
            out = ""
            for _ in range(r.choice([0, 0, 0, 1])):
                out += ind + J("@", self.expr(1, d + 2, False, None)) + self.eol()
            toks = ["class", r.choice(["A", "B", "É"])]
            if self.stress and r.random() < 0.15:
                toks.extend(["[", "T", "]"])
                self.feat.add("type-params")
            if r.random() < 0.6:
                bases = self._sep([self.expr(1, d + 2, True, None) for _ in range(r.randint(0, 2))], ",")
                if self.stress and r.random() < 0.4:
                    if bases:
                        bases.append(",")
                    bases.extend(["metaclass", "=", r.choice(["M", "{1: 2}", "f(')')", "'#'"])])
                    self.feat.add("class-keywords")
                toks.append(self.join(["(", *bases, ")"], True))
            toks.append(":")
            return out + ind + J(*toks) + self.block(ind, d, None, False)
        if k == "match":
            self.feat.add("match")
            ind2 = ind + "  "
            out = ind + J("match", self.expr(1, d + 1, False, fn), ":") + self.eol()
            for _ in range(r.randint(1, 3)):
                toks = ["case", self.pattern(0)]
                if r.random() < 0.3:
                    toks.extend(["if", self.expr(1, d + 2, False, fn)])
                out += ind2 + J(*toks, ":") + self.block(ind2, d + 1, fn, loop)
            return out
        raise AssertionError(k)

    def pattern(self, d):
        r = self.rng
        k = r.random()
        if d > 2 or k < 0.3:
            return r.choice(["_", "x", "y", "1", "'s'", "None", "a.b", "-1", "True"])
        if k < 0.45:
            return self.join(["[", *self._sep([self.pattern(d + 1) for _ in range(r.randint(0, 3))], ","), "]"], True)
        if k < 0.55:
            return self.join(["(", self.pattern(d + 1), ",", self.pattern(d + 1), ")"], True)
        if k < 0.65:
            return self.join(["{", "'k'", ":", self.pattern(d + 1), "}"], True)
        if k < 0.75:
            return self.join(["A", "(", self.pattern(d + 1), ",", "k", "=", self.pattern(d + 1), ")"], True)
        if k < 0.85:
            return self.join([self.pattern(d + 1), "|", self.pattern(d + 1)], False)
        if k < 0.92:
            return self.join(["[", self.pattern(d + 1), ",", "*", "rest", "]"], True)
        return self.join(["(", self.pattern(d + 1), "as", "z", ")"], True)

    def module(self):
        r = self.rng
        self.feat = set()
        out = ""
        if r.random() < 0.15:
            out += r.choice(['"""doc (string"""\n', "# -*- coding: utf-8 -*-\n", "#!/usr/bin/python\n", "\n\n", "  \n"])
        for _ in range(r.randint(1, 6)):
            out += self.filler("")
            out += self.stmt("", 0, None, False)
        out += self.filler("")
        k = r.random()
        if k < 0.15 and out.endswith("\n"):
            out = out[:-1]                      # no newline at end of file
        elif k < 0.25:
            out += r.choice(["\n", "  ", "# end", "\n\n  \n", "\t"])
        return out


def valid(src):
    try:
        compile(src, "<c08>", "exec", flags=ast.PyCF_ONLY_AST and 0, dont_inherit=True)
        return True
    except (SyntaxError, ValueError, RecursionError, MemoryError, OverflowError):
        return False
    except Exception:   # noqa: BLE001
        return False


def generate(rng, n, stress=False, max_tries=None, table=False):
    """yield (source, features) for n valid modules"""
    g = Gen(rng, stress, table)
    made = tries = 0
    max_tries = max_tries or n * 30
    import warnings
    while made < n and tries < max_tries:
        tries += 1
        try:
            src = g.module()
        except RecursionError:
            continue
        with warnings.catch_warnings():
            warnings.simplefilter("ignore")
            ok = valid(src)
        if not ok:
            continue
        made += 1
        yield src, sorted(g.feat)
