"""C11 — undo and redo are exact inverses over any history of changes.

A case is a SESSION on a real rope project in a scratch directory: an initial tree, a history limit and
a script of History operations (do of a change template, undo()/redo(), selective undo/redo of a listed
change, drop=True).  Sessions come from
  * the exhaustive family: every word of length <= D over the 7-letter alphabet of change templates
    (edit, edit below a folder, create file, move file, move folder, nested set, a real Rename; the names share
    leading characters without being nested: d.txt / d, b.txt / b.txt2, d / d2), each
    followed by the selective undo of EVERY listed position and a selective redo, plus a plain
    undo/redo/drop tail under the limits 0,1,2,3;
  * random sessions of up to 40 operations (all operation kinds, limits in {0,1,2,3,100}, plus a stream
    with the quirky templates: removal, overwriting move, file/folder alias, ignored file, leaf change).
After EVERY operation the tree snapshot, both history lists (identity and contents) and the returned
dependency list are
  * judged by oracles that know nothing of the model: documented list bookkeeping by object identity,
    the limit, refusal on empty lists, the dependency set recomputed on paths, "undo/redo lead back to
    the snapshot taken before/after the do", and the REPLAY oracle: the tree must equal the one obtained
    by re-executing, in a fresh project without history, exactly the changes still in force;
  * written into a Coq case file where the Gallina model (coq/C11/History.v over coq/C10) runs the whole
    session from the initial tree and is compared step by step (exception chain, tree, lists with
    captured old contents, returned dependencies).
"""
import itertools

from harness import c10_lib as L10
from harness import c11_lib as L

PROPERTY = "C11"

SIG_REMOVE = ("remove-not-undoable: undoing a history entry that contains a RemoveResource raises "
              "NotImplementedError (RemoveResource.undo is not implemented)")
# (fixed in /repo by ed5101e: no open finding carries this signature any more, a hit is a VIOLATION)
SIG_ALIAS = ("class-blind-dependency: the dependency scan compares resources by class and path, so a later change "
             "reaching the same path (or a path below it) through a resource of the other class (File vs Folder) is "
             "not undone with the chosen change")
SIG_OVERWRITE = ("occupied-destination: a MoveResource was performed whose destination path existed (a file: silently "
                 "overwritten; a folder: the resource was moved inside it); undo moves the destination path back and cannot "
                 "restore what was there")

SIG_DROP = ("drop-stale-redo: undo(drop=True) forgot a change but left in the redo list an entry that depends on it; redoing "
            "that entry later acts on a tree in which its dependency was never made")

SIG_RELOAD_NL = ("reload-newlines: a ChangeContents reloaded from the saved history (close / reopen) is undone or redone while "
                 "the file holds a text WITHOUT any line break: its new File object takes the convention from that text (LF) "
                 "and writes a CR LF / CR file back with LF line ends; the texts are equal, the bytes are not")

SIG_NL_DRIFT = ("newline-drift: a client re-read the File object of a listed ChangeContents after ANOTHER File object had "
                "rewritten the file with different line ends (which happens after an intermediate text without any line "
                "break); the object adopted that convention and the undo writes the old text with it: texts equal, bytes not")

LIMITS = [0, 1, 2, 3, 100]
FAILING = ("reopen", "interrupted-partial", "bookkeeping", "limit", "empty-not-refused", "closure", "undo-raised", "redo-raised", "not-inverse",
           "replay", "refused-do-effect", "current-change", "step-not-reversible")


# ----------------------------------------------------------------------------------- generators
def exhaustive_scripts(depth):
    """(limit, script, family)"""
    out = []
    n_word = 0
    for n in range(1, depth + 1):
        for word in itertools.product(L.LETTERS, repeat=n):
            n_word += 1
            dos = [["do", x] for x in word]
            for i in range(n - 1):        # position n-1 is the plain undo() of the tail script below
                out.append((100, dos + [["undo", i, False], ["redo", ("mod", n_word + i)]], "exhaustive-selective"))
            lim = [0, 1, 2, 3][n_word % 4]
            out.append((lim, dos + [["undo", None, False], ["redo", None], ["undo", ("mod", n_word), True],
                                    ["undo", None, False], ["redo", ("mod", n_word // 4)]], "exhaustive-plain"))
    return out


def catalogue():
    """fixed sessions: the shapes of the recorded findings and of the corner cases of the bookkeeping"""
    D = lambda x: ["do", x]
    return [
        (100, [D("RMX"), ["undo", None, False]], "catalogue"),
        (100, [D("EA"), D("RMX"), D("EA"), ["undo", 0, False]], "catalogue"),
        (100, [D("OVW"), ["undo", None, False]], "catalogue"),
        (100, [D("MD"), D("OVW"), D("EA"), ["undo", 1, False]], "catalogue"),
        (100, [D("MF"), D("ALIAS"), ["undo", 0, False]], "catalogue"),
        (100, [D("MF"), D("ALIAS"), D("EB"), ["undo", 0, True], ["redo", None]], "catalogue"),
        (100, [D("IG"), D("EA"), D("IG"), ["undo", None, False], ["redo", None], ["undo", 0, False]], "catalogue"),
        (100, [D("LEAF"), D("EA"), D("LEAF"), ["undo", 0, False], ["redo", 0]], "catalogue"),
        (100, [D("EA"), D("EB"), ["undo", None, False], D("IG"), ["redo", None], ["undo", None, False], D("EMPTY"), ["redo", None]], "catalogue"),
        (1, [D("EA"), D("EMPTY"), D("IG"), ["undo", None, False], ["undo", None, False]], "catalogue"),
        (100, [D("EA"), D("MIX"), ["undo", None, False], ["redo", None], D("EA"), ["undo", 1, False]], "catalogue"),
        (100, [D("NS"), D("EB"), ["undo", 0, False], ["redo", ("mod", 0)]], "catalogue"),
        (2, [D("EA"), D("EB"), D("CF"), D("MD"), ["undo", 0, False], ["redo", None], ["redo", None]], "catalogue"),
        (0, [D("EA"), ["undo", None, False], ["redo", None]], "catalogue"),
        (100, [D("EA"), D("EB"), D("CF"), ["limit", 1], ["undo", None, False], ["redo", None], D("MD"), ["limit", 3],
               D("EA"), D("EB"), ["limit", 0], ["undo", 0, False], D("EA")], "catalogue"),
        (100, [D("MF"), D("EA"), ["undo", None, False], ["undo", 0, True], ["redo", None]], "catalogue"),
        (100, [D("CD"), D("MD"), D("EB"), ["undo", 1, False], ["redo", 1], ["undo", 0, True]], "catalogue"),
        (100, [D("NS"), D("NS"), D("EA"), ["undo", 0, False], ["redo", ("mod", 1)], ["undo", 7, False], ["redo", 9]], "catalogue"),
    ]


def stop_family():
    """undo / redo / selective undo of multi-leaf entries under a TaskHandle stopped at EVERY notification index"""
    D = lambda x: ["do", x]
    out = []
    bases = [[D("NS")], [D("RN")], [D("EA"), D("NS")], [D("MD"), D("NS"), D("EB")], [D("RN"), D("MF"), D("NS")],
             [D("MIX"), D("EA")]]
    for base in bases:
        for j in range(0, 12):
            S = {"stop": j}
            out.append((100, base + [["undo", None, False, S]], "stop"))
            out.append((100, base + [["undo", 0, False, S], ["undo", None, False], ["redo", None]], "stop"))
            out.append((100, base + [["undo", 0, False], ["redo", None, S], ["redo", None]], "stop"))
            out.append((100, base + [["undo", 0, False], ["redo", 0, S]], "stop"))
    for j in range(0, 10):
        out.append((100, [D("EA"), ["do", "NS", {"stop": j}], ["undo", None, False]], "stop"))
    return out


def reload_family(rng):
    """sessions on a project that saves its history, closed and reopened between operations"""
    D = lambda x: ["do", x]
    R = ["reopen"]
    out = [
        (100, [D("EA"), D("EB"), R, ["undo", None, False], R, ["redo", None], ["undo", None, False], R, ["undo", None, False]], "reload"),
        (100, [D("MD"), D("EB"), D("NS"), ["undo", 0, False], R, ["redo", 0], R, ["undo", 1, False]], "reload"),
        (2, [D("EA"), D("EB"), D("CF"), D("MF"), R, ["undo", None, False], ["undo", None, False], R, ["redo", None]], "reload"),
        (100, [D("EA"), D("MD"), ["limit", 1], R, ["undo", None, False], R, ["redo", None]], "reload"),
        (100, [D("RN"), D("EA"), ["undo", 0, False], R, ["redo", None], R, ["undo", ("mod", 1), False]], "reload"),
    ]
    letters = list(L.LETTERS)
    for _ in range(25):
        script = []
        for _ in range(rng.choice([6, 10, 14])):
            r = rng.random()
            if r < 0.45:
                script.append(D(rng.choice(letters)))
            elif r < 0.65:
                script.append(["undo", None if rng.random() < 0.5 else ("mod", rng.randrange(9)), False])
            elif r < 0.8:
                script.append(["redo", None if rng.random() < 0.5 else ("mod", rng.randrange(9))])
            else:
                script.append(R)
        out.append((rng.choice(LIMITS), script, "reload"))
    # half of the family on the LF tree (where a reload is invisible), half on the CR LF / CR tree
    return [p + ("lf" if k % 2 else "crlf",) for k, p in enumerate(out)]


def reread_probe(rng):
    """ORACLE-ONLY stream (not in the Coq model, which has no File.newlines): a client that re-reads the files of every
    listed change through the changes' own File objects before every operation"""
    D = lambda x: ["do", x]
    out = [(100, [D("EA"), D("NS"), ["undo", 0, False]], "reread-probe"),
           (100, [D("EA"), D("LEAF"), D("EA"), ["undo", None, False], ["undo", None, False], ["undo", None, False]], "reread-probe"),
           (100, [D("MF"), D("EB"), D("NS"), D("EB"), ["undo", 1, False], ["redo", None]], "reread-probe")]
    for _ in range(8):
        out.append((100, random_script(rng, False)[:14], "reread-probe"))
    return out


def random_script(rng, quirks):
    n = rng.choice([6, 10, 15, 20, 30, 40])
    letters = list(L.LETTERS) + ["CD", "LEAF", "IG", "EMPTY", "MIX"]
    weights = [4, 4, 3, 3, 3, 2, 1, 2, 1, 1, 1, 2]
    if quirks:
        letters += ["RMX", "OVW", "ALIAS"]
        weights += [1, 1, 2]
    script = []
    for _ in range(n):
        r = rng.random()
        if r < 0.5:
            script.append(["do", rng.choices(letters, weights)[0]])
        elif r < 0.62:
            script.append(["undo", None, rng.random() < 0.15])
        elif r < 0.8:
            sel = ("mod", rng.randrange(50)) if rng.random() < 0.93 else rng.choice([7, 40])
            script.append(["undo", sel, rng.random() < 0.15])
            if rng.random() < 0.12:
                script[-1].append({"stop": rng.randrange(8)})
        elif r < 0.86:
            script.append(["redo", None])
        elif r < 0.89:
            script.append(["limit", rng.choice(LIMITS)])
        else:
            sel = ("mod", rng.randrange(50)) if rng.random() < 0.93 else rng.choice([7, 40])
            script.append(["redo", sel])
    return script


# --------------------------------------------------------------------------------------- oracle
class Verdict:
    def __init__(self, step, kind, text, cls):
        self.step, self.kind, self.text, self.cls = step, kind, text, cls


def _same_objs(a, b):
    return len(a) == len(b) and all(x is y for x, y in zip(a, b))


def judge(ses, replay_oracle=True):
    """Independent oracle over one session.  Returns (verdicts, info)."""
    verdicts = []
    info = {"selective_nonlifo": 0, "selective_multi": 0, "replays": 0, "tainted_at": None, "sel_steps": 0}
    in_force = []                 # [(object, spec)] changes performed and not undone, in order
    snaps = {}                    # id(object) -> (tree before its do, tree after, irreversible?)
    tainted = False
    dropped_paths = []            # paths of the changes forgotten by drop=True while the redo list was non-empty
    reloaded = set()              # ids of the change objects that came back from a saved history
    ghosts = []                   # paths changed by performed but unrecorded (ignored-only) changes
    lowered = False               # the limit preference was lowered and no change has been recorded since
    prev_limit = ses.max_undos

    def bad(idx, kind, text, cls=None):
        verdicts.append(Verdict(idx, kind, text, cls or ("unexplained:" + kind)))

    for idx, st in enumerate(ses.steps):
        if st.build_error is not None:
            continue
        limit_now = st.limit_now
        same_lists = _same_objs(st.pre_undo_objs, st.post_undo_objs) and _same_objs(st.pre_redo_objs, st.post_redo_objs)
        if st.kind == "reopen":
            # History.write (trims to the limit, saves both lists) then _load_history: the same lists come back,
            # as new objects; nothing else changes
            def nonl(specs):            # the newline convention of a File object is not part of the saved history
                return [L.strip_nl(x) for x in specs]
            exp_undo = nonl(st.pre_undo[max(0, len(st.pre_undo) - limit_now):])
            if nonl(st.post_undo) != exp_undo or nonl(st.post_redo) != nonl(st.pre_redo) or st.post_tree != st.pre_tree:
                bad(idx, "reopen", "after closing and reopening the project the history is not the saved one: undo list "
                                   "%s, redo list %s, tree %s" % (
                                       "same" if nonl(st.post_undo) == exp_undo else "DIFFERS (%d entries, %d expected)" % (
                                           len(st.post_undo), len(exp_undo)),
                                       "same" if nonl(st.post_redo) == nonl(st.pre_redo) else "DIFFERS (%d entries, %d expected)" % (
                                           len(st.post_redo), len(st.pre_redo)),
                                       "same" if st.post_tree == st.pre_tree else "DIFFERS"))
                tainted = True
                continue
            old = st.pre_undo_objs[len(st.pre_undo_objs) - len(st.post_undo_objs):] + list(st.pre_redo_objs)
            new = list(st.post_undo_objs) + list(st.post_redo_objs)
            remap = {id(a): b for a, b in zip(old, new)}
            reloaded = set(id(b) for b in new)
            in_force = [(remap.get(id(o), o), sp) for (o, sp) in in_force]
            for a, b in zip(old, new):
                if id(a) in snaps:
                    snaps[id(b)] = snaps[id(a)]
            lowered = False
            continue
        if st.kind == "limit":
            # changing the preference by itself touches nothing (trimming happens at the next do / save)
            if not same_lists or st.post_tree != st.pre_tree:
                bad(idx, "bookkeeping", "setting max_history_items changed the lists or the tree")
            if limit_now < prev_limit:
                lowered = True
            prev_limit = limit_now
            continue
        if not st.current_change_cleared:
            bad(idx, "current-change", "history.current_change left set after %s" % st.kind)
        recorded = st.kind == "do" and not st.raised and not _same_objs(st.pre_undo_objs, st.post_undo_objs)
        if recorded:
            lowered = False
        if len(st.post_undo_objs) > limit_now and not lowered:
            bad(idx, "limit", "undo list has %d entries, limit is %d" % (len(st.post_undo_objs), limit_now))
        if st.kind == "do":
            if st.raised:
                if not same_lists:
                    bad(idx, "bookkeeping", "do raised %s but the history lists changed" % st.exc_repr)
                if st.post_tree != st.pre_tree:
                    if st.py_irrev or st.unmodelled:
                        tainted = tainted or True
                        info["tainted_at"] = info["tainted_at"] if info["tainted_at"] is not None else idx
                    else:
                        bad(idx, "refused-do-effect", "do raised %s but the tree changed" % st.exc_repr)
                continue
            interesting = any(p not in ses.ignored for p in L.spec_paths(st.change))
            exp = list(st.pre_undo_objs)
            if interesting:
                exp.append(st.built)
                if len(exp) > limit_now:
                    exp = exp[len(exp) - limit_now:]
            if not _same_objs(exp, st.post_undo_objs) or st.post_redo_objs:
                bad(idx, "bookkeeping", "after do the undo list is not old+[change] trimmed to the limit, or the redo "
                                        "list is not empty")
            in_force.append((st.built, st.change))
            if not interesting:
                ghosts.extend(L.spec_paths(st.change))      # performed, by design not recorded
            # the exact shape of the overwrite finding: a move leaf whose destination was a file of the tree
            over = [(l[1], l[2]) for l in L10.leaves(st.change) if l[0] == "MV" and l[2] in st.pre_tree and l[1] != l[2]]
            snaps[id(st.built)] = (st.pre_tree, st.post_tree, st.py_irrev or st.unmodelled, over)
            dropped_paths = []                      # the redo list is empty again
            continue
        # ---- undo / redo
        src_objs = st.pre_undo_objs if st.kind == "undo" else st.pre_redo_objs
        src_specs = st.pre_undo if st.kind == "undo" else st.pre_redo
        if not src_objs:
            if not (st.raised and st.codes == [8]) or not same_lists or st.post_tree != st.pre_tree:
                bad(idx, "empty-not-refused", "%s on an empty list: raised=%s %s, state %s" % (
                    st.kind, st.raised, st.exc_repr, "unchanged" if same_lists and st.post_tree == st.pre_tree else "CHANGED"))
            continue
        if st.sel is not None and not (0 <= st.sel < len(src_objs)):
            if not st.raised or not same_lists or st.post_tree != st.pre_tree:
                bad(idx, "bookkeeping", "%s of a change that is not listed: raised=%s, state changed=%s" % (
                    st.kind, st.raised, not (same_lists and st.post_tree == st.pre_tree)))
            continue
        i = st.sel if st.sel is not None else len(src_objs) - 1
        closure = L.path_closure(src_specs, i)
        coherent = L.classes_coherent(src_specs)
        # the exact shape of the drop finding: THIS redo takes an entry whose paths overlap those of a change that
        # was forgotten by drop=True while the entry was already in the redo list
        stale = (st.kind == "redo" and any(L.nested_paths(p, q) for j in closure
                                           for p in L.spec_paths(src_specs[j]) for q in dropped_paths))
        if any(L.nested_paths(p, q) for j in closure for p in L.spec_paths(src_specs[j]) for q in ghosts):
            # an unrecorded change to an ignored resource meets the undo / redo of a recorded one that touches the
            # same resource: the history cannot know about it (by design); outside the property
            tainted = True
            info["ghost_overlap"] = info.get("ghost_overlap", 0) + 1
        if st.raised and getattr(st, "stop", None) is not None and st.codes == [6]:
            # interrupted by the task handle: the changes already moved to the other list are undone / redone
            # completely, the interrupted one not at all - nothing in between
            dst_pre = st.pre_redo_objs if st.kind == "undo" else st.pre_undo_objs
            dst_post = st.post_redo_objs if st.kind == "undo" else st.post_undo_objs
            src_post = st.post_undo_objs if st.kind == "undo" else st.post_redo_objs
            moved = dst_post[len(dst_pre):]
            ok = (_same_objs(dst_post[:len(dst_pre)], dst_pre)
                  and sorted(map(id, list(src_post) + list(moved))) == sorted(map(id, src_objs)))
            if not ok:
                bad(idx, "bookkeeping", "interrupted %s: the lists are not a redistribution of the entries" % st.kind)
                tainted = True
                continue
            if st.kind == "undo":
                ids = set(id(o) for o in moved)
                in_force = [(o, sp) for (o, sp) in in_force if id(o) not in ids]
            else:
                in_force.extend((o, L.abstract(o)) for o in moved)
            if replay_oracle and not tainted:
                info["replays"] += 1
                exp, why = L.replay_tree(ses.tree, [sp for (_, sp) in in_force])
                if exp is None or exp != st.post_tree:
                    # the entries that WERE completed may carry the shape of a known finding (a move onto an occupied
                    # path, a stale redo entry): the same narrow attribution as for an uninterrupted step
                    m_over = [pq for o in moved for pq in snaps.get(id(o), (0, 0, False, []))[3]]
                    diff = (sorted(p for p in set(exp) | set(st.post_tree) if exp.get(p, 0) != st.post_tree.get(p, 0))
                            if exp is not None else [])
                    names = set(q.split("/")[-1] for pq in m_over for q in pq)
                    only_over = bool(diff) and bool(m_over) and all(
                        d.split("/")[-1] in names or any(L.nested_paths(d, q) for pq in m_over for q in pq) for d in diff)
                    cls = SIG_DROP if (stale and moved) else SIG_OVERWRITE if only_over else None
                    bad(idx, "interrupted-partial", "%s interrupted by the task handle (stop at notification %s) after %d "
                                                    "completed entries: the tree is not the one of the entries still in force (%s)"
                        % (st.kind, st.stop, len(moved), why or ("it differs at " + ", ".join(diff[:4]))), cls)
                    tainted = True
            info["interrupted"] = info.get("interrupted", 0) + 1
            continue
        if st.raised:
            cls = None
            if stale:
                cls = SIG_DROP
            elif st.codes[:1] == [7] and any(L.has_remove(src_specs[j]) for j in closure):
                cls = SIG_REMOVE
            elif any(snaps.get(id(src_objs[j]), (0, 0, False, []))[3] for j in closure):
                cls = SIG_OVERWRITE
            elif not coherent:
                cls = SIG_ALIAS
            if not tainted:
                bad(idx, "%s-raised" % st.kind, "%s of listed position %d raised %s" % (st.kind, i, st.exc_repr), cls)
            tainted = True
            info["tainted_at"] = info["tainted_at"] if info["tainted_at"] is not None else idx
            continue
        info["sel_steps"] += 1
        deps = list(st.deps or [])
        R = list(st.returned_objs or [])
        def reload_nl(expected):
            # the exact shape and the predicted failure of the reload-newlines finding
            if expected is None:
                return False
            # reloaded ChangeContents leaves that are written while the file holds a text without a line break: an undo
            # writes the old text over the new one, a redo the new text over the old one
            hit = set(l[1].split("/")[-1] for o in R if id(o) in reloaded for l in L10.leaves(L.abstract(o))
                      if l[0] == "CC" and "\n" not in ((l[2] if st.kind == "undo" else l[3]) or "\n"))
            if not hit:
                return False
            diff = [p for p in set(expected) | set(st.post_tree) if expected.get(p, 0) != st.post_tree.get(p, 0)]
            return bool(diff) and all(p.split("/")[-1] in hit and isinstance(expected.get(p), bytes) and isinstance(st.post_tree.get(p), bytes)
                                      and L.conv(expected[p])[0] == L.conv(st.post_tree[p])[0] for p in diff)
        def nl_drift(expected):
            # oracle-only probe stream (the client re-reads every listed change's files before every step)
            if expected is None or not getattr(ses, "reread_all", False):
                return False
            flat = set(l[1].split("/")[-1] for s2 in ses.steps if s2.kind == "do" and s2.change is not None
                       for l in L10.leaves(s2.change) if l[0] == "CC" and "\n" not in l[2])
            diff = [p for p in set(expected) | set(st.post_tree) if expected.get(p, 0) != st.post_tree.get(p, 0)]
            return bool(diff) and all(p.split("/")[-1] in flat and isinstance(expected.get(p), bytes)
                                      and isinstance(st.post_tree.get(p), bytes)
                                      and L.conv(expected[p])[0] == L.conv(st.post_tree[p])[0] for p in diff)
        over_paths = [q for o in R for q in snaps.get(id(o), (0, 0, False, []))[3]]
        irrev_involved = bool(over_paths)

        def only_overwritten(diff):
            # the failure predicted for that finding: only paths at, below or above the source / destination differ
            # (or paths of the same name, when a folder around them has been moved back by the same undo)
            names = set(q.split("/")[-1] for pq in over_paths for q in pq)
            return bool(diff) and all(d.split("/")[-1] in names or any(L.nested_paths(d, q) for pq in over_paths for q in pq)
                                      for d in diff)

        cls_hint = (SIG_DROP if stale else SIG_ALIAS if (not coherent and sorted(deps) != closure)
                    else SIG_OVERWRITE if irrev_involved else None)
        if -1 in deps or not deps or i not in deps:
            bad(idx, "bookkeeping", "%s returned changes that were not listed / not the chosen one: %r" % (st.kind, deps))
            tainted = True
            continue
        if sorted(deps) != closure and not tainted:
            bad(idx, "closure", "%s of position %d took positions %s with it; the changes touching the same, nested or "
                                "containing paths are %s" % (st.kind, i, sorted(deps), closure), cls_hint)
        keep = [o for j, o in enumerate(src_objs) if j not in deps]
        if st.kind == "undo":
            exp_undo = keep
            exp_redo = list(st.pre_redo_objs) + ([] if st.drop else R)
        else:
            exp_redo = keep
            exp_undo = list(st.pre_undo_objs) + R
        if not _same_objs(exp_undo, st.post_undo_objs) or not _same_objs(exp_redo, st.post_redo_objs):
            bad(idx, "bookkeeping", "after %s the lists are not (list minus returned changes, in order) / (other list plus "
                                    "returned changes)" % st.kind)
        if len(deps) > 1:
            info["selective_multi"] += 1
        if max(deps) - min(deps) + 1 != len(deps) or max(deps) != len(src_objs) - 1:
            info["selective_nonlifo"] += 1
        # in-force bookkeeping of the oracle
        if st.kind == "undo":
            ids = set(id(o) for o in R)
            in_force = [(o, s) for (o, s) in in_force if id(o) not in ids]
            if st.drop and st.post_redo_objs:
                dropped_paths.extend(p for j in deps for p in L.spec_paths(src_specs[j]))
        else:
            in_force.extend((o, L.abstract(o)) for o in R)
        if tainted:
            continue
        # an undo / redo must itself be exactly reversible (it found the contents / the free paths it expects)
        if st.py_irrev and st.unknown_phase == 0:
            bad(idx, "step-not-reversible", "%s of position %d acted on a tree that is not the one its changes were "
                                            "recorded on (stale contents or an occupied path)" % (st.kind, i),
                SIG_DROP if stale else SIG_OVERWRITE if irrev_involved else None)
            tainted = True
        # the snapshot taken around the do of a single change
        if len(R) == 1 and id(R[0]) in snaps:
            pre, post, irr, _over = snaps[id(R[0])]
            if st.kind == "undo" and st.pre_tree == post and st.post_tree != pre:
                diff = sorted(p for p in set(pre) | set(st.post_tree) if pre.get(p, 0) != st.post_tree.get(p, 0))
                bad(idx, "not-inverse", "the tree was as the change left it; after undo it is not as before the change "
                                        "(at %s)" % ", ".join(diff[:4]),
                    SIG_RELOAD_NL if reload_nl(pre) else SIG_NL_DRIFT if nl_drift(pre) else
                    SIG_OVERWRITE if only_overwritten(diff) else (cls_hint if cls_hint != SIG_OVERWRITE else None))
                tainted = True
            if st.kind == "redo" and st.pre_tree == pre and st.post_tree != post and not irr:
                bad(idx, "not-inverse", "the tree was as before the change; after redo it is not as the change left it", cls_hint)
                tainted = True
        if replay_oracle and not tainted:
            info["replays"] += 1
            exp, why = L.replay_tree(ses.tree, [s for (_, s) in in_force])
            if exp is None:
                bad(idx, "replay", "the %d changes still in force cannot be re-executed from the initial tree (%s)" % (
                    len(in_force), why), cls_hint if cls_hint != SIG_OVERWRITE else None)
                tainted = True
            elif exp != st.post_tree:
                diff = sorted(p for p in set(exp) | set(st.post_tree) if exp.get(p, 0) != st.post_tree.get(p, 0))
                bad(idx, "replay", "after %s the tree differs from re-executing the %d changes still in force, at %s" % (
                    st.kind, len(in_force), ", ".join(diff[:6])),
                    SIG_RELOAD_NL if reload_nl(exp) else SIG_NL_DRIFT if nl_drift(exp) else
                    cls_hint if (cls_hint != SIG_OVERWRITE or only_overwritten(diff)) else None)
                tainted = True
        if tainted and info["tainted_at"] is None:
            info["tainted_at"] = idx
    return verdicts, info


# ------------------------------------------------------------------------- running the sessions
def _work(plan):
    limit, script, family = plan[:3]
    ses = L.run_session(L.TREE_LF if (len(plan) > 3 and plan[3] == "lf") else L.TREE0, limit, script,
                        reread_all=(family == "reread-probe"))
    verdicts, info = judge(ses, replay_oracle=True)
    return L.strip(ses), verdicts, info


def run_plans(plans):
    """real run + oracle of every planned session (the sessions are independent: worker processes)"""
    import multiprocessing
    import os
    n = min(16, os.cpu_count() or 1)
    if n <= 1 or len(plans) < 64:
        return [_work(p) for p in plans]
    with multiprocessing.get_context("fork").Pool(n) as pool:
        return pool.map(_work, plans, chunksize=32)


# ------------------------------------------------------------------------------ replay / shrink
def _session_obj(ses, upto, verdict):
    return {"kind": "session", "tree": {p: (None if v is None else v) for p, v in ses.tree.items()},
            "limit": ses.limit, "script": L.concrete_script(ses)[:upto + 1], "step": upto,
            "reread_all": bool(getattr(ses, "reread_all", False)),
            "verdict": verdict.kind, "observed": verdict.text, "class": verdict.cls}


def _failing(tree, limit, script, cls=None, reread_all=False):
    ses = L.run_session(tree, limit, script, reread_all=reread_all)
    vs, _ = judge(ses)
    vs = [v for v in vs if cls is None or v.cls == cls]
    return (ses, vs[0]) if vs else (None, None)


def shrink(obj):
    """greedy removal of operations while a violation of the same class remains"""
    tree, limit, script, cls = obj["tree"], obj["limit"], list(obj["script"]), obj["class"]
    changed = True
    rounds = 0
    while changed and rounds < 4:
        changed = False
        rounds += 1
        k = 0
        while k < len(script):
            cand = script[:k] + script[k + 1:]
            if cand:
                try:
                    ses, v = _failing(tree, limit, cand, cls, bool(obj.get("reread_all")))
                except Exception:
                    ses, v = None, None
                if v is not None:
                    script = L.concrete_script(ses)[:v.step + 1]
                    obj = dict(obj, script=script, step=v.step, verdict=v.kind, observed=v.text)
                    changed = True
                    continue
            k += 1
    return obj


def signature(obj):
    return obj.get("class")


def replay(ctx, obj):
    if obj.get("kind") in ("session", "corpus"):
        ses = L.run_session(obj["tree"], obj["limit"], obj["script"], reread_all=bool(obj.get("reread_all")))
        vs, _ = judge(ses)
        return bool(vs)
    if obj.get("kind") == "mismatch":
        ses = L.run_session(obj["tree"], obj["limit"], obj["script"])
        return bool(evaluate(ctx, [ses], EXPECTED_DEP)[0][0])
    return True


# --------------------------------------------------------------------------------- Coq evaluation
MISMATCH_BITS = {1: "raised flag / exception chain", 2: "tree", 4: "undo list", 8: "redo list",
                 16: "returned dependency list",
                 32: "reversibility verdict of the forward phase of a do"}


def describe(word):
    if word == 1:
        return -1, "Project.is_ignored on the resources of the session"
    step = word // 64 - 1
    return step, ", ".join(t for b, t in MISMATCH_BITS.items() if word & b)


DEP_VARIANTS = {"false": "as found before /repo ed5101e: _depends_on compares resources by class and path",
                "true": "expected: _depends_on compares paths only (equal, below or above, on path segments)"}
EXPECTED_DEP = "true"


def evaluate(ctx, sessions, bp="false"):
    """-> ([report word per session], summed stats) under the dependency-test variant bp"""
    shards, cur, size = [], [], 0
    for ses in sessions:
        n = len(ses.steps)
        if cur and size + n > 3000:
            shards.append(cur)
            cur, size = [], 0
        cur.append(ses)
        size += n
    if cur:
        shards.append(cur)
    bodies = [L.Printer().file_body(sh, ["report %s repaired cases" % bp, "stats %s repaired cases" % bp]) for sh in shards]
    outs = ctx.coq_files_parallel(bodies)
    words, stats = [], [0, 0, 0, 0, 0]
    for sh, out in zip(shards, outs):
        nums = ctx.parse_nums(out)
        if len(nums) != 2 or len(nums[0]) != len(sh) or len(nums[1]) != 5:
            raise RuntimeError("unexpected coqc output: %s" % out[:500])
        words.extend(nums[0])
        stats = [a + b for a, b in zip(stats, nums[1])]
    return words, stats


def decide_variant(ctx, sessions):
    """which dependency test does the code under test implement?  The catalogue contains sessions on which
    the two model variants differ; the variant that agrees on all of them is used for the whole run."""
    res = {}
    for bp in ("false", "true"):
        words, _ = evaluate(ctx, sessions, bp)
        res[bp] = sum(1 for w in words if w)
    best = min(("true", "false"), key=lambda b: res[b])
    return best, res


# ------------------------------------------------------------------------------------------- run
def run(ctx):
    ctx.rule = ("session = initial tree (2 text files, a folder, 2 python modules) + history limit + script of operations; "
                "exhaustive: all words of length <= %d over 7 change templates (edit, edit in folder, create file, move "
                "file into/out of folder, move folder, nested set, real Rename of a module), each followed by the selective "
                "undo of every listed position and a selective redo, and by an undo/redo/drop tail under limits 0..3; "
                "random: up to 40 operations incl. removal, overwriting move, file/folder alias, ignored file, leaf change. "
                "A session is non-trivial when it contains a selective undo/redo that is not a LIFO pop (members taken "
                "from the middle of the list) or takes several changes; distinct by (tree, limit, concrete script)."
                % ctx.scale(4, 5))
    depth = ctx.scale(4, 5)
    import os as _os
    # development aid: C11_SKIP_EXHAUSTIVE=1 leaves out the seed-independent exhaustive family (seed sweeps)
    plans = catalogue() + stop_family() + reload_family(ctx.rng) + reread_probe(ctx.rng) + (
        [] if _os.environ.get("C11_SKIP_EXHAUSTIVE") == "1" else exhaustive_scripts(depth))
    n_rand = ctx.scale(120, 1500)
    for k in range(n_rand):
        quirks = (k % 3 == 2)
        plans.append((ctx.rng.choice(LIMITS), random_script(ctx.rng, quirks), "random-quirks" if quirks else "random",
                      "lf" if k % 4 == 1 else "crlf"))
    n_cat = len(catalogue())
    reported = {}
    stats = [0, 0, 0, 0, 0]
    bp = None
    regress_note = ""
    n_sessions = n_mism = 0
    samples = []
    CHUNK = 9000
    for c0 in range(0, len(plans), CHUNK):
        chunk = plans[c0:c0 + CHUNK]
        results = run_plans(chunk)
        sessions = [r[0] for r in results]
        fam = [p[2] for p in chunk]
        n_sessions += len(sessions)
        if c0 == 0:
            samples = sessions[:2]
        # ---- model
        rep = [i for i, s in enumerate(sessions) if L.representable(s) and fam[i] != "reread-probe"]
        ctx.count("sessions_unrepresentable", len(sessions) - len(rep))
        if bp is None:
            # the model runs with the EXPECTED dependency test (paths only, /repo ed5101e); the catalogue is also
            # evaluated under the as-found test, only to say in the evidence which variant the code behaves as
            best, per_variant = decide_variant(ctx, [sessions[i] for i in rep if i < n_cat])
            bp = EXPECTED_DEP
            ctx.extra["model_variant_matching_code"] = {"dependency_test": best, "meaning": DEP_VARIANTS[best],
                                                        "expected": EXPECTED_DEP,
                                                        "mismatching_catalogue_sessions_per_variant": per_variant}
            if best != EXPECTED_DEP:
                regress_note = (" [the code behaves as the dependency test found before /repo ed5101e: resources "
                                "compared by class and path]")
        words, st4 = evaluate(ctx, [sessions[i] for i in rep], bp)
        stats = [x + y for x, y in zip(stats, st4)]
        # 2^20 + ...: the model declares the step outside itself; accepted only where the harness's own observation of
        # the primitives says the same (a folder moved below a missing parent: shutil's copytree fallback)
        arte = [(i, w) for i, w in zip(rep, words) if w >= 1048576]
        words = [w if w < 1048576 else
                 (0 if (0 <= (w - 1048576) // 64 - 1 < len(sessions[i].steps)
                        and sessions[i].steps[(w - 1048576) // 64 - 1].unmodelled) else w - 1048576 + 63)
                 for i, w in zip(rep, words)]
        ctx.count("sessions_ending_in_behaviour_outside_the_model", len(arte))
        mism = [(i, w) for i, w in zip(rep, words) if w]
        mis_step = {i: describe(w)[0] for (i, w) in mism}
        mis_word = dict(mism)
        explained = set()
        # ---- oracle verdicts (computed next to the real run, on the live objects)
        for si, (ses, verdicts, info) in enumerate(results):
            nontrivial = info["selective_nonlifo"] > 0 or info["selective_multi"] > 0
            ctx.case((sorted(ses.tree.items()), ses.limit, L.concrete_script(ses)), nontrivial=nontrivial)
            ctx.traces += len(ses.steps)
            ctx.count("family:%s" % fam[si])
            ctx.count("limit:%d" % ses.limit)
            ctx.count("oracle_replays", info["replays"])
            ctx.count("selective_steps_taking_several_changes", info["selective_multi"])
            ctx.count("selective_steps_not_lifo", info["selective_nonlifo"])
            for st in ses.steps:
                ctx.count("op:%s%s" % (st.kind, "" if st.kind == "do" else (":last" if st.sel is None else ":chosen")))
                if st.kind == "do" and st.build_error is None:
                    ctx.count("do:%s" % ("refused" if st.raised else "performed"))
                if st.kind != "do" and st.raised:
                    ctx.count("%s_raised:%s" % (st.kind, "-".join(map(str, st.codes))))
                if st.letter:
                    ctx.count("template:%s" % st.letter)
            for v in verdicts[:1]:
                ctx.count("oracle_verdict:%s" % v.kind)
                if (v.cls == SIG_RELOAD_NL and mis_step.get(si) == v.step and (mis_word.get(si, 0) & 63) == 2):
                    # the byte-level model has no File.newlines: it predicts the exact restore, the code deviates by the
                    # line ends of exactly the files of the finding's shape (checked by the oracle) and by nothing else
                    explained.add(si)
                elif si in mis_step and mis_step[si] <= v.step and not v.cls.startswith("unexplained"):
                    # a failure is attributed to a known finding only where the model predicts the code's behaviour
                    v.cls = "unexplained:%s (the model does not predict the behaviour at step %d)" % (v.kind, mis_step[si])
                key = v.cls
                if key in reported and reported[key] >= 2:
                    continue
                obj = _session_obj(ses, v.step, v)
                try:
                    obj = shrink(obj)
                except Exception:
                    pass
                if ctx.violation(obj, "C11 %s: %s [step %d of a %s session]" % (v.kind, v.text, v.step, fam[si])):
                    reported[key] = reported.get(key, 0) + 1
            if ctx.too_many(9):
                break
        mism = [(i, w) for (i, w) in mism if i not in explained]
        ctx.count("line_end_only_mismatches_explained_by_reload_finding", len(explained))
        n_mism += len(mism)
        for (i, w) in mism[:3]:
            ses = sessions[i]
            step, what = describe(w)
            verdicts = results[i][1]
            ctx.violation({"kind": "mismatch", "tree": ses.tree, "limit": ses.limit, "script": L.concrete_script(ses)[:max(step, 0) + 1],
                           "step": step, "differs": what, "oracle": [v.kind for v in verdicts],
                           "broken": "correspondence RopeVerif.C11.Runner.report1 (model History.hstep over C10.Change.run vs "
                                     "rope/base/history.py + change.py): the model and the code disagree at this step (all words "
                                     "up to the exhaustive depth were enumerated; the oracle verdicts of the session are listed), "
                                     "theorems C11_* no longer speak about the code"},
                          "C11: model and rope differ on %s at step %d of a %s session%s" % (what, step, fam[i], regress_note),
                          no_input=True)
        if ctx.too_many(9):
            break
        samples = samples[:2] + sessions[-1:]
    ctx.count("model_mismatching_sessions", n_mism)
    ctx.extra["steps_in_theorem_domain"] = stats[0]
    ctx.extra["selective_steps_in_theorem_domain"] = stats[1]
    ctx.extra["reversible_do_steps"] = stats[3]
    ctx.extra["well_behaved_steps_from_consistent_states"] = stats[4]
    if stats[2]:
        ctx.violation({"kind": "mismatch", "broken": "vm_compute of the model contradicts C11_selective_undo / C11_inv inside their "
                                                     "domain: the case files and the proved development disagree",
                       "count": stats[2]}, "C11: model not Consistent after a selective step inside the theorem's domain",
                      no_input=True)
    ctx.extra["sessions"] = n_sessions
    ctx.extra["exhaustive_depth"] = depth
    for ses in samples:
        ctx.sample({"limit": ses.limit, "script": L.concrete_script(ses),
                    "tree_after": {k: (None if v is None else v.decode("utf-8", "replace")) for k, v in ses.steps[-1].post_tree.items()}
                    if ses.steps else None})
    ctx.assumptions.append("resource observers do not raise; file-system primitives do not fail during a session (faults and "
                           "interruption are C10's subject)")
    ctx.assumptions.append("the history limit is constant along a session; histories start empty (no loaded history file)")
