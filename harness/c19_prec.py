"""C19 part E — the precedence printer model (coq/C19/Precedence.v) against CPython's ast.unparse.

For restructuring cases whose goal and bound expressions lie in a fragment (names, constants, unary / binary /
boolean operators, comparisons, conditional expressions, plain calls, attributes, subscripts, tuples, lists) the
goal and the bindings are converted to `pexpr` terms with ast.unparse's own level tables.  Coq computes `fits` and
the canonical tokens of the substituted tree; they must equal (a) whether CPython's printer gives the same text for
"insert the trees, then print" and "print, then insert the texts", and (b) the tokens of ast.unparse of the
substituted tree.  This ties the hypothesis and the printer of C19_subst_meaning to CPython on every case.
"""
import ast
import copy
import io
import tokenize

from harness import c19

P = ast._Precedence
U = ast._Unparser


class OutOfFragment(Exception):
    pass


def toks(text):
    out = []
    for t in tokenize.generate_tokens(io.StringIO(text).readline):
        if t.type in (tokenize.NEWLINE, tokenize.NL, tokenize.ENDMARKER, tokenize.INDENT, tokenize.DEDENT):
            continue
        out.append(t.string)
    return out


def g_tok(s):
    return "ITok %s" % c19.g_text(s)


def node(level, items):
    return "PNode %d [%s]" % (int(level), ";".join(items))


def sub(ctx, term):
    return "ISub %d (%s)" % (int(ctx), term)


def to_pexpr(n, holes):
    """Gallina pexpr; holes: wildcard base name -> index"""
    w = c19.wild_base(n)
    if w is not None:
        if w not in holes:
            raise OutOfFragment("unbound wildcard")
        return "PHole %d" % holes[w]
    if isinstance(n, ast.Name):
        return node(P.ATOM, [g_tok(n.id)])
    if isinstance(n, ast.Constant):
        text = ast.unparse(n)
        if isinstance(n.value, tuple) or len(toks(text)) != 1:
            raise OutOfFragment("constant")
        return node(P.ATOM, [g_tok(text)])
    if isinstance(n, ast.BinOp):
        op = U.binop[type(n.op).__name__]
        p = U.binop_precedence[op]
        lp, rp = (p.next(), p) if op in U.binop_rassoc else (p, p.next())
        return node(p, [sub(lp, to_pexpr(n.left, holes)), g_tok(op), sub(rp, to_pexpr(n.right, holes))])
    if isinstance(n, ast.UnaryOp):
        op = U.unop[type(n.op).__name__]
        p = U.unop_precedence[op]
        return node(p, [g_tok(op), sub(p, to_pexpr(n.operand, holes))])
    if isinstance(n, ast.BoolOp):
        op = U.boolops[type(n.op).__name__]
        p = U.boolop_precedence[op]
        items, q = [], p
        for i, v in enumerate(n.values):
            q = q.next()
            if i:
                items.append(g_tok(op))
            items.append(sub(q, to_pexpr(v, holes)))
        return node(p, items)
    if isinstance(n, ast.Compare):
        items = [sub(P.CMP.next(), to_pexpr(n.left, holes))]
        for o, c in zip(n.ops, n.comparators):
            items.extend(g_tok(t) for t in U.cmpops[type(o).__name__].split())
            items.append(sub(P.CMP.next(), to_pexpr(c, holes)))
        return node(P.CMP, items)
    if isinstance(n, ast.IfExp):
        return node(P.TEST, [sub(P.TEST.next(), to_pexpr(n.body, holes)), g_tok("if"),
                             sub(P.TEST.next(), to_pexpr(n.test, holes)), g_tok("else"),
                             sub(P.TEST, to_pexpr(n.orelse, holes))])
    if isinstance(n, ast.Call):
        if n.keywords or any(isinstance(a, (ast.Starred, ast.GeneratorExp)) for a in n.args):
            raise OutOfFragment("call")
        items = [sub(P.ATOM, to_pexpr(n.func, holes)), g_tok("(")]
        for i, a in enumerate(n.args):
            if i:
                items.append(g_tok(","))
            items.append(sub(P.TEST, to_pexpr(a, holes)))
        return node(P.ATOM, items + [g_tok(")")])
    if isinstance(n, ast.Attribute):
        if isinstance(n.value, ast.Constant) and isinstance(n.value.value, int):
            raise OutOfFragment("int attribute")
        return node(P.ATOM, [sub(P.ATOM, to_pexpr(n.value, holes)), g_tok("."), g_tok(n.attr)])
    if isinstance(n, ast.Subscript):
        if isinstance(n.slice, (ast.Tuple, ast.Slice, ast.Starred)):
            raise OutOfFragment("slice")
        return node(P.ATOM, [sub(P.ATOM, to_pexpr(n.value, holes)), g_tok("["),
                             sub(P.TEST, to_pexpr(n.slice, holes)), g_tok("]")])
    if isinstance(n, (ast.Tuple, ast.List)):
        if any(isinstance(e, ast.Starred) for e in n.elts) or (isinstance(n, ast.Tuple) and not n.elts):
            raise OutOfFragment("display")
        items = []
        for i, e in enumerate(n.elts):
            if i:
                items.append(g_tok(","))
            items.append(sub(P.TEST, to_pexpr(e, holes)))
        if isinstance(n, ast.Tuple):
            if len(n.elts) == 1:
                items.append(g_tok(","))
            return node(P.TUPLE, items)
        return node(P.ATOM, [g_tok("[")] + items + [g_tok("]")])
    raise OutOfFragment(type(n).__name__)


def bare(piece):
    text = ast.unparse(ast.fix_missing_locations(copy.deepcopy(piece)))
    if isinstance(piece, ast.Tuple) and text.startswith("(") and text.endswith(")"):
        text = text[1:-1]
    return text


def make_case(goal_ast, mapping):
    """Gallina pcase for one goal expression and one match's bindings, or None (outside the fragment)"""
    if isinstance(goal_ast, list):
        return None
    names = sorted(mapping)
    holes = {w: i for i, w in enumerate(names)}
    try:
        g = to_pexpr(goal_ast, holes)
        sg = [(holes[w], to_pexpr(mapping[w], {})) for w in names]
    except OutOfFragment:
        return None

    class Subst(ast.NodeTransformer):
        def __init__(self, table):
            self.table = table

        def visit_Name(self, n):
            w = c19.wild_base(n)
            return copy.deepcopy(self.table[w]) if w in self.table else n
    try:
        real = Subst({w: copy.deepcopy(mapping[w]) for w in names}).visit(copy.deepcopy(goal_ast))
        marked = Subst({w: ast.Name(id="__M%d__" % holes[w], ctx=ast.Load()) for w in names}).visit(copy.deepcopy(goal_ast))
        if any(isinstance(x, ast.Attribute) and isinstance(x.value, ast.Constant) and isinstance(x.value.value, int)
               for x in ast.walk(real)):
            return None                      # ast.unparse writes `1 .real`: a layout rule, not a level rule
        if any(isinstance(x, ast.Subscript) and isinstance(x.slice, (ast.Tuple, ast.Slice, ast.Starred)) for x in ast.walk(real)):
            return None                      # a[1, 2]: the tuple of a subscript is printed bare (outside the fragment)
        real_text = ast.unparse(ast.fix_missing_locations(real))
        marked_text = ast.unparse(ast.fix_missing_locations(marked))
    except (ValueError, AttributeError, TypeError):
        return None
    for w in names:
        marked_text = marked_text.replace("__M%d__" % holes[w], bare(mapping[w]))
    fits = marked_text == real_text
    # ast.unparse parenthesises a tuple at the top: the model prints it at level TEST as well
    return ("{| p_goal := %s; p_sg := [%s]; p_ctx := %d; p_fits := %s; p_tokens := [%s] |}" % (
        g, ";".join("(%d, %s)" % (i, t) for i, t in sg), int(P.TEST), "true" if fits else "false",
        ";".join(c19.g_text(t) for t in toks(real_text))))


HEADER = ("From Coq Require Import List NArith Bool.\nImport ListNotations.\n"
          "From RopeVerif.C19 Require Import Precedence Runner.\nOpen Scope N_scope.\n")


def run(ctx, pairs):
    """pairs: list of (goal_ast, mapping, replay object)"""
    terms, objs = [], []
    for goal_ast, mapping, obj in pairs:
        t = make_case(goal_ast, mapping)
        if t is None:
            ctx.count("precedence:outside_fragment")
            continue
        terms.append(t)
        objs.append(obj)
    if not terms:
        return
    bodies, shard = [], 300
    for s0 in range(0, len(terms), shard):
        bodies.append(HEADER + "Definition cases : list pcase := [\n%s].\nEval vm_compute in (pmismatches cases).\n"
                      % ";\n".join(terms[s0:s0 + shard]))
    outs = ctx.coq_files_parallel(bodies)
    mism = {}
    for k, out in enumerate(outs):
        pr = ctx.parse_pairs(out)
        for (i, code) in (pr[0] if pr else []):
            mism[k * shard + i] = code
    for idx, obj in enumerate(objs):
        ctx.case(("precedence", obj["user"], obj["goal"], obj["source"]), nontrivial=True)
        ctx.traces += 1
        ctx.count("precedence:" + ("fit" if "p_fits := true" in terms[idx] else "unfit"))
        if idx in mism:
            what = {1: "fits differs from CPython's printer condition", 2: "printed tokens differ from ast.unparse"}[mism[idx]]
            ctx.violation(dict(obj, kind="precedence", mismatch=what,
                               broken="correspondence RopeVerif.C19.Runner.run_pcase (Precedence.pp / fits vs CPython "
                                      "ast.unparse); C19_subst_meaning no longer speaks about Python's printer"),
                          "C19 precedence model: %s; goal %r" % (what, obj["goal"][:80]), no_input=True)
        if ctx.too_many(8):
            break
