"""Random small Python modules for C19 (pattern matching / restructuring).

Modules are 5-25 statements over tiny identifier pools; sub-expressions are re-used from a per-module pool so
that patterns abstracted from one place have further instances elsewhere.  Layout varies (spacing, redundant
parentheses, comments, continuation inside brackets).  Everything is derived from the `random.Random` passed in.
"""

NAMES = ["a", "b", "c", "x", "y"]
FUNCS = ["f", "g", "h"]
ATTRS = ["p", "q"]
CONSTS = ["0", "1", "2", "10", "'s'", '"t"', "1.5", "True", "None", "b'k'", "2j", "...", "False", "1.0", "0", "1",
          "1_000", "2_500.75", "0x_ff", "1e1_0", "0b1_01", "1_0j"]          # PEP 515 spellings
# string literals spelling ${name} for the wildcard names the pattern generator uses: bound code that looks like a
# placeholder must arrive verbatim in a restructured module
TEMPLATE_STRS = ["'${a}'", '"${x}!"', "'${w} ${a}'", "'${n1}'", '"${?v}"', "'${x}'", "'${w}'"]
BINOPS = ["+", "-", "*", "/", "%", "**", "//", "|", "&", "<<"]
CMPOPS = ["<", "==", "!=", ">=", "in", "not in", "is", "is not"]


class Gen:
    def __init__(self, rng, rich=True):
        self.rng = rng
        self.pool = []
        self.rich = rich

    # ------------------------------------------------------------------ expressions
    def sp(self):
        return self.rng.choice(["", " ", " ", " "])

    def atom(self):
        r = self.rng.random()
        if r < 0.55:
            return self.rng.choice(NAMES)
        if r < 0.84:
            return self.rng.choice(CONSTS)
        if r < 0.88:
            return self.rng.choice(TEMPLATE_STRS)
        if r < 0.92:
            return "(" + self.multi_piece_string() + ")"
        return self.rng.choice(NAMES) + "." + self.rng.choice(ATTRS)

    def expr(self, d=0):
        rng = self.rng
        if self.pool and rng.random() < 0.33:
            return rng.choice(self.pool)
        if d >= 3 or rng.random() < 0.28:
            e = self.atom()
        else:
            e = self._compound(d)
            if d >= 1 and len(e) < 40 and len(self.pool) < 12:
                self.pool.append(e)
        if rng.random() < 0.06:
            e = "(" + e + ")"
        return e

    def _paren(self, e):
        # operands of operators are parenthesised unless they are primaries
        if e.replace(".", "").replace("_", "").isalnum() or (e[0] in "([{" and self._balanced_whole(e)) or \
                (e[-1] in ")]" and self._is_primary(e)):
            return e
        return "(" + e + ")"

    @staticmethod
    def _balanced_whole(e):
        depth = 0
        for i, ch in enumerate(e):
            if ch in "([{":
                depth += 1
            elif ch in ")]}":
                depth -= 1
                if depth == 0 and i != len(e) - 1:
                    return False
        return depth == 0

    @staticmethod
    def _is_primary(e):
        # call / subscript of a simple head: name(...)  name.attr[...]
        depth = 0
        for i, ch in enumerate(e):
            if ch in "([{":
                depth += 1
            elif ch in ")]}":
                depth -= 1
            elif depth == 0 and not (ch.isalnum() or ch in "._"):
                return False
        return depth == 0

    def multi_piece_string(self):
        """a string literal written as adjacent pieces on several lines (only valid inside brackets), with or
        without a comment after a piece"""
        rng = self.rng
        pieces = [rng.choice(['"req "', "'st %s'", '"a"', "'b '", '"${x}"']) for _ in range(rng.randint(2, 3))]
        out = pieces[0]
        for pc in pieces[1:]:
            r = rng.random()
            if r < 0.55:
                out += "  # note\n        " + pc
            elif r < 0.85:
                out += "\n        " + pc
            else:
                out += " " + pc
        return out

    def _compound(self, d):
        rng = self.rng
        k = rng.random()
        E = lambda: self.expr(d + 1)     # noqa: E731
        P = lambda: self._paren(self.expr(d + 1))     # noqa: E731
        if k < 0.26:
            op = rng.choice(BINOPS)
            s = self.sp()
            return "%s%s%s%s%s" % (P(), s, op, s, P())
        if k < 0.42:
            fn = rng.choice(FUNCS) if rng.random() < 0.7 else rng.choice(NAMES) + "." + rng.choice(ATTRS)
            args = [E() for _ in range(rng.randint(0, 3))]
            if rng.random() < 0.25:
                args.append("%s=%s" % (rng.choice(["k", "w"]), E()))
            if rng.random() < 0.15:
                args.insert(rng.randint(0, len(args)), self.multi_piece_string())
            if self.rich and rng.random() < 0.1:
                args.append("*" + rng.choice(NAMES))
            if self.rich and rng.random() < 0.08:
                args.append("**" + rng.choice(NAMES))
            args = [a if not self._top_level_comma(a) else "(" + a + ")" for a in args]
            if len(args) >= 2 and rng.random() < 0.08:
                return fn + "(" + (",\n        ").join(args) + ")"
            return fn + "(" + (", " if rng.random() < 0.8 else ",").join(args) + ")"
        if k < 0.50:
            return "%s %s %s" % (P(), rng.choice(CMPOPS), P())
        if k < 0.56:
            return "%s %s %s" % (P(), rng.choice(["and", "or"]), P())
        if k < 0.61:
            return rng.choice(["-", "not ", "~"]) + P()
        if k < 0.68:
            n = rng.randint(0, 3)
            items = [P() for _ in range(n)]
            if n == 1:
                return "(" + items[0] + ",)"
            return "(" + ", ".join(items) + ")"
        if k < 0.74:
            return "[" + ", ".join(P() for _ in range(rng.randint(0, 3))) + "]"
        if k < 0.79:
            items = ["%s: %s" % (P(), P()) for _ in range(rng.randint(0, 2))]
            if self.rich and rng.random() < 0.2:
                items.append("**" + rng.choice(NAMES))
            return "{" + ", ".join(items) + "}"
        if k < 0.86:
            base = rng.choice(NAMES)
            if rng.random() < 0.6:
                return "%s[%s]" % (base, P())
            lo = P() if rng.random() < 0.7 else ""
            hi = P() if rng.random() < 0.7 else ""
            return "%s[%s:%s]" % (base, lo, hi)
        if k < 0.90:
            return "%s if %s else %s" % (P(), P(), P())
        if k < 0.93 and self.rich:
            v = rng.choice(NAMES)
            return "[%s for %s in %s]" % (P(), v, P())
        if k < 0.95 and self.rich:
            v = rng.choice(NAMES)
            return "lambda %s: %s" % (v, P())
        if k < 0.97:
            head = self._paren(E()) if rng.random() < 0.5 else rng.choice(NAMES)
            if head[0].isdigit():
                head = "(" + head + ")"
            return "%s.%s" % (head, rng.choice(ATTRS))
        return "{" + ", ".join(P() for _ in range(rng.randint(1, 3))) + "}"

    @staticmethod
    def _top_level_comma(a):
        depth = 0
        for ch in a:
            if ch in "([{":
                depth += 1
            elif ch in ")]}":
                depth -= 1
            elif ch == "," and depth == 0:
                return True
        return False

    def safe(self, e):
        """an expression usable where a bare tuple / lambda / conditional would change the parse"""
        return self._paren(e)

    # ------------------------------------------------------------------ statements
    def target(self):
        rng = self.rng
        r = rng.random()
        if r < 0.6:
            return rng.choice(NAMES)
        if r < 0.75:
            return rng.choice(NAMES) + "." + rng.choice(ATTRS)
        if r < 0.88:
            return "%s[%s]" % (rng.choice(NAMES), self.safe(self.expr(2)))
        return "%s, %s" % (rng.choice(NAMES), rng.choice(NAMES))

    def simple_stmt(self, in_func, in_loop):
        rng = self.rng
        r = rng.random()
        comment = "  # note" if rng.random() < 0.06 else ""
        if r < 0.42:
            return ["%s%s=%s%s%s" % (self.target(), self.sp(), self.sp(), self.expr(), comment)]
        if r < 0.52:
            return ["%s %s= %s" % (rng.choice(NAMES), rng.choice(["+", "-", "*"]), self.expr())]
        if r < 0.70:
            fn = rng.choice(FUNCS)
            return ["%s(%s)%s" % (fn, ", ".join(self.safe(self.expr(1)) for _ in range(rng.randint(0, 2))), comment)]
        if r < 0.76 and in_func:
            return ["return %s" % self.expr()] if rng.random() < 0.85 else ["return"]
        if r < 0.80:
            return ["pass"]
        if r < 0.83:
            return ["del %s" % rng.choice(NAMES)]
        if r < 0.86:
            return ["assert %s" % self.safe(self.expr(1))]
        if r < 0.88 and in_loop:
            return [rng.choice(["break", "continue"])]
        if r < 0.91:
            return ["%s: %s = %s" % (rng.choice(NAMES), rng.choice(["int", "str"]), self.expr(1))]
        if r < 0.93 and in_func:
            return ["global %s" % rng.choice(["u", "v"])]
        if r < 0.95:
            return ["raise %s(%s)" % (rng.choice(["E", "F"]), self.safe(self.expr(2)))]
        if r < 0.97:
            return ["import %s" % rng.choice(["m", "n.o"])]
        return ["%s = %s = %s" % (rng.choice(NAMES), rng.choice(NAMES), self.expr(1))]

    def block(self, n, depth, in_func=False, in_loop=False):
        rng = self.rng
        out = []
        last = None
        for _ in range(n):
            # a run of 3-6 equal or unifiable statements: chains of mutually overlapping windows of a
            # multi-statement pattern
            if rng.random() < 0.10:
                out.extend(self.run_of_statements())
                last = None
                continue
            if rng.random() < 0.07:
                out.extend(self.optional_slot_group(in_func))
                last = None
                continue
            # repeat the previous simple statement now and then: windows of a statement pattern overlap
            if last is not None and rng.random() < 0.08:
                out.extend(last)
                continue
            if depth < 2 and rng.random() < 0.27:
                out.extend(self.compound(depth, in_func, in_loop))
                last = None
            else:
                last = self.simple_stmt(in_func, in_loop)
                if rng.random() < 0.08 and len(last) == 1 and "#" not in last[0] and "\n" not in last[0]:
                    more = self.simple_stmt(in_func, in_loop)      # two simple statements on one line
                    if len(more) == 1 and "\n" not in more[0]:
                        last = [last[0] + "; " + more[0]]
                out.extend(last)
            if rng.random() < 0.05:
                out.append("")
            if rng.random() < 0.04:
                out.append("# comment " + rng.choice(NAMES))
        return out

    def optional_slot_group(self, in_func):
        """sibling statements of one node class whose optional children are set in different slots
        (Slice lower/upper/step, Raise exc/cause, Return value, AnnAssign value, Dict ** entries, call ** / *)"""
        rng = self.rng
        b, t = rng.choice(NAMES), rng.choice(NAMES)
        e = lambda: self._paren(self.atom())          # noqa: E731
        k = rng.random()
        if k < 0.40:
            forms = ["%s = %s[:%s]", "%s = %s[%s:]", "%s = %s[::%s]"]
            out = [f % (t, b, e()) for f in forms]
            if rng.random() < 0.5:
                out.append("%s = %s[%s:%s]" % (t, b, e(), e()))
            if rng.random() < 0.5:
                out.append("%s = %s[%s::%s]" % (t, b, e(), e()))
        elif k < 0.55:
            out = ["raise E(%s)" % e(), "raise E(%s) from %s" % (e(), rng.choice(NAMES))]
        elif k < 0.70:
            out = ["%s: int" % t, "%s: int = %s" % (t, e()), "%s: %s" % (t, e())]
        elif k < 0.85:
            out = ["%s = {**%s, %s: 1}" % (t, b, e()), "%s = {%s: 1, **%s}" % (t, e(), b), "%s = {%s: 1, %s: 1}" % (t, e(), e())]
        else:
            out = ["%s(*%s, **%s)" % (rng.choice(FUNCS), b, t), "%s(%s, **%s)" % (rng.choice(FUNCS), e(), t),
                   "%s(*%s, k=%s)" % (rng.choice(FUNCS), b, e())]
        rng.shuffle(out)
        return out

    def run_of_statements(self):
        rng = self.rng
        n = rng.randint(3, 6)
        style = rng.random()
        if style < 0.4:                                   # identical statements
            st = rng.choice(["%s.%s()" % (rng.choice(NAMES), rng.choice(ATTRS)),
                             "%s(%s)" % (rng.choice(FUNCS), self.safe(self.expr(2))),
                             "%s += 1" % rng.choice(NAMES), "pass"])
            return [st] * n
        if style < 0.75:                                  # same shape, one varying leaf
            fn = rng.choice(FUNCS)
            return ["%s(%s)" % (fn, self.atom()) for _ in range(n)]
        tgt = rng.choice(NAMES)                           # same shape, two varying leaves
        return ["%s = %s + %s" % (tgt, self.atom(), rng.choice(NAMES)) for _ in range(n)]

    def indent(self, lines):
        return [("    " + ln) if ln.strip() else ln for ln in lines]

    def compound(self, depth, in_func, in_loop):
        rng = self.rng
        r = rng.random()
        body = lambda **kw: self.indent(self.block(rng.randint(1, 3), depth + 1,      # noqa: E731
                                                   kw.get("in_func", in_func), kw.get("in_loop", in_loop)))
        cond = lambda: self.safe(self.expr(1))        # noqa: E731
        if r < 0.30:
            out = ["if %s:" % cond()] + body()
            while rng.random() < 0.3:
                out += ["elif %s:" % cond()] + body()
            if rng.random() < 0.45:
                out += ["else:"] + body()
            return out
        if r < 0.42:
            out = ["while %s:" % cond()] + body(in_loop=True)
            if rng.random() < 0.15:
                out += ["else:"] + body()
            return out
        if r < 0.56:
            tgt = rng.choice(NAMES) if rng.random() < 0.8 else "%s, %s" % (rng.choice(NAMES), rng.choice(NAMES))
            return ["for %s in %s:" % (tgt, cond())] + body(in_loop=True)
        if r < 0.76:
            params = [rng.choice(NAMES)]
            if rng.random() < 0.5:
                params.append(rng.choice([n for n in NAMES if n not in params]))
            if rng.random() < 0.3:
                params[-1] += "=" + self.safe(self.expr(2))
            if self.rich and rng.random() < 0.1:
                params.append("*r")
            out = []
            if rng.random() < 0.12:
                out.append("@" + rng.choice(["d", "m.d"]))
            out.append("def %s(%s):" % (rng.choice(FUNCS), ", ".join(params)))
            if rng.random() < 0.12:
                out.append('    """doc"""')
            return out + body(in_func=True, in_loop=False)
        if r < 0.83:
            return ["class %s%s:" % (rng.choice(["K", "L"]), rng.choice(["", "(B)", "()"]))] + body(in_func=False, in_loop=False)
        if r < 0.90:
            asn = " as %s" % rng.choice(NAMES) if rng.random() < 0.6 else ""
            return ["with %s%s:" % (cond(), asn)] + body()
        out = ["try:"] + body()
        if rng.random() < 0.8:
            out += ["except %s%s:" % (rng.choice(["E", "F"]), rng.choice(["", " as e"]))] + body()
            if rng.random() < 0.25:
                out += ["else:"] + body()
        if rng.random() < 0.3 or len(out) == len(["try:"]) + 0 or not any(ln.startswith("except") for ln in out):
            out += ["finally:"] + body()
        return out

    def module(self, n=None):
        n = n or self.rng.randint(4, 12)
        self.pool = []
        for _ in range(self.rng.randint(2, 4)):
            self.expr(1)
        lines = self.block(n, 0)
        return "\n".join(lines) + "\n"


def gen_module(rng, rich=True):
    import ast
    for _ in range(50):
        src = Gen(rng, rich).module()
        try:
            tree = ast.parse(src)
        except SyntaxError:
            continue
        if sum(1 for _ in ast.walk(tree)) > 450:
            continue
        return src
    return "a = 1\nb = a + 1\nc = a + 1\n"
