"""C05 helpers: abstract modules <-> text, rope driver, CPython oracle driver, an independent resolver,
Gallina printers.  stdlib only; rope is imported lazily from $VERIF_REPO."""
import ast
import json
import os
import shutil
import subprocess
import sys
import tempfile

from harness.common import g_N, g_nat, g_bool, g_list, g_opt, g_pair

PY = "/venv/bin/python"

# ----------------------------------------------------------------------------- identifiers
_IDS = {"__init__": 0, "*": 1}


def nid(name):
    if name not in _IDS:
        _IDS[name] = len(_IDS) + 8
    return _IDS[name]


# ----------------------------------------------------------------------------- resources
# a resource is ("D", (seg, ...)) or ("P", (seg, ...), name)   [file  seg/.../name.py]
def res_of_relpath(rel, is_dir=False):
    parts = tuple(p for p in rel.split("/") if p)
    if is_dir:
        return ("D", parts)
    assert parts[-1].endswith(".py"), rel
    return ("P", parts[:-1], parts[-1][:-3])


def relpath_of_res(r):
    if r[0] == "D":
        return "/".join(r[1])
    return "/".join(r[1] + (r[2] + ".py",))


def canon(r):
    if r[0] == "P" and r[2] == "__init__":
        return ("D", r[1])
    return r


def g_path(p):
    return g_list([g_N(nid(s)) for s in p])


def g_res(r):
    if r[0] == "D":
        return "(RDir %s)" % g_path(r[1])
    return "(RPy %s %s)" % (g_path(r[1]), g_N(nid(r[2])))


def g_obj(o):
    if o is None:
        return "None"
    if o[0] == "M":
        return "(Some (OMod %s))" % g_res(o[1])
    return "(Some (OGlob %s %s))" % (g_res(o[1]), g_N(nid(o[2])))


# ----------------------------------------------------------------------------- abstract modules
# module = {"imports": [stmt], "refs": [dotted tuple], "globals": [name]}
# stmt = ("N", [(dotted tuple, alias|None)]) | ("F", level, dotted tuple, [(name, alias|None)])
def mk_module(imports=(), refs=(), globals_=()):
    return {"imports": list(imports), "refs": list(refs), "globals": list(globals_)}


def stmt_text(s):
    if s[0] == "N":
        return "import " + ", ".join(".".join(d) + (" as " + a if a else "") for d, a in s[1])
    return "from " + "." * s[1] + ".".join(s[2]) + " import " + ", ".join(
        n + (" as " + a if a else "") for n, a in s[3])


def module_text(m, token):
    """token: a string unique to the file (returned by its functions, so behaviour is observable)."""
    lines = [stmt_text(s) for s in m["imports"]]
    for g in m["globals"]:
        lines.append("def %s():" % g)
        lines.append("    return %r" % (token + ":" + g))
    for r in m["refs"]:
        lines.append("show(%s)" % ".".join(r))
    return "".join(x + "\n" for x in lines)


class ParseError(Exception):
    pass


def _dotted_of(node):
    parts = []
    while isinstance(node, ast.Attribute):
        parts.append(node.attr)
        node = node.value
    if not isinstance(node, ast.Name):
        raise ParseError("not a dotted name")
    parts.append(node.id)
    return tuple(reversed(parts))


def parse_module(text):
    """text -> abstract module (raises ParseError when the text leaves the fragment)."""
    try:
        tree = ast.parse(text)
    except SyntaxError as e:
        raise ParseError("syntax error: %s" % e)
    m = mk_module()
    for node in tree.body:
        if isinstance(node, ast.Import):
            m["imports"].append(("N", [(tuple(a.name.split(".")), a.asname) for a in node.names]))
        elif isinstance(node, ast.ImportFrom):
            m["imports"].append(("F", node.level or 0, tuple(node.module.split(".")) if node.module else (),
                                 [(a.name, a.asname) for a in node.names]))
        elif isinstance(node, ast.FunctionDef):
            m["globals"].append(node.name)
        elif (isinstance(node, ast.Expr) and isinstance(node.value, ast.Call)
              and isinstance(node.value.func, ast.Name) and node.value.func.id == "show"
              and len(node.value.args) == 1):
            m["refs"].append(_dotted_of(node.value.args[0]))
        else:
            raise ParseError("unexpected statement %s" % ast.dump(node)[:80])
    return m


def g_optN(a):
    return "None" if a is None else "(Some %s)" % g_N(nid(a))


def g_stmt(s):
    if s[0] == "N":
        return "(INormal %s)" % g_list([g_pair(g_path(d), g_optN(a)) for d, a in s[1]])
    return "(IFrom %s %s %s)" % (g_nat(s[1]), g_path(s[2]), g_list([g_pair(g_N(nid(n)), g_optN(a)) for n, a in s[3]]))


def g_pymod(r, m):
    assert r[0] == "P"
    return "{| m_folder := %s; m_name := %s; m_imports := %s; m_refs := %s |}" % (
        g_path(r[1]), g_N(nid(r[2])), g_list([g_stmt(s) for s in m["imports"]]), g_list([g_path(d) for d in m["refs"]]))


# ----------------------------------------------------------------------------- trees
# tree = {"files": {relpath: module}, "dirs": [relpath]}   (dirs: extra folders without python files)
def tree_dirs(tree):
    ds = set(tree.get("dirs", []))
    for rel in tree["files"]:
        parts = rel.split("/")[:-1]
        for i in range(1, len(parts) + 1):
            ds.add("/".join(parts[:i]))
    return ds


def tree_layout(tree):
    """list of resources (folders and python files) of the tree, sorted."""
    out = [("D", tuple(d.split("/"))) for d in sorted(tree_dirs(tree))]
    out += [res_of_relpath(rel) for rel in sorted(tree["files"])]
    return out


def g_world(tree):
    lay = tree_layout(tree)
    gl = []
    for rel in sorted(tree["files"]):
        m = tree["files"][rel]
        if m["globals"]:
            gl.append(g_pair(g_res(res_of_relpath(rel)), g_list([g_N(nid(g)) for g in m["globals"]])))
    return "{| w_l := %s; w_g := %s |}" % (g_list([g_res(r) for r in lay]), g_list(gl))


def write_tree(root, tree):
    for d in tree.get("dirs", []):
        os.makedirs(os.path.join(root, d), exist_ok=True)
    for rel, m in tree["files"].items():
        fp = os.path.join(root, rel)
        os.makedirs(os.path.dirname(fp), exist_ok=True)
        with open(fp, "w") as f:
            f.write(module_text(m, m.get("token", rel)))


def read_tree_text(root):
    files, dirs = {}, []
    for r, ds, fs in os.walk(root):
        ds[:] = sorted(d for d in ds if d != "__pycache__" and not d.startswith("."))
        rel = os.path.relpath(r, root)
        if rel != ".":
            dirs.append(rel.replace(os.sep, "/"))
        for f in sorted(fs):
            if f.endswith(".py"):
                p = os.path.join(r, f)
                files[os.path.relpath(p, root).replace(os.sep, "/")] = open(p).read()
    return files, dirs


def modname_of_rel(rel):
    parts = rel[:-3].split("/")
    if parts[-1] == "__init__":
        parts = parts[:-1]
    return ".".join(parts)


# ----------------------------------------------------------------------------- rope driver
def new_project(root):
    from rope.base.project import Project
    return Project(root, ropefolder=None)


def run_rope_op(tree, op, preview=None):
    """Write the tree to a scratch project, perform the refactoring for real, read the tree back.
    Returns dict(raised=None|str, files={rel: text}, dirs=[rel])."""
    from rope.refactor import move, rename, topackage
    root = tempfile.mkdtemp(prefix="ropeverif-")
    try:
        write_tree(root, tree)
        project = new_project(root)
        raised = None
        try:
            if op[0] == "move":
                res = project.get_resource(relpath_of_res(op[1]))
                dest = project.get_resource("/".join(op[2])) if op[2] else project.root
                mover = move.create_move(project, res)
                if preview is not None:
                    # a two-step session on one Move object: look at the changes for another destination, discard
                    mover.get_changes(project.get_resource("/".join(preview)) if preview else project.root)
                changes = mover.get_changes(dest)
            elif op[0] == "rename":
                res = project.get_resource(relpath_of_res(op[1]))
                changes = rename.Rename(project, res).get_changes(op[2])
            elif op[0] == "topackage":
                res = project.get_resource(relpath_of_res(op[1]))
                changes = topackage.ModuleToPackage(project, res).get_changes()
            elif op[0] == "moveglobal":
                res = project.get_resource(op[1])
                offset = res.read().index("def " + op[2] + "(") + 4
                dest = project.get_resource(op[3])
                changes = move.create_move(project, res, offset).get_changes(dest)
            else:
                raise ValueError(op[0])
            project.do(changes)
        except Exception as e:  # the refactoring raised: the tree must be unchanged
            raised = type(e).__name__ + ": " + str(e)[:200]
        finally:
            project.close()
        files, dirs = read_tree_text(root)
        return {"raised": raised, "files": files, "dirs": dirs}
    finally:
        shutil.rmtree(root, ignore_errors=True)


# ----------------------------------------------------------------------------- CPython oracle
ORACLE_DRIVER = r'''
import sys, os, json, builtins, importlib, types
root = sys.argv[1]
mods = json.loads(sys.argv[2])
out = {}
for name in mods:
    r, w = os.pipe()
    pid = os.fork()
    if pid == 0:
        os.close(r)
        res = {"obs": [], "error": None}
        sys.path.insert(0, root)
        sys.dont_write_bytecode = True
        def ident(o):
            if isinstance(o, types.ModuleType):
                f = getattr(o, "__file__", None)
                if f is None:
                    f = list(o.__path__)[0] + "/"
                return ["M", o.__name__, os.path.relpath(f, root)]
            if isinstance(o, types.FunctionType):
                f = sys.modules[o.__module__].__file__
                return ["G", o.__module__, o.__qualname__, os.path.relpath(f, root), o()]
            if isinstance(o, type):
                f = sys.modules[o.__module__].__file__
                v = o().val() if hasattr(o, "val") else None
                return ["G", o.__module__, o.__qualname__, os.path.relpath(f, root), v]
            return ["?", repr(o)]
        def show(o):
            # only the module under test reports (modules it imports may have show() lines of their own)
            if sys._getframe(1).f_globals.get("__name__") == name:
                res["obs"].append(ident(o))
        builtins.show = show
        try:
            importlib.import_module(name)
        except BaseException as e:
            res["error"] = type(e).__name__ + ": " + str(e)[:160]
            # the project file whose code was running when the exception was raised
            tb, culprit = e.__traceback__, None
            while tb is not None:
                fn = tb.tb_frame.f_code.co_filename
                if fn.startswith(root + os.sep):
                    culprit = os.path.relpath(fn, root)
                tb = tb.tb_next
            res["culprit"] = culprit
        os.write(w, json.dumps(res).encode())
        os._exit(0)
    os.close(w)
    buf = b""
    while True:
        chunk = os.read(r, 65536)
        if not chunk:
            break
        buf += chunk
    os.close(r)
    os.waitpid(pid, 0)
    out[name] = json.loads(buf.decode()) if buf else {"obs": [], "error": "no output"}
print(json.dumps(out))
'''


def run_oracle(root, modnames):
    """Import each module in its own forked interpreter with sys.path[0] = root.
    Returns {modname: {"obs": [...], "error": str|None}}."""
    res = {}
    names = list(modnames)
    for s in range(0, len(names), 200):
        p = subprocess.run([PY, "-I", "-c", ORACLE_DRIVER, root, json.dumps(names[s:s + 200])],
                           stdout=subprocess.PIPE, stderr=subprocess.PIPE, text=True, timeout=600)
        if p.returncode != 0:
            raise RuntimeError("oracle driver failed: " + p.stderr[-2000:])
        res.update(json.loads(p.stdout))
    return res


def obs_to_obj(ob):
    """identity printed by the oracle -> abstract object (or None)."""
    if ob[0] == "M":
        rel = ob[2]
        if rel.endswith("/"):
            return ("M", ("D", tuple(rel.rstrip("/").split("/"))))
        return ("M", canon(res_of_relpath(rel)))
    if ob[0] == "G":
        return ("G", canon(res_of_relpath(ob[3])), ob[2])
    return None


def oracle_on_texts(files, dirs, modnames):
    root = tempfile.mkdtemp(prefix="ropeverif-")
    try:
        for d in dirs:
            os.makedirs(os.path.join(root, d), exist_ok=True)
        for rel, text in files.items():
            fp = os.path.join(root, rel)
            os.makedirs(os.path.dirname(fp), exist_ok=True)
            with open(fp, "w") as f:
                f.write(text)
        return run_oracle(root, modnames)
    finally:
        shutil.rmtree(root, ignore_errors=True)


# ----------------------------------------------------------------------------- independent resolver
class Resolver:
    """Python's import semantics on an abstract tree (sys.path = [root]); written independently of the
    Coq model: it works on relpaths and sets."""

    def __init__(self, files, dirs):
        """files: {relpath: abstract module}; dirs: iterable of folder relpaths."""
        self.files = files
        self.dirs = set(dirs)

    def find_abs(self, dotted):
        cur = ""
        for i, seg in enumerate(dotted):
            last = i == len(dotted) - 1
            cand_dir = (cur + "/" + seg) if cur else seg
            if cand_dir in self.dirs:
                if last:
                    return ("D", tuple(cand_dir.split("/")))
                cur = cand_dir
                continue
            if last and (cand_dir + ".py") in self.files:
                return res_of_relpath(cand_dir + ".py")
            return None
        return None

    def find_in(self, folder, dotted):
        return self.find_abs(tuple(folder) + tuple(dotted))

    def globals_of(self, r):
        rel = relpath_of_res(r) if r[0] == "P" else "/".join(r[1] + ("__init__.py",))
        m = self.files.get(rel)
        return m["globals"] if m else []

    def from_base(self, folder, level, modn):
        if level == 0:
            return self.find_abs(modn)
        if level - 1 >= len(folder):
            return None
        base = tuple(folder[:len(folder) - (level - 1)])
        if not modn:
            return ("D", base)
        return self.find_in(base, modn)

    def attr(self, r, n, loaded):
        if n in self.globals_of(r):
            return ("G", r, n)
        if r[0] == "D":
            c = self.find_in(r[1], (n,))
            if c is not None and (loaded is None or c in loaded):
                return ("M", c)
        return None

    def analyse(self, rel, m):
        """-> (env dict name -> obj|None, ok, loaded set)"""
        r = res_of_relpath(rel)
        folder = r[1]
        env, ok, loaded = {}, True, set()
        for i in range(1, len(folder) + 1):
            loaded.add(("D", tuple(folder[:i])))
        for s in m["imports"]:
            if s[0] == "N":
                for d, al in s[1]:
                    target = self.find_abs(d)
                    for i in range(1, len(d) + 1):
                        x = self.find_abs(d[:i])
                        if x is not None:
                            loaded.add(x)
                    if target is None:
                        ok = False
                        env[al or d[0]] = None
                    elif al:
                        env[al] = ("M", target)
                    else:
                        env[d[0]] = ("M", self.find_abs(d[:1]))
            else:
                _, level, modn, names = s
                base = self.from_base(folder, level, modn)
                start = () if level == 0 else tuple(folder[:len(folder) - (level - 1)])
                for i in range(1, len(modn) + 1):
                    x = self.find_in(start, modn[:i])
                    if x is not None:
                        loaded.add(x)
                for n, al in names:
                    if n == "*":
                        if base is None:
                            ok = False
                        else:
                            for g in self.globals_of(base):
                                env[g] = ("G", base, g)
                        continue
                    o = self.attr(base, n, None) if base is not None else None
                    if o is None:
                        ok = False
                    elif o[0] == "M":
                        loaded.add(o[1])
                    env[al or n] = o
        return env, ok, loaded

    def resolve_all(self, rel, m):
        env, ok, loaded = self.analyse(rel, m)
        r = res_of_relpath(rel)
        out = []
        for d in m["refs"]:
            if not ok:
                out.append(None)
                continue
            if d[0] in env:
                o = env[d[0]]
            elif d[0] in m["globals"]:
                o = ("G", canon(r), d[0])
            else:
                o = None
            for n in d[1:]:
                if o is None or o[0] != "M":
                    o = None
                    break
                o = self.attr(o[1], n, loaded)
            out.append(o)
        return out, ok


def blame_root(start, culprit_of, failing):
    """Follow the chain  module -> module that was executing when its import failed.  Returns the module that is
    to be reported for `start`: the end of the chain (a module that fails on its own account), or, when the chain
    runs into a cycle (modules blaming each other: an import cycle), the smallest member of that cycle — so a
    failure is never dropped just because everybody blames somebody else."""
    seen = [start]
    cur = start
    while True:
        nxt = culprit_of(cur)
        if nxt is None or nxt == cur or nxt not in failing:
            return cur
        if nxt in seen:
            cyc = seen[seen.index(nxt):]
            return min(cyc)
        seen.append(nxt)
        cur = nxt
