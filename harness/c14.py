"""C14 — rope's view of source text agrees with Python's tokenizer.

For every generated text: rope's answers (ignored_regions, real_code, every SourceLinesAdapter method at every offset
and line, custom_generator, CachingLogicalLineFinder.logical_line_in at every line, Worder word/primary queries) are
written with the text into a Coq case file and compared there with the model of coq/C14 (correspondence); the same
answers are compared in Python with what `tokenize`/`ast`/`str.split` say (independent oracle, valid texts only).
"""
import json
import os
import random
import signal
import token as T

from harness import c14_gen, c14_oracle
from harness.common import g_N, g_Z, g_list, g_text, g_opt, g_pair, REPO

PROPERTY = "C14"
FEATURES = ("fnest", "glue", "xid", "fbrace", "escq", "bsbr", "blockish", "adjstr", "dotnum", "fquote", "fromname", "kwdot", "fnl")
import re as _re
_BLOCKISH = _re.compile(r"^\s*(def|class|if|elif|except|for|while|with|try|else|finally)\b")


class _Timeout(Exception):
    pass


def _alarm(signum, frame):
    raise _Timeout()


# ----------------------------------------------------------------------------- rope driver
def is_id_char(c):
    return ("a" + c).isidentifier()


def query_offsets(text, real, rng, limit, must=()):
    """offsets for the Worder queries; `must` (identifier offsets inside f-string fields) are always included"""
    n = len(text)
    if n <= limit:
        return list(range(0, n + 1))
    cand = [o for o in range(n) if is_id_char(text[o]) or (o < len(real) and is_id_char(real[o])) or text[o] in ")]}.'\""]
    must = sorted(set(must))[:limit]
    if len(cand) > limit:
        cand = rng.sample(cand, limit)
    return sorted(set(cand) | set(must))


def observe(text, offsets=None, rng=None, limit=160, llf=True, must=()):
    """rope's answers, or {"crash": "..."} when rope raises where no exception is an accepted observable"""
    try:
        return _observe(text, offsets, rng, limit, llf, must)
    except Exception as e:                   # noqa: BLE001
        import traceback
        return {"crash": "%s: %s" % (type(e).__name__, e), "trace": traceback.format_exc()[-1500:]}


def _observe(text, offsets=None, rng=None, limit=160, llf=True, must=()):
    """Everything rope says about `text` (exceptions are recorded as None / their name)."""
    import warnings
    from rope.base import simplify, codeanalyze, worder
    warnings.simplefilter("ignore")      # rope's LogicalLineFinder runs tokenize, which warns about odd escapes
    obs = {}
    obs["regions"] = [(a, b, g.get("prefix")) for a, b, g in simplify.ignored_regions(text)]
    real = simplify.real_code(text)
    obs["real"] = real
    la = codeanalyze.SourceLinesAdapter(text)
    n = la.length()
    obs["lines"] = {
        "length": n,
        "linenos": [la.get_line_number(o) for o in range(len(text) + 2)],
        "starts": [la.get_line_start(i) for i in range(1, n + 1)],
        "ends": [la.get_line_end(i) for i in range(1, n + 1)],
        "get_line": [la.get_line(i) for i in range(1, n + 1)],
    }
    obs["custom"] = [tuple(x) for x in codeanalyze.custom_generator(la)]
    clf = codeanalyze.CachingLogicalLineFinder(la)
    obs["logical_in"] = [tuple(clf.logical_line_in(i)) for i in range(1, n + 1)]
    old = signal.signal(signal.SIGALRM, _alarm)
    try:
        if llf:
            res = []
            finder = codeanalyze.LogicalLineFinder(la)
            for i in range(1, n + 1):
                signal.alarm(5)
                try:
                    res.append(tuple(finder.logical_line_in(i)))
                except _Timeout:
                    res.append("Timeout")
                except Exception as e:       # noqa: BLE001 - recorded as an observable
                    res.append(type(e).__name__)
                finally:
                    signal.alarm(0)
            obs["llf_in"] = res
        w = worder.Worder(text)
        if offsets is None:
            offsets = query_offsets(text, real, rng or random.Random(0), limit, must)
        q = {}
        for o in offsets:
            ans = []
            for name in ("get_word_range", "get_word_at", "get_primary_range", "get_primary_at"):
                signal.alarm(5)
                try:
                    v = getattr(w, name)(o)
                    ans.append(tuple(v) if isinstance(v, (tuple, list)) else v)
                except _Timeout:
                    ans.append(None)
                    obs["timeout"] = True
                except Exception:            # noqa: BLE001 - IndexError/ValueError are observables (None)
                    ans.append(None)
                finally:
                    signal.alarm(0)
            q[o] = tuple(ans)
        obs["queries"] = q
    finally:
        signal.signal(signal.SIGALRM, old)
    return obs


# ----------------------------------------------------------------------------- structural features of a text
def features(text, facts=None):
    """Structural features (computed with tokenize only) used in signatures of known findings."""
    if facts is None:
        facts, _ = c14_oracle.analyze(text)
    if facts is None:
        return None
    fs = set()
    for (a, b, q, nested) in facts.fstrings:
        if len(q) == 1 and any(text[i] == "\n" and text[i - 1] != "\\" for i in range(a + 1, b)):
            fs.add("fnl")           # PEP 701: a newline inside a replacement field of a single-quoted f-string
        if nested:
            fs.add("fnest")
        else:
            lit = text[a:b]
            lit = lit[len(c14_oracle.string_prefix(lit)) + len(q):len(lit) - len(q)]
            if q[0] in lit:
                fs.add("fquote")
    if any(ty == T.NUMBER and s.startswith(".") for (ty, a, b, s, bd) in facts.plain):
        fs.add("dotnum")
    sig_toks = [t for t in facts.plain if t[0] not in (T.NL, T.COMMENT, T.NEWLINE, T.INDENT, T.DEDENT)]
    import keyword as _kw
    for t1, t2 in zip(sig_toks, sig_toks[1:]):
        if t1[0] == T.NUMBER and t1[3].endswith(".") and t2[0] == T.NAME and _kw.iskeyword(t2[3]):
            fs.add("kwdot")
    for t1, t2 in zip(sig_toks, sig_toks[1:]):
        if t1[0] == T.NAME and t1[3] != "from" and t1[3].endswith("from") and t2[0] == T.OP and t2[3] == ".":
            fs.add("fromname")
    prev_b = None
    for (a, b, p, k) in facts.spans:
        if k in "sf" and prev_b == a:
            fs.add("adjstr")
        prev_b = b if k in "sf" else None
        if k in "sf" and a > 0 and (text[a - 1].isalnum() or text[a - 1] == "_" or ord(text[a - 1]) >= 128):
            fs.add("glue")
        if k in "sf":
            s = text[a:b]
            body = s[len(p or ""):]
            if body[:3] in ("'''", '"""') and len(body) >= 8:
                inner = body[3:-3]
                # ends with an escaped quote: ... \q qqq  (odd run of backslashes before a quote that precedes the closing triple)
                if inner.endswith(body[0]):
                    j = len(inner) - 1
                    nb = 0
                    while j - 1 - nb >= 0 and inner[j - 1 - nb] == "\\":
                        nb += 1
                    if nb % 2 == 1:
                        fs.add("escq")
        if k == "f":
            s = text[a:b]
            opens = sum(s.count(c) for c in "([{")
            closes = sum(s.count(c) for c in ")]}")
            if opens != closes:
                fs.add("fbrace")
    for (a, b, s, _inf) in facts.names:
        if any(not (c.isalnum() or c == "_") for c in s):
            fs.add("xid")
    # explicit line joining (backslash-newline between tokens) inside brackets
    covered = [False] * (len(text) + 2)
    for (a, b, p, k) in facts.spans:
        for i in range(a, b):
            covered[i] = True
    prev_end, prev_depth_after = 0, 0
    for (ty, a, b, s, bd) in facts.plain:
        if prev_depth_after > 0 and any(text[i] == "\\" and not covered[i] for i in range(prev_end, min(a, len(text)))):
            fs.add("bsbr")
        prev_end = b
        prev_depth_after = bd + (1 if (ty == T.OP and s in "([{") else 0) - (1 if (ty == T.OP and s in ")]}") else 0)
    # a continuation line of a multi-line statement looks like the start of a block
    for (a, b) in facts.stmts:
        if any(_BLOCKISH.match(facts.lines[i - 1]) for i in range(a + 1, b + 1)):
            fs.add("blockish")
    return fs


OBS_CLASS = {"regions": "lexing", "real_code": "lexing", "custom_generator": "logical", "logical_line_in": "logical",
             "LogicalLineFinder": "llf", "word": "words", "primary": "words", "lines": "lines"}


# the structural features that can explain a failure of each observable class (others are ignored in signatures)
# (glue, xid, fromname and kwdot are features of FIXED defects: they are generated, but explain nothing any more)
# (an f-literal that rope's regular expression cannot delimit also derails the per-line scanner and the word finders
#  after it: fnest / fnl explain failures of those classes from the literal's line on)
RELEVANT = {"lexing": {"fnest", "fnl", "fbrace"}, "logical": {"escq", "adjstr", "fnest", "fnl"}, "llf": {"blockish"},
            "words": {"bsbr", "dotnum", "fquote", "fnest", "fnl", "fbrace"}, "lines": set(), "crash": set()}


def explains(feat, text, facts, fail):
    """Does the structural shape `feat` of the text sit where the failure `fail` is? (narrow masks: a failure elsewhere in a
    text that merely contains a known shape is not attributed to the finding)"""
    ob, off = fail[0], fail[1]
    info = fail[3] if len(fail) > 3 else {}
    line_of = lambda o: text.count("\n", 0, o) + 1
    fstr = [(a, b, q, nested) for (a, b, q, nested) in facts.fstrings]
    bol = lambda o: text.rfind("\n", 0, o) + 1
    rng_ = info.get("range") if ob in ("custom_generator", "logical_line_in") else None

    def at_or_after(a, b):
        if ob == "regions":
            return a <= off <= b
        if rng_ is not None:                 # a wrong logical line: the literal lies in or before the failing range
            return line_of(a) <= max(rng_)
        return off >= bol(a)
    if feat == "fnest":
        return any(nested and at_or_after(a, b) for (a, b, q, nested) in fstr)
    if feat == "fnl":
        return any(len(q) == 1 and any(text[i] == "\n" and text[i - 1] != "\\" for i in range(a + 1, b))
                   and at_or_after(a, b) for (a, b, q, nested) in fstr)
    if feat == "fbrace":
        def unbalanced(a, b):
            t = text[a:b]
            return sum(t.count(c) for c in "([{") != sum(t.count(c) for c in ")]}")
        # real_code's bracket counter is off from the literal on: newlines are joined or kept wrongly, which also derails
        # primaries that cross a line break after it
        if ob == "primary":
            sp = info.get("span")
            return sp is not None and "\n" in text[sp[0]:sp[1]] and any(unbalanced(a, b) and sp[0] >= a for (a, b, q, n) in fstr)
        return ob == "real_code" and any(unbalanced(a, b) and off >= a for (a, b, q, n) in fstr)
    if feat in ("escq", "adjstr"):
        r = info.get("range")
        if r is None:
            return False
        spans = [(a, b, p) for (a, b, p, k) in facts.spans if k in "sf"]
        for idx, (a, b, p) in enumerate(spans):
            body = text[a:b][len(p or ""):]
            if feat == "escq":
                hit = body[:3] in ("'''", '"""') and len(body) >= 8 and body[3:-3].endswith(body[0]) and \
                    (len(body[3:-4]) - len(body[3:-4].rstrip("\\"))) % 2 == 1
            else:
                hit = idx + 1 < len(spans) and spans[idx + 1][0] == b and body[:3] not in ("'''", '"""') and \
                    text[b:b + 3] == body[0] * 3
            if hit and r[0] <= line_of(b - 1) <= max(r[1], r[0]):
                return True
        return False
    if feat == "blockish":
        n, (a, b), got = info.get("line"), info.get("stmt", (0, 0)), info.get("got")
        if n is None:
            return False
        if isinstance(got, tuple):
            return a < got[0] <= b and bool(_BLOCKISH.match(facts.lines[got[0] - 1]))
        return any(_BLOCKISH.match(facts.lines[i - 1]) for i in range(a + 1, b + 1))
    span = info.get("span")
    if span is None or ob != "primary":
        return False
    a, b = span
    seg = text[a:b]
    if feat == "bsbr":
        return any(text[i] == "\\" and not in_any_span(facts, i) for i in range(a, b))
    if feat == "dotnum":
        toks = [t for t in facts.plain if a <= t[1] < b and t[0] not in (T.NL, T.COMMENT)]
        return any(t2[0] == T.NUMBER and t2[3].startswith(".") and t1[0] == T.OP and t1[3] in "([{" for t1, t2 in zip(toks, toks[1:]))
    if feat == "kwdot":
        # the token right before the expected expression is a keyword that itself follows a float ending in its dot
        import keyword as _kw
        before = [t for t in facts.plain if t[2] <= a and t[0] not in (T.NL, T.COMMENT, T.NEWLINE, T.INDENT, T.DEDENT)]
        return (len(before) >= 2 and before[-1][0] == T.NAME and _kw.iskeyword(before[-1][3])
                and before[-2][0] == T.NUMBER and before[-2][3].endswith("."))
    if feat == "fquote":
        for (fa, fb, q, nested) in fstr:
            if a <= fa and fb <= b and not nested:
                lit = text[fa:fb]
                lit = lit[len(c14_oracle.string_prefix(lit)) + len(q):len(lit) - len(q)]
                if q[0] in lit:
                    return True
        return False
    return False


def in_any_span(facts, i):
    return any(a <= i < b for (a, b, p, k) in facts.spans)


def sig_of(cls, feats, text=None, facts=None, fail=None):
    rel = sorted(set(feats) & RELEVANT.get(cls, set()))
    if fail is not None:
        rel = [f for f in rel if explains(f, text, facts, fail)]
    return "%s:%s" % (cls, "+".join(rel) or "plain")


_ORACLE_CACHE = {}


def run_oracle(text, offsets=None, llf=True):
    """-> (facts|None, obs, fails); full runs (all offsets, with LogicalLineFinder) are memoised per text"""
    if offsets is None and llf:
        if text in _ORACLE_CACHE:
            return _ORACLE_CACHE[text]
        res = _run_oracle(text, None, True)
        if len(_ORACLE_CACHE) > 64:
            _ORACLE_CACHE.clear()
        _ORACLE_CACHE[text] = res
        return res
    return _run_oracle(text, offsets, llf)


def _run_oracle(text, offsets=None, llf=True):
    facts, why = c14_oracle.analyze(text)
    obs = observe(text, offsets=offsets, limit=10 ** 9, llf=llf)       # every offset of the text is queried
    if "crash" in obs:
        return facts, obs, [("crash", 0, "rope raised " + obs["crash"])]
    try:
        fails = c14_oracle.check(facts, obs) if facts is not None else []
    except Exception as e:                   # noqa: BLE001 - rope's answers are so broken that they cannot be compared
        fails = [("crash", 0, "answers cannot be compared: %s: %s" % (type(e).__name__, e))]
    return facts, obs, fails


def signature(obj):
    if obj.get("kind") != "text":
        return None
    text = obj["text"]
    facts, obs, fails = run_oracle(text)
    if facts is None or not fails:
        return "none"
    fail = fails[0]
    want = OBS_CLASS.get(obj.get("observable"), obj.get("observable"))
    for fl in fails:                         # every observable class is attributed on its own (see handle_case)
        if OBS_CLASS.get(fl[0], fl[0]) == want:
            fail = fl
            break
    sig = sig_of(OBS_CLASS.get(fail[0], fail[0]), features(text, facts), text, facts, fail)
    # consequences of an f-literal the regular expression cannot delimit (per-line scanner, word finders after it) belong to
    # the lexing finding of that literal
    for fam in ("fnest", "fnl", "fbrace"):
        if sig in ("logical:" + fam, "words:" + fam):
            sig = "lexing:" + fam
    # where the model predicts the defect (Coq booleans lex_sane / shape_free, evaluated in the run that produced the
    # object) or disagreed with rope on the case, the failure is only attributed when the prediction matches
    flags = obj.get("model_flags")
    if flags is not None:
        if flags.get("model_mismatch"):
            sig += "!model-and-rope-disagree"
        elif (sig.startswith("lexing:fnest") or sig.startswith("lexing:fnl")) and flags.get("lex_sane", False):
            sig += "!not-predicted-by-model"
        elif sig.startswith("logical:") and ("escq" in sig or "adjstr" in sig) and flags.get("shape_free", False):
            sig += "!not-predicted-by-model"
    return sig


def replay(ctx, obj):
    if obj.get("kind") != "text":
        return False
    facts, obs, fails = run_oracle(obj["text"])
    if facts is None:
        return False
    return bool(fails)


# ----------------------------------------------------------------------------- shrinking
def shrink(text, obs_class, budget=400):
    """Greedy reduction keeping: valid program, a failure of the same observable class first, no new features."""
    facts, obs, fails = run_oracle(text, offsets=None if obs_class == "words" else [], llf=(obs_class == "llf"))
    if facts is None or not any(OBS_CLASS.get(f[0]) == obs_class for f in fails):
        return text
    feats0 = features(text, facts)

    cheap = None if obs_class == "words" else []      # Worder queries are only needed for word/primary failures

    def still(t):
        f2, o2, fl2 = run_oracle(t, offsets=cheap, llf=(obs_class == "llf"))
        if f2 is None or not any(OBS_CLASS.get(f[0]) == obs_class for f in fl2):
            return False
        return features(t, f2) <= feats0

    cur = text
    n = 0
    # whole lines first (largest chunks first), then runs of characters (ddmin style)
    for mode in ("line", "char"):
        chunk = None
        while n < budget:
            parts = cur.split("\n") if mode == "line" else list(cur)
            sep = "\n" if mode == "line" else ""
            if chunk is None:
                chunk = max(1, len(parts) // 2)
            i, changed = 0, False
            while i < len(parts) and n < budget:
                cand = sep.join(parts[:i] + parts[i + chunk:])
                n += 1
                if cand != cur and still(cand):
                    cur = cand
                    parts = cur.split("\n") if mode == "line" else list(cur)
                    changed = True
                else:
                    i += chunk
            if chunk == 1 and not changed:
                break
            if not changed:
                chunk = max(1, chunk // 2)
    return cur


# ----------------------------------------------------------------------------- Gallina case printer
def g_T(text):
    """compact Gallina term for a text: (T [A "ascii run"; C 233; ...])"""
    out, run = [], []
    for ch in text:
        o = ord(ch)
        if (32 <= o < 127) or o == 10:
            run.append('""' if ch == '"' else ch)
        else:
            if run:
                out.append('A "%s"' % "".join(run))
                run = []
            out.append("C %d" % o)
    if run:
        out.append('A "%s"' % "".join(run))
    return "(T [%s])" % "; ".join(out)


def rle(xs):
    out = []
    for x in xs:
        if out and out[-1][0] == x:
            out[-1][1] += 1
        else:
            out.append([x, 1])
    return out


def g_region(r):
    a, b, p = r
    return "(%s, %s, %s)" % (g_N(a), g_N(b), g_opt(None if p is None else g_T(p)))


def g_zpair(p):
    return g_opt(None if p is None else "(%s, %s)" % (g_Z(p[0]), g_Z(p[1])))


def case_term(text, obs, facts):
    chars = set(text)
    alnum = sorted(ord(c) for c in chars if ord(c) >= 128 and c.isalnum())
    space = sorted(ord(c) for c in chars if ord(c) >= 128 and c.isspace())
    xid = sorted(ord(c) for c in chars if ord(c) >= 128 and ("a" + c).isidentifier())
    digit = sorted(ord(c) for c in chars if ord(c) >= 128 and c.isdigit())
    ln = obs["lines"]
    qs = []
    for o in sorted(obs["queries"]):
        wr, wa, pr, pa = obs["queries"][o]
        qs.append("{| q_off := %s; q_word_range := %s; q_word_at := %s; q_primary_range := %s; q_primary_at := %s |}" % (
            g_Z(o), g_zpair(wr), g_opt(None if wa is None else g_T(wa)), g_zpair(pr),
            g_opt(None if pa is None else g_T(pa))))
    tok = None
    if facts is not None:
        tok = g_list([g_region((a, b, p)) for (a, b, p, k) in facts.spans])
    tokl = None
    if facts is not None and not any(n for (_a, _b, _q, n) in facts.fstrings) and not any(l.strip() == "\\" for l in facts.lines):
        inside = set()
        for (a, b) in facts.stmts:
            inside.update(range(a, b + 1))
        rng_ = list(facts.stmts) + [(i, i) for i, l in enumerate(facts.lines, 1) if i not in inside and l.strip().startswith("#")]
        tokl = g_list([g_pair(g_N(a), g_N(b)) for a, b in sorted(rng_)])
    return ("{| c_text := %s; c_alnum := %s; c_space := %s; c_digit := %s; c_xid := %s; c_regions := %s; c_real := %s; c_nlines := %s;\n"
            "   c_linenos := %s; c_lstarts := %s; c_lends := %s; c_lines := %s; c_custom := %s; c_logical_in := %s;\n"
            "   c_queries := %s;\n   c_tok_regions := %s;\n   c_tok_logical := %s |}" % (
                g_T(text), g_list([g_N(x) for x in alnum]), g_list([g_N(x) for x in space]), g_list([g_N(x) for x in digit]), g_list([g_N(x) for x in xid]),
                g_list([g_region(r) for r in obs["regions"]]), g_T(obs["real"]), g_N(ln["length"]),
                g_list([g_pair(g_N(x), g_N(k)) for x, k in rle(ln["linenos"])]), g_list([g_N(x) for x in ln["starts"]]),
                g_list([g_N(x) for x in ln["ends"]]), g_list([g_T(x) for x in ln["get_line"]]),
                g_list([g_pair(g_N(a), g_N(b)) for a, b in obs["custom"]]),
                g_list([g_pair(g_N(a), g_N(b)) for a, b in obs["logical_in"]]),
                g_list(qs), g_opt(tok), g_opt(tokl)))


HEADER = ("From Coq Require Import String.\nFrom Coq Require Import List NArith ZArith Bool.\nImport ListNotations.\n"
          "From RopeVerif.C14 Require Import Base Regions Runner.\nOpen Scope N_scope.\n")

CODE_NAMES = {1: "ignored_regions", 2: "real_code", 3: "SourceLinesAdapter.length", 4: "get_line_number",
              5: "get_line_start/get_line_end", 6: "get_line", 7: "custom_generator", 8: "logical_line_in (caching)",
              9: "get_word_at/get_word_range", 10: "get_primary_at/get_primary_range", 11: "model out of fuel",
              20: "reference lexer vs tokenize", 21: "theorem conclusion fails on the case",
              22: "reference logical lines vs tokenize", 23: "simulation statement (shape_free -> custom_generator = reference) fails"}


def coq_compare(ctx, items):
    """items: list of (text, obs, facts). Returns {index: [codes]}, number of glue-free cases."""
    bodies, bounds = [], []
    cur, size, start = [], 0, 0
    for i, (text, obs, facts) in enumerate(items):
        cur.append(case_term(text, obs, facts))
        size += len(text) + 6 * len(obs["queries"]) + 40
        if size > 9000 or len(cur) >= 60:
            bodies.append(cur)
            bounds.append(start)
            cur, size, start = [], 0, i + 1
    if cur:
        bodies.append(cur)
        bounds.append(start)
    files = [HEADER + "Definition cases : list case := %s.\nEval vm_compute in (mismatches cases).\n"
             "Eval vm_compute in (case_flags cases).\nEval vm_compute in (count_lex_sane cases).\n"
             "Eval vm_compute in (count_shape_free cases).\n" % g_list(b).replace("; {|", ";\n {|") for b in bodies]
    outs = ctx.coq_files_parallel(files)
    mism, gf, sf, flags = {}, 0, 0, {}
    for base, out in zip(bounds, outs):
        pairs = ctx.parse_pairs(out)
        for (i, code) in (pairs[0] if pairs else []):
            mism.setdefault(base + i, []).append(code)
        for (i, bits) in (pairs[1] if len(pairs) > 1 else []):
            flags[base + i] = {"lex_sane": bool(bits & 1), "shape_free": bool(bits & 2)}
        nums = ctx.parse_nums(out)
        gf += nums[-2][0] if len(nums) >= 2 and nums[-2] else 0
        sf += nums[-1][0] if nums and nums[-1] else 0
    ctx.extra["cases_in_domain_of_logical_simulation_statement(shape_free and accepted by the reference)"] = \
        ctx.extra.get("cases_in_domain_of_logical_simulation_statement(shape_free and accepted by the reference)", 0) + sf
    coq_compare.flags = flags
    return mism, gf


# ----------------------------------------------------------------------------- corpus: slices of rope's own sources
def corpus_slices(rng, count, max_lines):
    import ast
    files = []
    for root, _d, fns in os.walk(os.path.join("/repo", "rope")):
        for fn in sorted(fns):
            if fn.endswith(".py"):
                files.append(os.path.join(root, fn))
    files.sort()
    out = []
    tries = 0
    while len(out) < count and tries < count * 5:
        tries += 1
        p = rng.choice(files)
        try:
            src = open(p, encoding="utf-8").read()
            tree = ast.parse(src)
        except Exception:                    # noqa: BLE001
            continue
        if not tree.body or "\r" in src:
            continue
        lines = src.split("\n")
        i = rng.randrange(len(tree.body))
        a = tree.body[i].lineno
        if getattr(tree.body[i], "decorator_list", None):
            a = min(a, min(d.lineno for d in tree.body[i].decorator_list))
        b = tree.body[i].end_lineno
        j = i + 1
        while j < len(tree.body) and tree.body[j].end_lineno - a + 1 <= max_lines:
            b = tree.body[j].end_lineno
            j += 1
        if b - a + 1 > max_lines:
            # take an inner def/class of a large class
            inner = [n for n in ast.walk(tree.body[i]) if isinstance(n, (ast.FunctionDef, ast.ClassDef))
                     and n.end_lineno - n.lineno + 1 <= max_lines and n.col_offset > 0]
            if not inner:
                continue
            n = rng.choice(inner)
            seg = lines[n.lineno - 1:n.end_lineno]
            ind = n.col_offset
            seg = [l[ind:] if l[:ind].strip() == "" else l for l in seg]
            text = "\n".join(seg) + "\n"
        else:
            text = "\n".join(lines[a - 1:b]) + "\n"
        out.append((text, os.path.relpath(p, "/repo")))
    return out


# ----------------------------------------------------------------------------- fixed cases
RAW_F = ["rf", "Rf", "rF", "RF", "fr", "Fr", "fR", "FR"]
RAW_F_CASES = (["x = %s'a\\d{foo.bar_1(x).baz}{y!r:>{w}}' + z\n" % p for p in RAW_F]
               + ['q = %s"""\\w+{a.b}\n{items[0].count(k)} \\{c.d.e}"""\n' % p for p in RAW_F])

FIXED = RAW_F_CASES + [
    "", "\n", "x", "x\n", "\n\n", "a = 1\nb = 2", "#", "# c\n", "'", '"', '""', "''''''", '"""', "'''a", "\\", "\\\n",
    "x = 'a' \"b\" '''c''' \"\"\"d\"\"\"\n", "s = 'it\\'s' + \"q\\\"q\" # '\n", "x = (1,\n     2)\ny = [\n]\n",
    "a = 1; b = 2\n\tc\t=\t3\n", "x = 1 + \\\n    2\n", "rb = Rb'\\x00' + bR\"\"\"a\nb\"\"\"\n", "u = U'\u00e9' + u\"\u540d\"\n",
    "def f(a, b=1):\n    '''doc\n    more'''\n    return a.b(c)[0].d\n", "x = f'{a}' f\"{b!r:>{w}}\" F'''{c\n}'''\n",
    "print(a.b . c\n)\n", "if x: y = 1\nelse: y = 2\n", "x = {'a': [1, (2, 3)], \"b\": {}}\n", "foo.bar_1(x, y=z).baz[i].qux\n",
    "from . import a\nfrom .b import (c,\n d)\n", "class A(B):\n\tx = 1\n\n\tdef f(self): pass\n", "x = '#' # '\n", "a = '''\n# c\n''' # d\n",
    "\u00e9t\u00e9 = \u540d\u524d.\u00e9t\u00e9\n", "x = [\n  1, # one (\n  2, # two ]\n]\n", "x = 1 # c \\\ny = 2\n", "if a and \\\n   b:\n    pass\n",
    "s = \"\"\"a\\\"\"\" \"\"\"\n", "s = 'a\\\\'\nt = 1\n", "x=\"\"\"a\"\"\"\"b\"\n", "(\n", ")\nx\n", "x = ')'\n", "'''\n", "f(\n'''\n)'''\n)\n", "x = 1 ;\n",
    "\x0cx = 1\n", "x = 1\n\x0c\ny = 2\n", "x = a . b\n", "x = a.\\\n  b\n", "lambda: (yield)\n",
    # a keyword right after a dot (rope 2b4039e: _follows_dot): valid shapes first, then the invalid ones it was made for
    '"""Tool\n\n# Usage"""\nimport os\nx = 1\n', "def f():\n    '''Doc\n    ## Args\n    # end'''\n    return 1\ny = f()\n",
    'HELP = r"""\n#!/bin/sh\n# run (x\n#"""\nz = HELP\nw = 2\n', "t = u'''a\n  # b\n  # c'''.strip()\nu = t\n", 'class A:\n    b"""x\n    # y"""\n    k = 1\nA.k\n',
    "m = match.group(1)\n", "type.x.y = case.a\n", "print(match, type.mro(), _ .b)\n", "x = (match).case.type\n",
    "y = b if 3. else (c).r\n", "y = 3. if c else (d).e\n", "a1.is\n", "\u0663x.is\n", "x = (a) .is\n", ".is\n",
    "from . import a\n", "from .. import b\n", "y = 1. if c else 2\n", "z = 2. or x\n", "s.is\n", "a.in.b\n", "x = s.is_x + t.import_y\n",
    "bfr\"x\"", "rbu'y' ", "bBfF\"z\"\n", "bbbbb\"x\"", "fRb'''a'''", "xRbU''", "uuuu'a' rrrrr'b'", "fb\"{x}\"\n", "Fx = rbf'{'\n",
]


def classify_stream(text, facts):
    if facts is None:
        return "malformed"
    fs = features(text, facts)
    return "valid" if not fs else "valid+" + "+".join(sorted(fs))


def handle_case(ctx, idx, text, obs, facts, codes, origin, flags=None):
    """Oracle + correspondence verdicts for one case."""
    replay = {"kind": "text", "text": text, "origin": origin}
    try:
        fails = c14_oracle.check(facts, obs) if facts is not None else []
    except Exception as e:                   # noqa: BLE001
        fails = [("crash", 0, "answers cannot be compared: %s: %s" % (type(e).__name__, e))]
    spec_codes = [c for c in codes if c >= 20]
    impl_codes = [c for c in codes if c < 20]
    if fails:
        # every observable class that fails is attributed on its own: a known defect of one class (say real_code counting
        # the brackets of an f-string) does not hide a different failure (say a wrong primary) on the same input
        seen, unknown = set(), []
        for fl in fails:
            ob, loc, msg = fl[:3]
            cls = OBS_CLASS.get(ob, ob)
            if cls in seen:
                continue
            seen.add(cls)
            obj = dict(replay, observable=ob, offset=loc, detail=msg, model_flags=dict(flags or {}, model_mismatch=bool(impl_codes)))
            sig = signature(obj)
            if any(f.get("property") == PROPERTY and f.get("signature") == sig for f in ctx.findings):
                ctx.count("oracle_fail_known:" + sig)
                ctx.violation(obj, "known finding " + sig)
            else:
                unknown.append((cls, fl))
        for cls, fl in unknown[:2]:
            small = shrink(text, cls, budget=ctx.scale(120, 500))
            f2, o2, fl2 = run_oracle(small)
            fl2 = [f for f in fl2 if OBS_CLASS.get(f[0], f[0]) == cls]
            if not fl2:
                small, fl2 = text, [fl]
            ctx.count("oracle_fail:" + cls)
            ctx.violation(dict(replay, text=small, original=text if small != text else None, observable=fl2[0][0],
                               offset=fl2[0][1], detail=fl2[0][2]),
                          "C14 %s disagrees with the tokenizer on %r: %s" % (fl2[0][0], small[:120], fl2[0][2][:200]))
    elif impl_codes:
        if sum(1 for v in ctx.violations if v[2]) >= 5:
            ctx.count("model_mismatch_not_reported_individually")      # (five are reported; the run goes on looking for failing inputs)
            return
        what = ", ".join(CODE_NAMES.get(c, str(c)) for c in impl_codes)
        found = neighbourhood_search(ctx, text)
        if found is not None:
            ctx.violation(found, "C14 %s disagrees with the tokenizer on %r" % (found["observable"], found["text"][:120]))
        else:
            ctx.violation(dict(replay, mismatch=what, codes=impl_codes,
                               broken="correspondence RopeVerif.C14.Runner.run_case (%s): the model of coq/C14 and rope disagree, the theorems of "
                                      "coq/Props/C14.v no longer speak about this part of the code" % what),
                          "C14 model/rope mismatch (%s) on %r" % (what, text[:160]), no_input=True)
    for c in spec_codes:
        ctx.violation(dict(replay, mismatch=CODE_NAMES[c], codes=[c],
                           broken=("the reference lexer ref_regions (spec of C14_regions_are_tokens_partial) differs from CPython's tokenizer"
                                   if c == 20 else "the reference logical lines (ref_generator) differ from CPython's tokenizer" if c == 22 else
                                   "the statement 'shape_free and accepted by the reference -> custom_generator = ref_generator' (validated, not proved) is false on this case" if c == 23 else "a proved conclusion evaluates to false on this case: model evaluation and proofs are out of sync")),
                      "C14 spec problem (%s) on %r" % (CODE_NAMES[c], text[:160]), no_input=True)


def neighbourhood_search(ctx, text, budget=None):
    rng = random.Random("nb-" + text)
    for _ in range(budget or ctx.scale(60, 300)):
        t = c14_gen.mutate(rng, text)
        facts, obs, fails = run_oracle(t)
        if fails:
            cls = OBS_CLASS.get(fails[0][0], fails[0][0])
            small = shrink(t, cls, budget=100)
            f2, o2, fl2 = run_oracle(small)
            if fl2:
                return {"kind": "text", "text": small, "observable": fl2[0][0], "offset": fl2[0][1], "detail": fl2[0][2],
                        "origin": "neighbourhood"}
    return None


def run(ctx):
    rng = ctx.rng
    ctx.rule = ("texts from a token-level grammar (harness/c14_gen.py: 18 plain + 10 f-string prefixes x 4 quote styles, escapes, "
                "backslash-newline, brackets/comments/semicolons/hashes inside literals, nested f-string fields, comments with quotes and "
                "brackets, continuation lines, brackets spanning lines with comments inside, semicolons, tabs, form feed, unicode identifiers, "
                "names that are also string prefixes), fixed corner cases, slices of rope's own sources, a malformed stream (character "
                "edits of valid texts, tiny texts over a scanner alphabet) and one stream per known-finding feature; validity decided by "
                "ast.parse. Every offset (line index) and every line is queried; Worder queries at every offset of small texts and at "
                "identifier/bracket/quote offsets of large ones. Non-trivial: the text has at least one string/comment region and two lines; "
                "distinct by text.")
    texts = [(t, "fixed") for t in FIXED]
    n_main = ctx.scale(150, 1200)
    for _ in range(n_main):
        texts.append((c14_gen.Gen(rng).program(), "grammar"))
    for feat in FEATURES:
        for _ in range(ctx.scale(6, 40) * (2 if feat == "fnest" else 1)):
            for _try in range(40):
                t = c14_gen.Gen(rng, feat=[feat]).program()
                if len(t) < 1500 and features(t) == {feat}:
                    break
            texts.append((t, "feature:" + feat))
    for _ in range(ctx.scale(40, 400)):
        base = c14_gen.Gen(rng).program() if rng.random() < 0.7 else rng.choice(FIXED)
        texts.append((c14_gen.mutate(rng, base), "mutated"))
    for _ in range(ctx.scale(60, 600)):
        texts.append((c14_gen.tiny(rng), "tiny"))
    for _ in range(ctx.scale(24, 150)):
        texts.append((c14_gen.fstring_call_chain(rng), "fstring-call-chain"))
    for (t, path) in corpus_slices(rng, ctx.scale(14, 120), ctx.scale(45, 70)):
        texts.append((t, "corpus:" + path))
    import time
    t0 = time.time()
    seen = set()
    items, meta = [], []
    for (t, origin) in texts:
        if t in seen or len(t) > 6000:
            continue
        seen.add(t)
        facts, why = c14_oracle.analyze(t)
        inner = [o for (a, b, _s, inf) in facts.names if inf for o in range(a, b)] if facts is not None else []
        ctx.count("query_offsets_inside_fstring_fields", len(inner))
        obs = observe(t, rng=rng, limit=ctx.scale(70, 160), must=inner)
        if "crash" in obs:
            ctx.case(("text", t), nontrivial=False)
            ctx.violation({"kind": "text", "text": t, "origin": origin, "observable": "crash", "detail": obs["crash"], "trace": obs["trace"]},
                          "C14 rope raised %s on %r" % (obs["crash"], t[:120]))
            if ctx.too_many():
                break
            continue
        ln = obs["lines"]
        nums = ln["linenos"] + ln["starts"] + ln["ends"] + [ln["length"]] + [x for r in obs["regions"] for x in r[:2]] \
            + [x for r in obs["custom"] + obs["logical_in"] for x in r]
        if any((not isinstance(x, int)) or x < 0 for x in nums):
            ctx.case(("text", t), nontrivial=False)
            ctx.violation({"kind": "text", "text": t, "origin": origin, "observable": "lines",
                           "detail": "rope returned a negative or non-integer offset/line"},
                          "C14 rope returned a negative offset or line number on %r" % t[:120])
            if ctx.too_many():
                break
            continue
        items.append((t, obs, facts))
        meta.append(origin)
    t1 = time.time()
    mism, gf = coq_compare(ctx, items)
    t2 = time.time()
    ctx.extra["cases_in_domain_of_regions_are_tokens_partial(lex_sane)"] = gf
    nvalid = 0
    for idx, ((t, obs, facts), origin) in enumerate(zip(items, meta)):
        stream = classify_stream(t, facts)
        ctx.count("stream:" + stream)
        ctx.count("origin:" + origin.split(":")[0] + (":" + origin.split(":")[1] if origin.startswith("feature") else ""))
        nontriv = bool(obs["regions"]) and obs["lines"]["length"] >= 2
        ctx.case(("text", t), nontrivial=nontriv)
        ctx.traces += 1
        ctx.count("queries", len(obs["queries"]))
        ctx.count("offsets_line_index", len(t) + 2)
        if facts is not None:
            nvalid += 1
            ctx.count("tokenizer_string_tokens", sum(1 for s in facts.spans if s[3] != "c"))
            ctx.count("tokenizer_comment_tokens", sum(1 for s in facts.spans if s[3] == "c"))
            ctx.count("tokenizer_statements", len(facts.stmts))
            ctx.count("name_tokens", len(facts.names))
        handle_case(ctx, idx, t, obs, facts, mism.get(idx, []), origin, flags=getattr(coq_compare, "flags", {}).get(idx))
        if sum(1 for v in ctx.violations if not v[2]) >= 5:      # five violations with a failing input are enough
            break
    ctx.extra["valid_texts_checked_against_tokenize"] = nvalid
    ctx.extra["phase_seconds"] = {"generate+rope": round(t1 - t0, 1), "coq": round(t2 - t1, 1), "oracle+triage": round(time.time() - t2, 1)}
    for (t, obs, facts), origin in list(zip(items, meta))[len(FIXED) + 3:len(FIXED) + 6]:
        ctx.sample({"text": t[:400], "origin": origin, "regions": [list(r) for r in obs["regions"]][:8],
                    "custom_generator": obs["custom"][:8]})
    ctx.assumptions.append("texts contain no carriage return and no NUL (CRLF-free domain of the design)")
    ctx.assumptions.append("statements next to a physical line that holds nothing but a backslash are not compared for LogicalLineFinder; for "
                           "custom_generator such lines count as part of the statement they are joined to")
    ctx.assumptions.append("a numeric literal immediately followed by a name or keyword (`1if x else 2`, `3else`; deprecated since 3.12, "
                           "SyntaxWarning today and a syntax error in future versions) is outside 'valid source text': c14_oracle.analyze rejects "
                           "such texts, so generator, shrinker and oracle agree; they are still compared model-vs-rope in the malformed stream")
