"""Helpers of the C04 check: the small expression language shared with coq/C04/Expr.v (printer, parser,
Gallina encoder, Python mirrors of the side conditions), project execution, source analysis with CPython's ast."""
import ast
import inspect
import os
import re
import shutil
import subprocess
import sys
import tempfile

from harness.common import g_N, g_bool, g_list, g_opt, g_pair

# ----------------------------------------------------------------------------- expressions
# sum  = [(neg, prod), ...]   prod = [atom, ...]   atom = ("n", int) | ("v", name) | ("p", sum)


def show_atom(a):
    if a[0] == "n":
        return str(a[1])
    if a[0] == "v":
        return a[1]
    return "(" + show_sum(a[1]) + ")"


def show_sum(s, tight=False):
    out = []
    mul = "*" if tight else " * "
    for i, (neg, p) in enumerate(s):
        t = mul.join(show_atom(a) for a in p)
        if i == 0:
            out.append(("-" if neg else "") + t)
        else:
            out.append(((" - " if neg else " + ") if not tight else ("-" if neg else "+")) + t)
    return "".join(out)


_TOK = re.compile(r"\s*(?:(\d+)|([A-Za-z_][A-Za-z_0-9]*)|(\S))")


def tokens(text):
    pos, out = 0, []
    text = text.rstrip()
    while pos < len(text):
        m = _TOK.match(text, pos)
        if not m:
            return None
        pos = m.end()
        if m.group(1) is not None:
            out.append(("n", int(m.group(1))))
        elif m.group(2) is not None:
            out.append(("v", m.group(2)))
        else:
            out.append(("o", m.group(3)))
    return out


class _P:
    """recursive descent for  sum ::= prod (('+'|'-') prod)* ; prod ::= atom ('*' atom)* ; atom ::= NUM | NAME | '(' sum ')'"""

    def __init__(self, toks):
        self.t = toks
        self.i = 0

    def peek(self):
        return self.t[self.i] if self.i < len(self.t) else None

    def op(self, c):
        if self.peek() == ("o", c):
            self.i += 1
            return True
        return False

    def atom(self):
        k = self.peek()
        if k is None:
            raise ValueError
        if k[0] in ("n", "v"):
            self.i += 1
            return k
        if self.op("("):
            s = self.sum()
            if not self.op(")"):
                raise ValueError
            return ("p", s)
        raise ValueError

    def prod(self):
        p = [self.atom()]
        while self.op("*"):
            p.append(self.atom())
        return p

    def sum(self):
        s = [(False, self.prod())]
        while True:
            if self.op("+"):
                s.append((False, self.prod()))
            elif self.op("-"):
                s.append((True, self.prod()))
            else:
                return s


def parse_sum(text):
    """text -> sum or None (outside the grammar)."""
    toks = tokens(text)
    if toks is None:
        return None
    p = _P(toks)
    try:
        s = p.sum()
    except ValueError:
        return None
    return s if p.i == len(toks) else None


def split_commas(text):
    depth, cur, out = 0, [], []
    for ch in text:
        if ch == "(":
            depth += 1
        elif ch == ")":
            depth -= 1
        if ch == "," and depth == 0:
            out.append("".join(cur))
            cur = []
        else:
            cur.append(ch)
    out.append("".join(cur))
    return out


def parse_program(text):
    """straight-line module text -> [("assign", x, sum) | ("print", [sum])] or None."""
    prog = []
    for line in text.split("\n"):
        if not line.strip():
            continue
        if line[0] in " \t":
            return None
        m = re.match(r"print\((.*)\)\s*$", line)
        if m:
            es = [parse_sum(x) for x in split_commas(m.group(1))]
            if any(e is None for e in es):
                return None
            prog.append(("print", es))
            continue
        m = re.match(r"([A-Za-z_][A-Za-z_0-9]*)\s*=(?!=)(.*)$", line)
        if m:
            e = parse_sum(m.group(2))
            if e is None:
                return None
            prog.append(("assign", m.group(1), e))
            continue
        return None
    return prog


def show_program(prog, tight=False):
    out = []
    for st in prog:
        if st[0] == "assign":
            out.append("%s = %s" % (st[1], show_sum(st[2], tight)))
        else:
            out.append("print(%s)" % ", ".join(show_sum(e, tight) for e in st[1]))
    return "\n".join(out) + "\n"


# Python mirrors of the predicates of Expr.v (cross-checked against Coq's flags on every case)
def vars_sum(s):
    out = []
    for _, p in s:
        for a in p:
            if a[0] == "v":
                out.append(a[1])
            elif a[0] == "p":
                out.extend(vars_sum(a[1]))
    return out


def single_term(r):
    return len(r) == 1 and not r[0][0]


def occ_ok_sum(x, s):
    for neg, p in s:
        if len(p) == 1 and p[0] == ("v", x) and not neg:
            continue
        for a in p:
            if a == ("v", x):
                return False
            if a[0] == "p" and not occ_ok_sum(x, a[1]):
                return False
    return True


def prec_ok(x, r, s):
    return single_term(r) or occ_ok_sum(x, s)


def stmt_reads(st):
    return vars_sum(st[2]) if st[0] == "assign" else [v for e in st[1] for v in vars_sum(e)]


def stmt_sums(st):
    return [st[2]] if st[0] == "assign" else list(st[1])


def split_def(x, prog):
    for i, st in enumerate(prog):
        if st[0] == "assign" and st[1] == x:
            return prog[:i], st[2], prog[i + 1:]
    return None


def conds(x, prog):
    """(cond_once, cond_deps_stable, cond_prec) of Expr.v"""
    sp = split_def(x, prog)
    if sp is None:
        return (False, False, False)
    pre, r, post = sp
    assigned_post = {st[1] for st in post if st[0] == "assign"}
    once = (x not in assigned_post and all(x not in stmt_reads(st) for st in pre)
            and x not in vars_sum(r) and len(r) > 0 and not r[0][0])
    deps = all(y not in assigned_post for y in vars_sum(r))
    prec = all(prec_ok(x, r, e) for st in post for e in stmt_sums(st))
    return (once, deps, prec)


# ----------------------------------------------------------------------------- Gallina
class Intern:
    def __init__(self):
        self.t = {}

    def __call__(self, s):
        if s not in self.t:
            self.t[s] = len(self.t) + 1
        return self.t[s]


def g_atom(I, a):
    if a[0] == "n":
        return "ANum %s" % g_N(a[1])
    if a[0] == "v":
        return "AVar %s" % g_N(I(a[1]))
    return "AParen %s" % g_sum(I, a[1])


def g_sum(I, s):
    return g_list(["(%s, %s)" % (g_bool(neg), g_list([g_atom(I, a) for a in p])) for neg, p in s])


def g_stmt(I, st):
    if st[0] == "assign":
        return "SAssign %s %s" % (g_N(I(st[1])), g_sum(I, st[2]))
    return "SPrint %s" % g_list([g_sum(I, e) for e in st[1]])


def g_prog(I, prog):
    return g_list([g_stmt(I, st) for st in prog])


def g_pairs(I, pairs):
    return g_list([g_pair(g_N(I(a)), g_N(I(b))) for a, b in pairs])


def g_state(I, st):
    return g_list([g_pair(g_N(I(k)), g_opt(None if v is None else g_N(I(v)))) for k, v in st])


# ----------------------------------------------------------------------------- projects
def make_project(files):
    d = tempfile.mkdtemp(prefix="ropeverif-")
    for name, src in files.items():
        p = os.path.join(d, name)
        os.makedirs(os.path.dirname(p), exist_ok=True)
        with open(p, "w") as f:
            f.write(src)
    return d


def run_entry(d, entry, timeout=20):
    """(exit status, stdout, last line of stderr) of `python entry` in directory d."""
    try:
        p = subprocess.run([sys.executable, "-S", "-B", entry], cwd=d, stdout=subprocess.PIPE, stderr=subprocess.PIPE,
                           text=True, timeout=timeout, env={"PATH": os.environ.get("PATH", ""), "PYTHONHASHSEED": "0"})
    except subprocess.TimeoutExpired:
        return (-9, "", "timeout")
    err = p.stderr.strip().split("\n")[-1] if p.stderr.strip() else ""
    return (p.returncode, p.stdout, err)


def read_files(d, names):
    out = {}
    for n in names:
        with open(os.path.join(d, n)) as f:
            out[n] = f.read()
    return out


# ----------------------------------------------------------------------------- source analysis (independent of rope)
def seg(src, node):
    return ast.get_source_segment(src, node)


def find_def(src, fname):
    tree = ast.parse(src)
    for node in ast.walk(tree):
        if isinstance(node, ast.FunctionDef) and node.name == fname:
            a = node.args
            names = [x.arg for x in a.posonlyargs + a.args]
            nd = len(a.defaults)
            defaults = [None] * (len(names) - nd) + [seg(src, x) for x in a.defaults]
            return {"params": list(zip(names, defaults)), "star": a.vararg is not None or bool(a.kwonlyargs),
                    "kwstar": a.kwarg is not None, "node": node, "kwonly": [x.arg for x in a.kwonlyargs]}
    return None


def _offset(lines, lineno, col):
    return sum(len(l) + 1 for l in lines[:lineno - 1]) + col


def call_sites(src, fname, modname, method=False):
    """calls of fname in textual order: `fname(...)` / `modname.fname(...)` for a function; `<receiver>.fname(...)` with
    any receiver expression for a method.  For a method call "args" starts with the source text of the whole receiver
    (what Python binds to self), "recv" is that text and "head" the text in front of the opening parenthesis."""
    tree = ast.parse(src)
    found = []
    for node in ast.walk(tree):
        if isinstance(node, ast.Call):
            f = node.func
            if method:
                ok = isinstance(f, ast.Attribute) and f.attr == fname
            else:
                ok = (isinstance(f, ast.Name) and f.id == fname) or (
                    isinstance(f, ast.Attribute) and f.attr == fname and isinstance(f.value, ast.Name) and f.value.id == modname)
            if ok:
                found.append(node)
    found.sort(key=lambda n: (n.lineno, n.col_offset))
    out = []
    lines = src.split("\n")
    for node in found:
        pos = [seg(src, a) for a in node.args if not isinstance(a, ast.Starred)]
        star = any(isinstance(a, ast.Starred) for a in node.args)
        kws = [(k.arg, seg(src, k.value)) for k in node.keywords if k.arg is not None]
        kwstar = any(k.arg is None for k in node.keywords)
        offset = _offset(lines, node.lineno, node.col_offset)
        name_offset = _offset(lines, node.func.end_lineno, node.func.end_col_offset) - len(fname)
        recv = seg(src, node.func.value) if method else None
        out.append({"text": seg(src, node), "args": ([recv] if method else []) + pos, "kws": kws, "star": star,
                    "kwstar": kwstar, "offset": offset, "name_offset": name_offset, "lineno": node.lineno,
                    "recv": recv, "head": seg(src, node.func)})
    return out


class _Tok:
    def __init__(self, s):
        self.s = s


def py_bind(params, args, kws):
    """CPython's own binding (inspect.signature.bind + defaults) on source tokens; None = TypeError."""
    ps = [inspect.Parameter(n, inspect.Parameter.POSITIONAL_OR_KEYWORD,
                            default=(inspect.Parameter.empty if d is None else _Tok(d))) for n, d in params]
    try:
        sig = inspect.Signature(ps)
        ba = sig.bind(*[_Tok(a) for a in args], **{k: _Tok(v) for k, v in kws})
    except (TypeError, ValueError):
        return None
    ba.apply_defaults()
    return [(n, ba.arguments[n].s) for n, _ in params]


def names_in(src):
    """identifiers referenced anywhere in a module (names, attributes, import aliases)."""
    out = set()
    for node in ast.walk(ast.parse(src)):
        if isinstance(node, ast.Name):
            out.add(node.id)
        elif isinstance(node, ast.Attribute):
            out.add(node.attr)
        elif isinstance(node, ast.alias):
            out.add(node.name.split(".")[-1])
            if node.asname:
                out.add(node.asname)
        elif isinstance(node, (ast.FunctionDef, ast.ClassDef)):
            out.add(node.name)
    return out


def cleanup(d):
    shutil.rmtree(d, ignore_errors=True)


def bound_names(src):
    """names bound in the top-level scope of a piece of code (CPython's own rules via symtable): assignment targets,
    def / class names, import aliases, for / with / except targets, walrus"""
    import symtable
    try:
        t = symtable.symtable(src, "<guest>", "exec")
    except SyntaxError:
        return None
    return sorted(sym.get_name() for sym in t.get_symbols() if sym.is_assigned() or sym.is_imported() or sym.is_namespace())


def host_scope_names(src, lineno):
    """names defined in the scope that contains line `lineno` (module, or the innermost function/class), by CPython's
    symtable: what rope's scope.get_names() is expected to list for the call site"""
    import symtable
    top = symtable.symtable(src, "<host>", "exec")
    tree = ast.parse(src)
    path = []

    def find(node, acc):
        for ch in ast.iter_child_nodes(node):
            if isinstance(ch, (ast.FunctionDef, ast.ClassDef, ast.AsyncFunctionDef)):
                if ch.lineno <= lineno <= ch.end_lineno and not any(lineno <= d.end_lineno for d in ch.decorator_list):
                    # inside the body (the header line itself belongs to the enclosing scope for our purposes)
                    if lineno > ch.lineno:
                        acc.append(ch)
                        find(ch, acc)
                        return
            else:
                find(ch, acc)
    find(tree, path)
    table = top
    for node in path:
        cands = [c for c in table.get_children() if c.get_name() == node.name and c.get_lineno() == node.lineno]
        if not cands:
            return None
        table = cands[0]
    out = []
    for sym in table.get_symbols():
        if table.get_type() == "module":
            if sym.is_assigned() or sym.is_imported() or sym.is_namespace():
                out.append(sym.get_name())
        elif sym.is_local() or sym.is_parameter():
            out.append(sym.get_name())
    if table.get_type() == "module":
        import builtins
        out = set(out) | (set(dir(builtins)) - {'None'})      # rope's module scope lists the builtins too
    return sorted(out)
