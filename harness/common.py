"""Shared machinery of the /verif checks: context, Coq evaluation, violations, evidence.

Every property module `harness/cXX.py` exposes
    run(ctx)                       -- correspondence + oracle on generated cases
    replay(ctx, obj) -> bool       -- re-run one recorded input; True = the property fails on it
and optionally
    signature(obj) -> str          -- structural signature used to match known findings
"""
import hashlib
import json
import os
import random
import re
import shutil
import subprocess
import sys
import time

VERIF = os.path.dirname(os.path.dirname(os.path.abspath(__file__)))
COQ = os.path.join(VERIF, "coq")
BUILD = os.path.join(VERIF, "build")
REPO = os.environ.get("VERIF_REPO", "/repo")

FORBIDDEN = re.compile(
    r"\b(Admitted|admit|Axiom|Axioms|Parameter|Parameters|Conjecture|Conjectures)\b"
    r"|Unset\s+Guard|bypass_check|type-in-type|impredicative-set|Admit\s+Obligations"
    r"|Unset\s+Universe\s+Checking|Unset\s+Positivity"
)
# axioms declared by Coq's standard library that a theorem may depend on (each is reported)
STDLIB_AXIOMS = (
    "functional_extensionality_dep",
    "propositional_extensionality",
    "proof_irrelevance",
    "classic",
    "JMeq_eq",
    "eq_rect_eq",
    "Eqdep.Eq_rect_eq.eq_rect_eq",
    "constructive_indefinite_description",
    "constructive_definite_description",
    "excluded_middle_informative",
)


class Violation(Exception):
    pass


def sh(cmd, timeout=None, cwd=None, env=None):
    p = subprocess.run(cmd, shell=isinstance(cmd, str), cwd=cwd, env=env, timeout=timeout,
                       stdout=subprocess.PIPE, stderr=subprocess.STDOUT, text=True)
    return p.returncode, p.stdout


def strip_coq_comments(src):
    out, depth, i, n = [], 0, 0, len(src)
    in_str = False
    while i < n:
        if not in_str and src.startswith("(*", i):
            depth += 1
            i += 2
        elif not in_str and depth and src.startswith("*)", i):
            depth -= 1
            i += 2
        elif depth:
            i += 1
        else:
            if src[i] == '"':
                in_str = not in_str
            out.append(src[i])
            i += 1
    return "".join(out)


# ----------------------------------------------------------------------------- Gallina printers
def g_N(n):
    assert n >= 0
    return "%d%%N" % n


def g_nat(n):
    assert 0 <= n < 5000, "nat literal too large"
    return "%d%%nat" % n


def g_Z(z):
    return "(%d)%%Z" % z


def g_bool(b):
    return "true" if b else "false"


def g_list(items):
    return "[" + "; ".join(items) + "]"


def g_text(s):
    """Python str -> list N of code points."""
    return "[" + "; ".join("%d%%N" % ord(c) for c in s) + "]"


def g_opt(x):
    return "None" if x is None else "(Some %s)" % x


def g_pair(a, b):
    return "(%s, %s)" % (a, b)


# ----------------------------------------------------------------------------- context
class Ctx:
    def __init__(self, prop, tier, seed, replay_only=False):
        self.prop = prop
        self.tier = tier
        self.seed = seed
        self.rng = random.Random("%s-%d" % (prop, seed))
        self.t0 = time.time()
        self.build = os.path.join(BUILD, prop)
        if not replay_only:
            shutil.rmtree(self.build, ignore_errors=True)
        os.makedirs(os.path.join(self.build, "replays"), exist_ok=True)
        self.violations = []          # (replay_path, summary, no_input)
        self.known_hits = []          # finding ids hit by generated cases
        self.evaluations = 0
        self.nontrivial = set()       # hashes of distinct non-trivial cases
        self.rule = ""
        self.samples = []
        self.extra = {}
        self.dist = {}
        self.traces = 0
        self.assumptions = []
        self.obligations = 0
        self.discharged = 0
        self.checker_cmd = ""
        self.trusted_base = []
        self.proof_ok = False
        self.findings = load_findings().get("open", [])
        self._coq_n = 0
        self.harness = None

    # -- bookkeeping -------------------------------------------------------------------------
    def quick(self):
        return self.tier == "quick"

    def scale(self, quick, thorough):
        return quick if self.tier == "quick" else thorough

    def count(self, key, n=1):
        self.dist[key] = self.dist.get(key, 0) + n

    def case(self, canonical, nontrivial=True):
        """Register one explored case; canonical is any JSON-able / str description."""
        self.evaluations += 1
        if nontrivial:
            h = hashlib.sha1(repr(canonical).encode("utf-8", "surrogatepass")).hexdigest()
            self.nontrivial.add(h)

    def sample(self, obj, limit=4):
        if len(self.samples) < limit:
            self.samples.append(obj)

    # -- Coq evaluation ----------------------------------------------------------------------
    def coq_file(self, body, name=None):
        """Compile a generated .v file (under the build dir) and return coqc's stdout."""
        self._coq_n += 1
        name = name or "cases_%s_%d" % (self.prop, self._coq_n)
        path = os.path.join(self.build, name + ".v")
        with open(path, "w") as f:
            f.write(body)
        cmd = "ulimit -s unlimited 2>/dev/null; timeout 900 coqc -w -all -Q %s RopeVerif %s" % (COQ, path)
        rc, out = sh(cmd, cwd=self.build)
        for _ in range(2):          # a transient failure (machine under load, killed process) is retried
            if rc == 0:
                break
            time.sleep(2)
            rc, out = sh(cmd, cwd=self.build)
        if rc != 0:
            raise RuntimeError("coqc failed on %s:\n%s" % (path, out[-3000:]))
        return out

    def coq_files_parallel(self, bodies, jobs=16):
        """Compile several generated files in parallel; returns list of stdout strings in order."""
        paths = []
        for b in bodies:
            self._coq_n += 1
            path = os.path.join(self.build, "cases_%s_%d.v" % (self.prop, self._coq_n))
            with open(path, "w") as f:
                f.write(b)
            paths.append(path)
        procs = []
        outs = [None] * len(paths)
        idx = 0
        running = []
        while idx < len(paths) or running:
            while idx < len(paths) and len(running) < jobs:
                p = subprocess.Popen(
                    "ulimit -s unlimited 2>/dev/null; timeout 900 coqc -w -all -Q %s RopeVerif %s" % (COQ, paths[idx]),
                    shell=True, cwd=self.build, stdout=subprocess.PIPE, stderr=subprocess.STDOUT, text=True)
                running.append((idx, p))
                idx += 1
            i, p = running.pop(0)
            out, _ = p.communicate()
            rc = p.returncode
            for _ in range(2):      # retry a transient failure sequentially
                if rc == 0:
                    break
                time.sleep(2)
                rc, out = sh("ulimit -s unlimited 2>/dev/null; timeout 900 coqc -w -all -Q %s RopeVerif %s" % (COQ, paths[i]),
                             cwd=self.build)
            if rc != 0:
                raise RuntimeError("coqc failed on %s:\n%s" % (paths[i], out[-3000:]))
            outs[i] = out
        return outs

    @staticmethod
    def parse_pairs(out):
        """Parse `= [(i, c); ...]` (list (N*N)) printed by Eval vm_compute; returns list of (i, c).
        Only the text between the first '=' and the last ':' of each Eval answer is considered."""
        res = []
        for m in re.finditer(r"=\s*(\[[^:]*\])\s*:\s*list", out, re.S):
            nums = [int(x) for x in re.findall(r"\d+", m.group(1).replace("%N", ""))]
            res.append([(nums[k], nums[k + 1]) for k in range(0, len(nums) - 1, 2)])
        return res

    @staticmethod
    def parse_nums(out):
        res = []
        for m in re.finditer(r"=\s*(\[[^:]*\]|\d+)(?:%N|%nat|%Z)?\s*:\s*(?:list|N|nat|Z)", out, re.S):
            res.append([int(x) for x in re.findall(r"-?\d+", m.group(1))])
        return res

    # -- violations --------------------------------------------------------------------------
    def violation(self, replay_obj, summary, no_input=False):
        """Report a violation unless its signature matches an open known finding."""
        sig = None
        if self.harness is not None and hasattr(self.harness, "signature"):
            try:
                sig = self.harness.signature(replay_obj)
            except Exception:
                sig = None
        if sig is not None and not no_input:
            for f in self.findings:
                if f.get("property") == self.prop and f.get("signature") == sig:
                    self.known_hits.append(f["id"])
                    self.count("known_finding_hits:" + f["id"])
                    return False
        n = len(self.violations) + 1
        path = os.path.join(self.build, "replays", "%s-%d.json" % (self.prop, n))
        obj = dict(replay_obj)
        obj.setdefault("property", self.prop)
        obj["summary"] = summary
        obj["seed"] = self.seed
        obj["tier"] = self.tier
        if sig is not None:
            obj["signature"] = sig
        with open(path, "w") as f:
            json.dump(obj, f, indent=1, default=repr)
        self.violations.append((path, summary, no_input))
        return True

    def too_many(self, limit=5):
        return len(self.violations) >= limit


# ----------------------------------------------------------------------------- known findings
def load_findings():
    """known findings: one committed fragment per property under findings.d/ (assembled for readers into
    known_findings.json by tools/mkmanifest.py). Never written at run time."""
    res = {"open": [], "fixed": []}
    d = os.path.join(VERIF, "findings.d")
    if os.path.isdir(d):
        for fn in sorted(os.listdir(d)):
            if fn.endswith(".json"):
                with open(os.path.join(d, fn)) as f:
                    frag = json.load(f)
                res["open"].extend(frag.get("open", []))
                res["fixed"].extend(frag.get("fixed", []))
    return res


# ----------------------------------------------------------------------------- proof gate
def coq_closure(prop):
    """Directories of the development that property `prop` depends on (its own, Lib, and whatever its
    files import through `From RopeVerif.X Require`), transitively."""
    seen, todo = set(), [prop]
    while todo:
        d = todo.pop()
        if d in seen:
            continue
        seen.add(d)
        files = []
        dp = os.path.join(COQ, d)
        if os.path.isdir(dp):
            files += [os.path.join(dp, f) for f in os.listdir(dp) if f.endswith(".v")]
        if d == prop:
            files.append(os.path.join(COQ, "Props", prop + ".v"))
        for f in files:
            if os.path.exists(f):
                for m in re.finditer(r"RopeVerif\.([A-Za-z0-9_]+)", open(f).read()):
                    if m.group(1) not in ("Props",):
                        todo.append(m.group(1))
    return sorted(seen)


def forbidden_scan(prop=None):
    hits = []
    dirs = None if prop is None else set(coq_closure(prop))
    for root, _, files in os.walk(COQ):
        rel = os.path.relpath(root, COQ).split(os.sep)[0]
        for fn in files:
            if not fn.endswith(".v"):
                continue
            if dirs is not None:
                if rel == "Props":
                    if fn != prop + ".v":
                        continue
                elif rel not in dirs:
                    continue
            p = os.path.join(root, fn)
            src = strip_coq_comments(open(p).read())
            for ln, line in enumerate(src.split("\n"), 1):
                if FORBIDDEN.search(line):
                    hits.append("%s:%d: %s" % (os.path.relpath(p, VERIF), ln, line.strip()[:120]))
    return hits


def build_only(ctx):
    """Incremental build of the property's Coq files (used by --no-proof runs, so that generated case
    files are never compiled against stale .vo files when a dependency was rebuilt in between)."""
    targets = ["Props/%s.vo" % ctx.prop]
    pdir = os.path.join(COQ, ctx.prop)
    if os.path.isdir(pdir):
        targets += ["%s/%s" % (ctx.prop, f[:-2] + ".vo") for f in sorted(os.listdir(pdir)) if f.endswith(".v")]
    rc, out = sh([os.path.join(COQ, "build.sh")] + targets, timeout=3600)
    return rc == 0, out[-3000:]


def proof_gate(ctx, thorough_chk=False):
    """Build the development, re-check the property file, collect Print Assumptions.
    Returns (ok, message)."""
    targets = ["Props/%s.vo" % ctx.prop]
    pdir = os.path.join(COQ, ctx.prop)
    if os.path.isdir(pdir):   # every file of the property's own directory (models, proofs, runners)
        targets += ["%s/%s" % (ctx.prop, f[:-2] + ".vo") for f in sorted(os.listdir(pdir)) if f.endswith(".v")]
    rc, out = sh([os.path.join(COQ, "build.sh")] + targets, timeout=3600)
    if rc != 0:
        return False, "coq build failed:\n" + out[-4000:]
    hits = forbidden_scan(ctx.prop)
    if hits:
        return False, "forbidden constructs in coq/: " + "; ".join(hits[:10])
    props = os.path.join(COQ, "Props", ctx.prop + ".v")
    src = strip_coq_comments(open(props).read())
    theorems = re.findall(r"\b(?:Theorem|Lemma|Corollary|Example)\s+([A-Za-z0-9_']+)", src)
    ctx.obligations = len(theorems)
    cmd = "cd %s && timeout 600 coqc -w -all -Q . RopeVerif Props/%s.v" % (COQ, ctx.prop)
    ctx.checker_cmd = "coq/build.sh && (%s)" % cmd
    rc, out = sh(cmd, timeout=700)
    if rc != 0:
        return False, "property file does not check:\n" + out[-4000:]
    # Print Assumptions blocks
    closed = out.count("Closed under the global context")
    axioms = []
    for m in re.finditer(r"Axioms:\s*\n((?:.+\n?)+?)(?=\n\S|\Z)", out):
        for line in m.group(1).split("\n"):
            mm = re.match(r"\s*([A-Za-z0-9_.']+)\s*:", line)
            if mm:
                axioms.append(mm.group(1))
    bad = [a for a in axioms if a.split(".")[-1] not in [s.split(".")[-1] for s in STDLIB_AXIOMS]]
    printed = len(re.findall(r"\bPrint\s+Assumptions\b", src))
    if printed < len(theorems):
        return False, "Props/%s.v: %d theorems but %d Print Assumptions" % (ctx.prop, len(theorems), printed)
    if bad:
        return False, "non-whitelisted axioms: %s" % sorted(set(bad))
    ctx.discharged = len(theorems)
    ctx.theorem_names = theorems
    ctx.axioms_used = sorted(set(axioms))
    ctx.trusted_base = [
        "Coq 8.16.1 kernel and its VM (vm_compute); native_compute not used",
        "axioms reported by Print Assumptions for Props/%s.v: %s" % (
            ctx.prop, ", ".join(ctx.axioms_used) if ctx.axioms_used else "none (all theorems closed under the global context)"),
        "hand-written Gallina model tied to /repo by the correspondence run of this check",
        "harness (Python): generators, abstraction of rope objects to Gallina terms, parser of coqc output",
    ]
    if thorough_chk:
        rc, out2 = sh("cd %s && timeout 1500 coqchk -silent -o -Q . RopeVerif RopeVerif.Props.%s" % (COQ, ctx.prop),
                      timeout=1600)
        ctx.extra["coqchk_rc"] = rc
        ctx.extra["coqchk_tail"] = out2[-1500:]
        if rc != 0:
            return False, "coqchk failed:\n" + out2[-3000:]
    ctx.proof_ok = True
    return True, "ok"


# ----------------------------------------------------------------------------- evidence
def write_evidence(ctx):
    os.makedirs(os.path.join(VERIF, "evidence"), exist_ok=True)
    cov = {
        "obligations": max(ctx.obligations, 0),
        "discharged": ctx.discharged,
        "checker_cmd": ctx.checker_cmd or "coq/build.sh",
        "trusted_base": ctx.trusted_base,
        "theorems": getattr(ctx, "theorem_names", []),
        "evaluations": ctx.evaluations,
        "distinct_nontrivial": len(ctx.nontrivial),
        "rule": ctx.rule,
        "samples": ctx.samples or ["(no case was generated)"],
        "traces_validated_against_impl": ctx.traces,
        "input_distribution": ctx.dist,
        "known_findings_reproduced": sorted(set(ctx.known_hits)),
    }
    cov.update(ctx.extra)
    ev = {
        "property_id": ctx.prop,
        "tier": ctx.tier,
        "seed": ctx.seed,
        "level": "proof",
        "coverage": cov,
        "assumptions": ctx.assumptions,
        "wall_s": round(time.time() - ctx.t0, 2),
        "violations": len(ctx.violations),
    }
    if os.path.abspath(REPO) == "/repo" and ctx.proof_ok:
        path = os.path.join(VERIF, "evidence", ctx.prop + ".json")
    else:   # a run against a scratch copy of rope, or one that skipped / failed the proof gate, never overwrites evidence/
        os.makedirs(os.path.join(BUILD, "evidence-scratch"), exist_ok=True)
        path = os.path.join(BUILD, "evidence-scratch", ctx.prop + ".json")
    with open(path, "w") as f:
        json.dump(ev, f, indent=1, default=repr)
    return path


def ensure_repo_on_path():
    """Import rope from /repo's working tree, never from site-packages."""
    if REPO not in sys.path:
        sys.path.insert(0, REPO)
    for k in [k for k in sys.modules if k == "rope" or k.startswith("rope.")]:
        del sys.modules[k]
    import rope
    assert os.path.abspath(rope.__file__).startswith(os.path.abspath(REPO) + os.sep), rope.__file__
    return rope
