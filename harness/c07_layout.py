"""C07 helper: the text-layout stream.  The public single-emission entry points of ImportTools
(organize_imports(selfs=False, sort=False), sort_imports, expand_stars, relatives_to_absolutes) are run on
generated modules and the returned text is compared, character by character inside Coq, with the model
coq/C07/Layout.v evaluated on the source lines and on statement locations, blank-line counts, the first
import line and the separating-line count that this module recomputes from the text on its own."""
import ast

from harness import c07_world as W
from harness.common import g_N, g_bool, g_list, g_text, g_opt, g_nat

KINDS = ["stage1", "sort", "expand", "relabs"]


def blank(line):
    return line.strip() == ""


def layout_facts(src):
    """(lines, [(start, end, blank_before)], first_import_line, separating_lines), computed from the text"""
    tree = ast.parse(src)
    lines = src.splitlines(True)
    plain = src.split("\n")                 # SourceLinesAdapter: length() = len(plain), get_line(i) = plain[i - 1]
    length = len(plain)

    def get_line(i):
        return plain[i - 1]

    def count(start, end, step=1):
        c = 0
        for idx in range(start, end, step):
            if blank(get_line(idx)):
                c += 1
            else:
                break
        return c

    spans = []
    for node in tree.body:
        if isinstance(node, (ast.Import, ast.ImportFrom)):
            spans.append((node.lineno, node.end_lineno + 1, count(node.lineno - 1, 0, -1)))
    sep = count(spans[-1][1] - 1 + 1, length) if spans else 0
    nodes = tree.body
    k = 1 if ast.get_docstring(tree, clean=False) is not None else 0
    if len(nodes) > k:
        n = nodes[k]
        if isinstance(n, (ast.Import, ast.ImportFrom)):
            fil = n.lineno
        else:
            first = min([d.lineno for d in getattr(n, "decorator_list", [])] + [n.lineno])
            fil = first - count(first - 1, 1, -1)
    else:
        fil = length - count(length - 1, 1, -1)
    return lines, spans, fil, sep


def run_tools(env, place, src, kind, prefs):
    """calls the ImportTools entry point; returns (text or None, exception name)"""
    from rope.refactor.importutils import ImportTools
    proj = env.project
    for k in ("split_imports", "pull_imports_to_top", "sort_imports_alphabetically"):
        proj.prefs.set(k, bool(prefs.get(k, k == "pull_imports_to_top")))
    res = env.module_resource(place)
    res.write(src)
    pymodule = proj.get_pymodule(res)
    tools = ImportTools(proj)
    try:
        if kind == "stage1":
            return tools.organize_imports(pymodule, selfs=False, sort=False), None
        if kind == "sort":
            return tools.sort_imports(pymodule), None
        if kind == "expand":
            return tools.expand_stars(pymodule), None
        return tools.relatives_to_absolutes(pymodule), None
    except Exception as e:
        return None, type(e).__name__


def g_lstmt(g_info, s, span):
    return ("{| ls_stmt := {| s_info := %s; s_txt := Some %s |}; ls_start := %s; ls_end := %s; ls_blank := %s; "
            "ls_new := None |}" % (g_info(s["info"]), g_text(s["text"]), g_nat(span[0]), g_nat(span[1]), g_nat(span[2])))


def lcase_term(c07, case, kind, out):
    src, place, prefs = case["src"], case["place"], case["prefs"]
    stmts = W.parse_imports(src)
    used, exported, _ = W.used_and_exported(src, rope_view=True)
    lines, spans, fil, sep = layout_facts(src)
    assert len(spans) == len(stmts)
    lay = c07.lay_term(place, [s["info"] for s in stmts])
    return ("{| k_kind := %s; k_split := %s; k_alpha := %s; k_pull := %s; k_lay := %s;\n   k_lines := %s;\n   k_imps := %s;\n"
            "   k_fil := %s; k_sep := %s; k_used := %s; k_exported := %s;\n   k_out := %s |}" % (
                g_N(KINDS.index(kind)), g_bool(prefs.get("split_imports", False)),
                g_bool(prefs.get("sort_imports_alphabetically", False)), g_bool(prefs.get("pull_imports_to_top", True)),
                lay, g_list([g_text(ln) for ln in lines]),
                g_list([g_lstmt(c07.g_info, s, sp) for s, sp in zip(stmts, spans)]),
                g_nat(fil), g_nat(sep), g_list([c07.g_dotted(u) for u in used]), g_list([g_text(e) for e in exported]),
                g_opt(None if out is None else g_text(out))))
