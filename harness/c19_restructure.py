"""C19 part B — restructuring.

Drivers: Restructure(project, pattern, goal, args).get_changes() on a one-module project, and
restructure.replace(code, pattern, goal).  The new text (or "no change" / BadNameInCheckError) is compared
inside Coq with coq/C19/Restructure.v run on the tree rope used.  Independent oracle on rope's result:
 * it parses, and its tree equals the tree-level rewriting of the module (every instance found by the
   brute-force matcher of c19.py replaced by the goal with the (rewritten) bound nodes inserted; statement
   windows greedily in text order) -- "each match replaced, meaning kept";
 * goal == pattern leaves the tree unchanged;
 * text outside the regions of the instances is unchanged.
A failing case is classified structurally (known region defects of patchedast, missing parenthesisation,
traversal-order skipping, replace() with an expression pattern); anything else is a violation.
"""
import ast
import copy
import re
import shutil
import tempfile
import warnings

from harness import c19, c19_gen
from harness.common import g_list

# ----------------------------------------------------------------------------- goals
EXPR_GOALS = ["${A}", "g(${A}, ${B})", "${B} + ${A}", "${A} * 2", "${A} ** 2", "-${A}", "${A}.z", "${A}[0]",
              "[${A}, ${B}]", "${A} if ${B} else 0", "(${A})", "not ${A}", "${B}(${A})", "k", "g()", "${A} and ${B}",
              "g(${A},\n  ${B})", "${A} == ${B}", "(${A}, ${B})", "f(*${A})", "${A}, ${B}",
              "g('${A}', ${A})", 'g(${B}, "x ${A} y")']
STMT_GOALS = ["z = ${A}  # ${B}", "h('${A}')\nh(${A})", "z = ${A}", "h(${A})\nh(${B})", "if ${A}:\n    z = ${B}\nelse:\n    pass", "pass", "${A} = ${B}",
              "z = g(${A},\n      ${B})", "while ${A}:\n    break", "h(${A})"]


def wildcards_of(user):
    return list(dict.fromkeys(t for v, t in c19.cut_template(user) if v))


def gen_goal(rng, case):
    """goal text with ${..} built from the pattern's wildcards"""
    ws = wildcards_of(case["user"])
    r = rng.random()
    if r < 0.25:
        return case["user"]                      # identity
    is_stmt = isinstance(c19.parse_pattern(case["model"]), list)
    if r < 0.33 and ws:
        # the pattern with two wildcards swapped / one duplicated
        a, b = rng.choice(ws), rng.choice(ws)
        return case["user"].replace("${%s}" % a, "${\0}").replace("${%s}" % b, "${%s}" % a).replace("${\0}", "${%s}" % b)
    t = rng.choice(STMT_GOALS if is_stmt else EXPR_GOALS)
    if case.get("pkind") == "midline-stmt" and rng.random() < 0.6:
        t = rng.choice(["h(${A})\nh(${B})", "z = ${A}\nz = ${B}\nh(z)"])      # several lines at a column > indentation
    names = ws if ws else []
    if rng.random() < 0.04:
        names = names + ["nosuch"]               # BadNameInCheckError when there is a match
    if not names:
        if case.get("pkind") == "midline-stmt":
            return "pass\nh()"
        return rng.choice(["pass"] if is_stmt else ["k", "g()"])
    a = rng.choice(names)
    b = rng.choice(names)
    return t.replace("${A}", "${%s}" % a).replace("${B}", "${%s}" % b)


def goal_pieces(goal):
    """[(is_var, text)]: see c19.cut_template"""
    return c19.cut_template(goal)


def goal_model(goal):
    return "".join(c19.reserved(t) if v else t for v, t in goal_pieces(goal))


# ----------------------------------------------------------------------------- rope drivers
class Proj:
    def __init__(self):
        from rope.base import project
        self.dir = tempfile.mkdtemp(prefix="ropeverif-")
        self.project = project.Project(self.dir, ropefolder=None)
        self.mod = self.project.root.create_file("m.py")

    def close(self):
        try:
            self.project.close()
        finally:
            shutil.rmtree(self.dir, ignore_errors=True)

    def restructure(self, src, pattern, goal, exact):
        """returns (code, text, tree): 0 unchanged / 1 new text / 2 BadNameInCheckError"""
        from rope.refactor import restructure, similarfinder
        self.mod.write(src)
        pm = self.project.get_pymodule(self.mod)
        with warnings.catch_warnings():
            warnings.simplefilter("ignore")
            tree = pm.get_ast()
            from rope.refactor import patchedast
            patchedast.patch_ast(tree, src)       # what SimilarFinder does first; a no-op on a patched tree
            c19.number_tree(tree)
            r = restructure.Restructure(self.project, pattern, goal, args={w: "exact" for w in exact})
            try:
                changes = r.get_changes()
            except similarfinder.BadNameInCheckError:
                return 2, "", tree
        new = None
        for ch in changes.changes:
            new = ch.new_contents
        if new is None:
            return 0, "", tree
        return 1, new, tree


def restructure_reuse_fails(obj):
    """one Restructure object asked twice, the module edited through rope in between: the second answer must be
    the answer of a fresh Restructure object on the new contents"""
    from rope.refactor import restructure, similarfinder
    proj = Proj()
    try:
        args = {w: "exact" for w in obj["exact"]}

        def contents(changes):
            new = None
            for ch in changes.changes:
                new = ch.new_contents
            return new
        with warnings.catch_warnings():
            warnings.simplefilter("ignore")
            proj.mod.write(obj["source"])
            r = restructure.Restructure(proj.project, obj["user"], obj["goal"], args=args)
            try:
                r.get_changes()
                proj.mod.write(obj["source2"])
                second = contents(r.get_changes())
                fresh = contents(restructure.Restructure(proj.project, obj["user"], obj["goal"], args=args).get_changes())
            except similarfinder.BadNameInCheckError:
                return None
        if second != fresh:
            return "second get_changes() on one Restructure object gives %r, a fresh object gives %r" % (
                (second or "")[:120], (fresh or "")[:120])
        return None
    finally:
        proj.close()


def run_reuse(ctx, cases):
    for case in cases:
        src2 = "pass  # moved\n" + case["source"] if ctx.rng.random() < 0.6 else case["source"].replace("\n", "\n\n", 1)
        obj = {"kind": "restructure-reuse", "source": case["source"], "source2": src2, "user": case["user"],
               "model": case["model"], "exact": case["exact"] if case["driver"] == "restructure" else [], "goal": case["goal"]}
        try:
            bad = restructure_reuse_fails(obj)
        except Exception as e:
            if type(e).__name__ == "MismatchedTokenError":
                continue
            bad = "%s: %s" % (type(e).__name__, e)
        ctx.case(("restructure-reuse", obj["source"], obj["user"], obj["goal"]), nontrivial=True)
        ctx.count("restructure_reuse:" + ("differs" if bad else "same"))
        if bad:
            ctx.violation(dict(obj, category="restructure-reuse", observed=bad), "C19 Restructure re-used: " + bad[:240])
        if ctx.too_many(8):
            break


def run_replace(src, pattern, goal):
    from rope.refactor import restructure, similarfinder, patchedast
    with warnings.catch_warnings():
        warnings.simplefilter("ignore")
        tree = patchedast.get_patched_ast(src)
        c19.number_tree(tree)
        try:
            new = restructure.replace(src, pattern, goal)
        except similarfinder.BadNameInCheckError:
            return 2, "", tree
    if new == src:
        return 0, "", tree
    return 1, new, tree


# ----------------------------------------------------------------------------- tree-level specification
class BadName(Exception):
    pass


def instantiate(goal_ast, mapping):
    class T(ast.NodeTransformer):
        def visit_Name(self, node):
            w = c19.wild_base(node)
            if w is None:
                return node
            if w not in mapping:
                raise BadName(w)
            return copy.deepcopy(mapping[w])     # one object per occurrence (ast.unparse keys levels by object)
    if isinstance(goal_ast, list):
        return [T().visit(copy.deepcopy(p)) for p in goal_ast]
    return T().visit(copy.deepcopy(goal_ast))


def _mark(marks, piece):
    """replace an inserted piece of code by an atomic marker name (marks: marker -> piece)"""
    name = "__M%d__" % len(marks)
    marks[name] = piece
    return ast.Name(id=name, ctx=ast.Load())


def insertion_fits(marked_tree, plain_tree, marks):
    """C19_subst_meaning's condition, evaluated with CPython's own printer: every inserted piece (bound code in
    a goal, a goal instance in the module) can stand where it is put without parentheses, i.e. printing the
    tree with atomic markers and then putting the printed pieces in gives the print of the real tree.
    None = the printer refuses one of the trees."""
    def bare(piece):
        # the text of the piece itself: ast.unparse parenthesises a top-level tuple / walrus / yield
        text = ast.unparse(ast.fix_missing_locations(copy.deepcopy(piece)))
        if isinstance(piece, (ast.Tuple, ast.NamedExpr, ast.Yield, ast.YieldFrom)) and text.startswith("(") \
                and text.endswith(")") and not (isinstance(piece, ast.Tuple) and not piece.elts):
            text = text[1:-1]
        return text

    try:
        def expand(text):
            return re.sub(r"__M\d+__", lambda m: expand(bare(marks[m.group(0)])), text)
        return expand(ast.unparse(ast.fix_missing_locations(copy.deepcopy(marked_tree)))) == \
            ast.unparse(ast.fix_missing_locations(copy.deepcopy(plain_tree)))
    except (ValueError, AttributeError, TypeError, KeyError, RecursionError):
        return None


def spec_expr(tree, pat, goal_ast, exact, marks=None):
    inst = {id(nodes[0]): m for (_s, nodes, m) in c19.bf_find(tree, pat, exact)}

    def rw(node, force=False):
        if isinstance(node, ast.AST):
            if not force and id(node) in inst:
                m = inst[id(node)]
                if marks is not None:
                    return _mark(marks, instantiate(goal_ast, {w: _mark(marks, rw(b, force=(b is node)))
                                                               for w, b in m.items()}))
                return instantiate(goal_ast, {w: rw(b, force=(b is node)) for w, b in m.items()})
            new = copy.copy(node)
            for f in node._fields:
                if hasattr(node, f):
                    setattr(new, f, rw(getattr(node, f)))
            return new
        if isinstance(node, list):
            return [rw(x) for x in node]
        return node
    return rw(tree), len(inst)


def spec_stmts(tree, pat, goal_stmts, exact, only=None, marks=None):
    """only: None = every window greedily in text order per list; else the set of id(first stmt) of the
    windows to replace."""
    k = len(pat)
    count = [0]

    def rw_list(lst):
        out = []
        i = 0
        while i < len(lst):
            w = lst[i:i + k]
            m = None
            if len(w) == k and all(isinstance(x, ast.stmt) for x in w) and (only is None or id(w[0]) in only):
                m = c19.bf_instance(pat, w, exact)
            if m is not None:
                if marks is not None:
                    m = {w: _mark(marks, b) for w, b in m.items()}
                out.extend(instantiate(goal_stmts, m))
                count[0] += 1
                i += k
            else:
                out.append(rw(lst[i]))
                i += 1
        return out

    def rw(node):
        if isinstance(node, ast.AST):
            new = copy.copy(node)
            for f in node._fields:
                if hasattr(node, f):
                    v = getattr(node, f)
                    setattr(new, f, rw_list(v) if isinstance(v, list) else rw(v))
            return new
        return node
    return rw(tree), count[0]


def semicolon_context_unusable(src, instances, goal_stmts, goal_text=""):
    """a compound statement cannot follow `;` on a line, a compound statement or a comment followed by `; rest`
    swallows the rest: goals with compound statements or comments are outside the property for instances that
    share their line with other statements"""
    import io
    import tokenize

    def compound(st):
        return hasattr(st, "body")
    try:
        commented = any(t.type == tokenize.COMMENT for t in tokenize.generate_tokens(io.StringIO(goal_text).readline))
    except (tokenize.TokenError, SyntaxError, IndentationError):
        commented = "#" in goal_text
    if not any(compound(st) for st in goal_stmts) and not commented:
        return False
    for (_s, nodes, _m) in instances:
        if not (hasattr(nodes[0], "region") and hasattr(nodes[-1], "region")):
            continue
        s, e = nodes[0].region[0], nodes[-1].region[1]
        before = src[src.rfind("\n", 0, s) + 1:s]
        nl = src.find("\n", e)
        after = src[e:nl if nl >= 0 else len(src)]
        if before.strip() or after.split("#")[0].strip():
            return True
    return False


def kept_outside(src, result, regions):
    """text outside the union of [s, e) regions appears unchanged and in order in result"""
    regs = sorted(regions)
    merged = []
    for s, e in regs:
        if merged and s <= merged[-1][1]:
            merged[-1][1] = max(merged[-1][1], e)
        else:
            merged.append([s, e])
    segs = []
    pos = 0
    for s, e in merged:
        segs.append(src[pos:s])
        pos = e
    segs.append(src[pos:])
    if not result.startswith(segs[0]):
        return False
    if len(segs) == 1:
        return result == src
    if not result.endswith(segs[-1]):
        return False
    p = len(segs[0])
    limit = len(result) - len(segs[-1])
    for seg in segs[1:-1]:
        i = result.find(seg, p, limit)
        if i < 0:
            return False
        p = i + len(seg)
    return p <= limit


def rdump(n):
    """c19.dump without AnnAssign.simple: that flag is derived from whether the target is written in
    parentheses, which a goal such as (${x}) decides, not the restructuring"""
    if isinstance(n, ast.AST):
        return (type(n).__name__,) + tuple(
            (f, rdump(getattr(n, f))) for f in n._fields
            if hasattr(n, f) and not isinstance(getattr(n, f), ast.expr_context)
            and not (f == "simple" and isinstance(n, ast.AnnAssign)))
    if isinstance(n, (list, tuple)):
        return ("[]",) + tuple(rdump(x) for x in n)
    return (type(n).__name__, repr(n))


class Expected:
    def __init__(self, raw, canon):
        self.dumps = (rdump(raw), rdump(canon))

    def is_(self, tree):
        return rdump(tree) in self.dumps


NONATOMIC = (ast.BinOp, ast.BoolOp, ast.UnaryOp, ast.Compare, ast.IfExp, ast.Lambda, ast.NamedExpr, ast.Tuple,
             ast.GeneratorExp, ast.Await, ast.Yield, ast.YieldFrom, ast.Starred)


def oracle(case, code, text, tree):
    """None or (category, description).  `tree` is the patched tree rope worked on (regions used only for the
    untouched-outside clause and the classification)."""
    src = case["source"]
    pat = c19.parse_pattern(case["model"])
    exact = set(case["exact"]) if case["driver"] == "restructure" else set()
    try:
        goal_ast = c19.parse_pattern(goal_model(case["goal"]))
    except SyntaxError:
        return None                                     # goal is no code at all: nothing to compare
    is_stmt = isinstance(pat, list)
    if is_stmt and not isinstance(goal_ast, list):
        goal_ast = [ast.Expr(value=goal_ast)]
    instances = c19.bf_find(tree, pat, exact)
    regions = [(nodes[0].region[0], nodes[-1].region[1]) for (_s, nodes, _m) in instances
               if hasattr(nodes[0], "region") and hasattr(nodes[-1], "region")]
    # expected tree
    try:
        if is_stmt:
            expected, n = spec_stmts(tree, pat, goal_ast, exact)
        else:
            if isinstance(goal_ast, list):
                return None                             # statements as the goal of an expression pattern: not specified here
            expected, n = spec_expr(tree, pat, goal_ast, exact)
    except BadName:
        if code == 2:
            return None
        if case["driver"] == "replace" and not is_stmt and code == 0 and instances:
            return ("replace-expression", "replace() left the instances (and the unbound goal wildcard) alone")
        return ("badname", "goal uses a wildcard the match does not bind but no BadNameInCheckError")
    if code == 2:
        return ("badname", "BadNameInCheckError although every goal wildcard is bound")
    if is_stmt and semicolon_context_unusable(src, instances, goal_ast, goal_model(case["goal"])):
        return ("goal-unusable", None)
    # a goal that cannot stand where the match stands (e.g. a call as assignment target) is outside the
    # property: the tree-level result is not a program
    try:
        canon = ast.parse(ast.unparse(ast.fix_missing_locations(copy.deepcopy(expected))))
    except (SyntaxError, ValueError, AttributeError, TypeError):
        return ("goal-unusable", None)
    # the program denoted by the tree-level result: the tree itself, or its canonical re-parse (which repairs
    # derived fields such as AnnAssign.simple; the raw tree is kept because ast.unparse prints a tuple-valued
    # with-item without parentheses)
    expected = Expected(expected, canon)
    new = text if code == 1 else src
    shape = c19.shape_of(src, [b for (_s, nodes, m) in instances for b in list(m.values()) + list(nodes)])
    try:
        got = ast.parse(new)
    except SyntaxError as e:
        cat = classify(case, tree, pat, goal_ast, exact, instances, is_stmt, expected, shape, code, None, new)
        return (cat, "restructured module does not parse (%s): %r" % (e.msg, new[:160]))
    if not expected.is_(got):
        cat = classify(case, tree, pat, goal_ast, exact, instances, is_stmt, expected, shape, code, got, new)
        what = "identity goal changes the syntax tree" if case["goal"] == case["user"] else \
            "result is not the module with each instance replaced by the instantiated goal"
        return (cat, "%s: %r" % (what, new[:200]))
    if not kept_outside(src, new, regions):
        return ("outside" + shape, "text outside the replaced regions changed: %r" % new[:200])
    return None


def classify(case, tree, pat, goal_ast, exact, instances, is_stmt, expected, shape, code, got=None, new_text=None):
    """structural reason of a failed comparison; total: whatever goes wrong while looking for a known reason
    means that none was found"""
    try:
        return _classify(case, tree, pat, goal_ast, exact, instances, is_stmt, expected, shape, code, got, new_text)
    except Exception:
        return "meaning"


def _classify(case, tree, pat, goal_ast, exact, instances, is_stmt, expected, shape, code, got=None, new_text=None):
    """structural reason of a failed tree comparison; 'meaning' = none of the known ones"""
    src = case["source"]
    if shape:
        return "region" + shape
    if case["driver"] == "replace" and not is_stmt and instances and code == 0:
        return "replace-expression"
    if any(isinstance(b, ast.Slice) or c19._has_slice(b) for (_s, _n, m) in instances for b in m.values()):
        return "slice-bound"          # a wildcard holds a slice, which is no stand-alone expression
    if is_stmt:
        # rope's order: windows in traversal order, a window starting before the end of the last replaced one is skipped
        order = traversal_windows(tree, pat, exact)
        replaced, last_end = set(), -1
        for w in order:
            s, e = w[0].region[0], w[-1].region[1]
            if s < last_end:
                continue
            last_end = e
            replaced.add(id(w[0]))
        try:
            exp2, _ = spec_stmts(tree, pat, goal_ast, exact, only=replaced)
            exp2 = Expected(exp2, ast.parse(ast.unparse(ast.fix_missing_locations(copy.deepcopy(exp2)))))
        except (BadName, SyntaxError, ValueError, AttributeError, TypeError):
            return "meaning"
        textual = sorted(order, key=lambda w: (w[0].region[0], w[-1].region[1]))
        in_order, last_end = set(), -1
        for w in textual:
            s, e = w[0].region[0], w[-1].region[1]
            if s < last_end:
                continue
            last_end = e
            in_order.add(id(w[0]))
        if in_order != replaced:
            # the legacy traversal-order loop (before /repo 220be77) would replace another set of instances
            if got is not None and exp2.is_(got):
                return "stmt-order"
    # missing parenthesisation: the harness's own rewriting with every inserted piece parenthesised is right,
    # and rope's text is that rewriting up to parentheses and layout -- anything else wrong with the text
    # (other regions replaced, other text inserted) is not this finding
    marks = {}
    try:
        if is_stmt:
            marked, _ = spec_stmts(tree, pat, goal_ast, exact, marks=marks)
            plain, _ = spec_stmts(tree, pat, goal_ast, exact)
        else:
            marked, _ = spec_expr(tree, pat, goal_ast, exact, marks=marks)
            plain, _ = spec_expr(tree, pat, goal_ast, exact)
        fit = insertion_fits(marked, plain, marks)
    except BadName:
        fit = None
    # the harness's own rewriting with every inserted piece parenthesised is right, and rope's text is that
    # rewriting up to parentheses and layout -- anything else wrong with the text (other regions replaced, other
    # text inserted) is none of the two findings below
    safe_ok = False
    safe_text = safe_rewrite_text(case, tree, pat, exact, is_stmt)
    if safe_text is not None and new_text is not None:
        try:
            safe = ast.parse(safe_text)
        except SyntaxError:
            safe = None
        safe_ok = safe is not None and expected.is_(safe) and modulo_parens(safe_text) == modulo_parens(new_text)
    if not safe_ok:
        return "meaning"
    if fit is not True:
        return "precedence"       # CPython's printer needs parentheses around an inserted piece
    if any(spans_lines_unbracketed(src, b) for (_s, _n, m) in instances for b in m.values()):
        return "multiline-bound"  # bound code written on several lines without brackets of its own
    return "meaning"              # every inserted piece is fit for its position and on one line


def spans_lines_unbracketed(src, b):
    if not hasattr(b, "region"):
        return False
    text = src[b.region[0]:b.region[1]]
    if "\n" not in text:
        return False
    depth = 0
    for i, ch in enumerate(text):          # brackets opened by the text itself (strings/comments ignored roughly)
        if ch in "([{":
            depth += 1
        elif ch in ")]}":
            depth -= 1
        elif ch == "\n" and depth == 0:
            return True
    return False


def traversal_windows(tree, pat, exact):
    """instances in the order of ast.call_for_nodes: a node's own lists first, then its children"""
    out = []
    k = len(pat)

    def visit(n):
        for f in n._fields:
            v = getattr(n, f, None)
            if isinstance(v, list):
                for i in range(len(v) - k + 1):
                    w = v[i:i + k]
                    if all(isinstance(x, ast.stmt) for x in w) and c19.bf_instance(pat, w, exact) is not None:
                        out.append(w)
        for c in ast.iter_child_nodes(n):
            visit(c)
    visit(tree)
    return out


def safe_rewrite(case, tree, pat, exact, is_stmt, only=None):
    """the harness's own text-level rewriting (positional substitution at the goal's placeholders) in which
    every inserted piece of code is parenthesised; returns the parsed result or None"""
    txt = safe_rewrite_text(case, tree, pat, exact, is_stmt, only)
    if txt is None:
        return None
    try:
        return ast.parse(txt)
    except SyntaxError:
        return None


def modulo_parens(text):
    """text with parentheses dropped and lines stripped: what may differ between rope's result and the
    parenthesised rewriting when the only thing wrong is missing parenthesisation"""
    lines = [ln.strip() for ln in text.replace("(", "").replace(")", "").split("\n")]
    return "\n".join(" ".join(ln.split()) for ln in lines if ln)


def safe_rewrite_text(case, tree, pat, exact, is_stmt, only=None):
    src = case["source"]
    pieces = goal_pieces(case["goal"])
    try:
        if is_stmt:
            k = len(pat)
            wins = [w for w in traversal_windows(tree, pat, exact)]
            wins.sort(key=lambda w: w[0].region[0])
            out, pos = [], 0
            for w in wins:
                s, e = w[0].region[0], w[-1].region[1]
                if s < pos or (only is not None and id(w[0]) not in only):
                    continue
                m = c19.bf_instance(pat, w, exact)
                txt = "".join(("(" + src[m[t].region[0]:m[t].region[1]] + ")") if v else t for v, t in pieces)
                line = src[src.rfind("\n", 0, s) + 1:s]
                indent = len(line) - len(line.lstrip(" "))      # the indentation of the line the instance is on
                lines = txt.split("\n")
                txt = "\n".join([lines[0]] + [(" " * indent + ln) if ln.strip() else ln for ln in lines[1:]])
                out.append(src[pos:s] + txt)
                pos = e
            out.append(src[pos:])
            return "".join(out)
        inst = {id(nodes[0]): m for (_s, nodes, m) in c19.bf_find(tree, pat, exact)}

        def text_of(node, force=False):
            if not force and id(node) in inst:
                m = inst[id(node)]
                return "((" + "".join(("(" + text_of(m[t], force=(m[t] is node)) + ")") if v else t
                                      for v, t in pieces) + "))"
            s, e = node.region
            roots = []

            def nearest(n):
                for c in ast.iter_child_nodes(n):
                    if id(c) in inst:
                        roots.append(c)
                    else:
                        nearest(c)
            nearest(node)
            roots.sort(key=lambda r: r.region)
            out, pos = [], s
            for r in roots:
                out.append(src[pos:r.region[0]])
                out.append(text_of(r))
                pos = r.region[1]
            out.append(src[pos:e])
            return "".join(out)
        return text_of(tree)
    except (KeyError, AttributeError, RecursionError):
        return None


# ----------------------------------------------------------------------------- Coq case
def g_template(goal):
    return g_list([("PVar %s" if v else "PLit %s") % c19.g_text(t) for v, t in goal_pieces(goal)])


def g_rcase(body_name, src_name, case, code, text):
    pat = ast.parse(case["model"])
    exact = case["exact"] if case["driver"] == "restructure" else []
    # r_same / r_sorted = true: the code as it stands since 52b3ff8 (replace searches the tree it rewrites) and
    # 220be77 (statement matches replaced in source order); false selects the legacy variants kept in the model
    # for the _legacy lemmas
    return ("{| r_src := %s; r_body := %s; r_pat := %s; r_goal := %s; r_exact := [%s]; r_same := %s; r_sorted := %s; "
            "r_code := %d; r_text := %s |}" % (
                src_name, body_name, c19.g_tree(pat), c19.g_text(case["goal"]),
                ";".join(c19.g_text(w) for w in exact), "true", "true", code, c19.g_text(text)))


FIXED = [
    ("x = pow2(2 + 1)\n", "pow2(${a})", "${a} ** 2"),
    ("x = (a + b) * c\n", "${x} * ${y}", "${x} * ${y}"),
    ("f(*a)\nf(b)\n", "f(${z})", "g(${z})"),
    ("x = ((a),)\n", "(${a},)", "[${a}]"),
    ("if c:\n    a = 1\na = 1\n", "a = 1", "a = 2"),
    ("x = f(f(1))\ny = f(2)\n", "f(${a})", "g(${a})"),
    ("x = f(1)\n", "${a}", "(${a})"),
    ("def g():\n    a = 1\n    b = 2\n    c = 3\n", "a = 1\nb = 2", "a, b = 1, 2"),
    ("def g(p):\n    if p:\n        x = h(p,\n              1)\n", "${v} = h(${a}, ${b})", "${v} = k(${b},\n  ${a})\nprint(${v})"),
    ("x = 1\n", "x = 1", "x = ${q}"),
]


def gen_rcases(ctx, n_modules, per_module):
    rng = ctx.rng
    cases = []
    for src, user, goal in FIXED:
        model = re.sub(r"\$\{([^}]*)\}", lambda m: c19.reserved(m.group(1)), user)
        for driver in ("restructure", "replace"):
            cases.append({"kind": "restructure", "source": src, "user": user, "model": model, "exact": [],
                          "goal": goal, "driver": driver})
    for _ in range(n_modules):
        src = c19_gen.gen_module(rng, rich=rng.random() < 0.8)
        tree = ast.parse(src)
        for _ in range(per_module):
            p = None
            for _try in range(6):
                p = c19.derive_pattern(rng, src, tree)
                if p is not None:
                    break
            if p is None:
                continue
            case = {"kind": "restructure", "source": src, "user": p["user"], "model": p["model"], "exact": p["exact"],
                    "driver": "restructure" if rng.random() < 0.75 else "replace", "pkind": p["kind"]}
            case["goal"] = gen_goal(rng, case)
            cases.append(case)
    return cases


def run_one(proj, case):
    try:
        if case["driver"] == "restructure":
            code, text, tree = proj.restructure(case["source"], case["user"], case["goal"], case["exact"])
        else:
            code, text, tree = run_replace(case["source"], case["user"], case["goal"])
    except Exception as e:
        return {"error": "%s: %s" % (type(e).__name__, e)}
    return {"error": None, "code": code, "text": text, "tree": tree,
            "oracle": oracle(case, code, text, tree)}


REPLAY_KEYS = ("kind", "source", "user", "model", "exact", "goal", "driver")


def run(ctx):
    ctx.extra["restructure_rule"] = (
        "modules and patterns as for matching; goal = pattern (25%), the pattern with wildcards swapped, or a "
        "template (wrappers, operators, multi-line, statements) over the pattern's wildcards, occasionally an "
        "unbound wildcard; driver Restructure.get_changes on a one-module project (75%) or restructure.replace")
    cases = gen_rcases(ctx, ctx.scale(90, 700), ctx.scale(6, 8))
    proj = Proj()
    results = []
    try:
        for case in cases:
            results.append(run_one(proj, case))
    finally:
        proj.close()
    # Coq
    terms, modules = [], {}
    for idx, (case, r) in enumerate(zip(cases, results)):
        if r["error"] is not None:
            continue
        key = case["source"]
        if key not in modules:
            modules[key] = ("b%d" % len(modules), "s%d" % len(modules), c19.g_tree(r["tree"]), c19.g_text(case["source"]))
        terms.append((modules[key][0], g_rcase(modules[key][0], modules[key][1], case, r["code"], r["text"]), idx))
    shard = 120
    bodies, imaps = [], []
    header = c19.HEADER
    for s in range(0, len(terms), shard):
        part = terms[s:s + shard]
        used = []
        for (bn, _, _) in part:
            if bn not in used:
                used.append(bn)
        defs = ""
        for (bn, sn, tr, tx) in modules.values():
            if bn in used:
                defs += "Definition %s : tree := %s.\nDefinition %s : list N := %s.\n" % (bn, tr, sn, tx)
        bodies.append(header + defs + "Definition cases : list rcase := [\n%s].\nEval vm_compute in (rmismatches cases).\n"
                      "Eval vm_compute in (count_rdom cases).\nEval vm_compute in (count_rexpr cases).\n"
                      % ";\n".join(t for (_, t, _) in part))
        imaps.append([i for (_, _, i) in part])
    outs = ctx.coq_files_parallel(bodies) if bodies else []
    mism = {}
    for out, imap in zip(outs, imaps):
        pairs = ctx.parse_pairs(out)
        for (i, code) in (pairs[0] if pairs else []):
            mism[imap[i]] = code
        nums = ctx.parse_nums(out)
        if len(nums) >= 2:
            ctx.extra["restructure_cases_in_untouched_outside_expr_domain"] = \
                ctx.extra.get("restructure_cases_in_untouched_outside_expr_domain", 0) + nums[-2][0]
            ctx.extra["restructure_cases_with_expression_matches"] = \
                ctx.extra.get("restructure_cases_with_expression_matches", 0) + nums[-1][0]
    pending = []
    for idx, (case, r) in enumerate(zip(cases, results)):
        replay = {k: case[k] for k in REPLAY_KEYS}
        if r["error"] is not None:
            ctx.case(("restructure-error", case["source"], case["user"], case["goal"]), nontrivial=False)
            ctx.count("restructure:rope_raised:" + r["error"].split(":")[0])
            if r["error"].startswith("MismatchedTokenError"):
                continue
            cat = "crash:try-else-finally" if (r["error"].startswith("AttributeError") and "region" in r["error"]
                                               and c19.has_try_else_finally(case["source"])) else "crash"
            ctx.violation(dict(replay, category=cat, observed=r["error"]),
                          "C19 restructuring: rope raised %s" % r["error"][:160])
            continue
        changed = r["code"] == 1
        ctx.case(("restructure", case["source"], case["user"], case["goal"], case["driver"], tuple(case["exact"])),
                 nontrivial=changed)
        ctx.traces += 1
        ctx.count("restructure:driver=" + case["driver"])
        ctx.count("restructure:" + {0: "unchanged", 1: "changed", 2: "BadNameInCheckError"}[r["code"]])
        if case["goal"] == case["user"]:
            ctx.count("restructure:identity_goal")
        if case.get("pkind") == "run-window":
            ctx.count("restructure:run_window_pattern")
        if changed and any("${" in t for v, t in goal_pieces(r["text"]) if not v and ("'" in t or '"' in t)) \
                and len(wildcards_of(case["goal"])) >= 2:
            ctx.count("restructure:result_keeps_placeholder_like_string")
        if r["oracle"] and r["oracle"][1] is None:
            ctx.count("restructure:" + r["oracle"][0])
        elif r["oracle"]:
            ctx.violation(dict(replay, category=r["oracle"][0], observed=r["oracle"][1]),
                          "C19 restructuring (%s): %s; pattern %r goal %r" % (
                              r["oracle"][0], r["oracle"][1][:200], case["user"][:60], case["goal"][:60]))
        elif idx in mism:
            pending.append((idx, case, replay))      # reported after the failing inputs, so that they are not crowded out
        if ctx.too_many(8):
            break
    for idx, case, replay in pending[:3]:
        if ctx.too_many(10):
            break
        ctx.violation(dict(replay, mismatch="restructured text differs from the model's (code %d)" % mism[idx],
                           broken="correspondence RopeVerif.C19.Runner.run_rcase (model Restructure.restructure_text vs "
                                  "rope/refactor/restructure.py _ChangeComputer); theorems about the text-level "
                                  "model no longer speak about the code"),
                      "C19 restructuring: model and rope disagree; pattern %r goal %r" % (case["user"][:60], case["goal"][:60]),
                      no_input=True)
    if not ctx.too_many(8):
        from harness import c19_prec
        pairs = []
        for case, r in zip(cases, results):
            if r["error"] is not None:
                continue
            try:
                pat = c19.parse_pattern(case["model"])
                goal_ast = c19.parse_pattern(goal_model(case["goal"]))
            except SyntaxError:
                continue
            if isinstance(pat, list) or isinstance(goal_ast, list):
                continue
            exact = set(case["exact"]) if case["driver"] == "restructure" else set()
            inst = c19.bf_find(r["tree"], pat, exact)
            if inst and wildcards_of(case["goal"]):
                pairs.append((goal_ast, inst[0][2], {k: case[k] for k in REPLAY_KEYS}))
        c19_prec.run(ctx, pairs)
    if not ctx.too_many(8):
        run_reuse(ctx, [c for c, r in zip(cases, results) if r["error"] is None and r.get("code") == 1][:ctx.scale(40, 300)])
    if not ctx.too_many(8):
        run_make_pattern(ctx)
    if not ctx.too_many(8):
        from harness import c19_template
        c19_template.run(ctx)
    for case, r in list(zip(cases, results))[22:24]:
        ctx.sample({"source": case["source"][:300], "pattern": case["user"], "goal": case["goal"], "driver": case["driver"],
                    "result": (r.get("text") or "")[:300] if r.get("code") == 1 else r.get("code")})


# ----------------------------------------------------------------------------- make_pattern
def make_pattern_expected(src, variables):
    """every ast.Name spelled like a variable becomes ${variable}; CPython positions (ASCII sources)"""
    off = c19.Offsets(src)
    spots = sorted((off.start(n), off.end(n), n.id) for n in ast.walk(ast.parse(src))
                   if isinstance(n, ast.Name) and n.id in variables)
    out, pos = [], 0
    for s, e, name in spots:
        out.append(src[pos:s] + "${%s}" % name)
        pos = e
    out.append(src[pos:])
    return "".join(out)


def run_make_pattern_case(obj):
    from rope.refactor import similarfinder, patchedast
    src, variables = obj["source"], obj["variables"]
    with warnings.catch_warnings():
        warnings.simplefilter("ignore")
        try:
            got = similarfinder.make_pattern(src, variables)
            tree = patchedast.get_patched_ast(src)
        except Exception as e:
            return {"error": "%s: %s" % (type(e).__name__, e)}
    c19.number_tree(tree)
    want = make_pattern_expected(src, set(variables))
    return {"error": None, "got": got, "tree": tree,
            "oracle": None if got == want else ("make-pattern", "make_pattern result %r, expected %r" % (got[:160], want[:160]))}


def run_make_pattern(ctx):
    rng = ctx.rng
    cases = [{"kind": "make-pattern", "source": "a = b.a + f(a, a=a)\nprint('a', a)  # a\n", "variables": ["a", "f"]},
             {"kind": "make-pattern", "source": "x = 1\n", "variables": ["y"]}]
    for _ in range(ctx.scale(40, 400)):
        src = c19_gen.gen_module(rng, rich=True)
        pool = c19_gen.NAMES + c19_gen.FUNCS + c19_gen.ATTRS + ["k", "zz"]
        variables = rng.sample(pool, rng.randint(1, 3))
        cases.append({"kind": "make-pattern", "source": src, "variables": variables})
    results = [run_make_pattern_case(c) for c in cases]
    terms, imap = [], []
    for idx, (c, r) in enumerate(zip(cases, results)):
        if r["error"] is None:
            terms.append("{| m_src := %s; m_body := %s; m_vars := [%s]; m_out := %s |}" % (
                c19.g_text(c["source"]), c19.g_tree(r["tree"]),
                ";".join(c19.g_text(v) for v in sorted(set(c["variables"]))), c19.g_text(r["got"])))
            imap.append(idx)
    header = c19.HEADER
    bodies, maps = [], []
    shard = 100
    for s0 in range(0, len(terms), shard):
        bodies.append(header + "Definition cases : list mcase := [\n%s].\nEval vm_compute in (mmismatches cases).\n"
                      % ";\n".join(terms[s0:s0 + shard]))
        maps.append(imap[s0:s0 + shard])
    outs = ctx.coq_files_parallel(bodies) if bodies else []
    mism = set()
    for out, mp in zip(outs, maps):
        pairs = ctx.parse_pairs(out)
        for (i, _code) in (pairs[0] if pairs else []):
            mism.add(mp[i])
    for idx, (c, r) in enumerate(zip(cases, results)):
        if r["error"] is not None:
            ctx.count("make_pattern:rope_raised:" + r["error"].split(":")[0])
            ctx.case(("make-pattern-error", c["source"], tuple(c["variables"])), nontrivial=False)
            if r["error"].startswith("MismatchedTokenError"):
                continue
            cat = "crash:try-else-finally" if (r["error"].startswith("AttributeError") and "region" in r["error"]
                                               and c19.has_try_else_finally(c["source"])) else "crash"
            ctx.violation(dict(c, category=cat, observed=r["error"]), "C19 make_pattern: rope raised %s" % r["error"][:160])
            continue
        ctx.case(("make-pattern", c["source"], tuple(c["variables"])), nontrivial=r["got"] != c["source"])
        ctx.traces += 1
        ctx.count("make_pattern:" + ("changed" if r["got"] != c["source"] else "unchanged"))
        if r["oracle"]:
            ctx.violation(dict(c, category=r["oracle"][0], observed=r["oracle"][1]), "C19 " + r["oracle"][1][:240])
        elif idx in mism:
            ctx.violation(dict(c, mismatch="make_pattern text differs from the model's",
                               broken="correspondence RopeVerif.C19.Runner.run_mcase (Restructure.make_pattern vs "
                                      "similarfinder.make_pattern)"),
                          "C19 make_pattern: model and rope disagree", no_input=True)
        if ctx.too_many(8):
            break


def replay(ctx, obj):
    kind = obj.get("kind")
    if kind == "template":
        from harness import c19_template
        return c19_template.replay(ctx, obj)
    if kind == "make-pattern":
        r = run_make_pattern_case(obj)
        if r["error"] is not None:
            return not r["error"].startswith("MismatchedTokenError")
        return bool(r["oracle"])
    if kind == "restructure":
        proj = Proj()
        try:
            r = run_one(proj, obj)
        finally:
            proj.close()
        if r["error"] is not None:
            return not r["error"].startswith("MismatchedTokenError")
        return bool(r["oracle"]) and r["oracle"][1] is not None
    if kind == "finder-reuse":
        return finder_reuse_fails(obj)
    if kind == "restructure-reuse":
        return bool(restructure_reuse_fails(obj))
    raise ValueError("unknown replay kind %r" % kind)


def finder_reuse_fails(obj):
    """one SimilarFinder asked twice for the same pattern with different wildcard arguments"""
    rope = c19.Rope()
    try:
        pm = rope.libutils.get_string_module(rope.project, obj["source"])
        from rope.refactor import similarfinder
        f = similarfinder.SimilarFinder(pm)
        first = [m.get_region() for m in f.get_matches(obj["user"], obj["args1"])]
        second = [m.get_region() for m in f.get_matches(obj["user"], obj["args2"])]
        fresh = [m.get_region() for m in similarfinder.SimilarFinder(pm).get_matches(obj["user"], obj["args2"])]
        del first
        return second != fresh
    finally:
        rope.close()


def signature(obj):
    kind = obj.get("kind")
    if kind == "finder-reuse":
        return "finder:stale-args"
    cat = str(obj.get("category", ""))
    if cat.startswith("region:") or cat.startswith("outside:"):
        return "region:" + cat.split(":", 1)[1]
    return "restructure:" + cat
