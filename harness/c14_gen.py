"""C14 generator: Python source texts from a token-level grammar.

Everything is derived from the `random.Random` passed in. The generator aims at *valid* programs (checked afterwards
with ast.parse by the caller; what does not parse goes to the malformed stream, where only model-vs-rope is compared).
Features can be switched on through `feat`:
    glue   keyword immediately followed by a string literal        (`x if"a"else y`, `a or"b"`)
    fnest  Python 3.12 f-strings re-using the enclosing quote      (`f"{d["k"]}"`)
    xid    identifiers with XID_Continue characters that are not str.isalnum() (combining marks, U+203F, U+00B7)
    fbrace f-strings whose literal part has unbalanced doubled braces (`f"{{"`)
    bsbr   backslash-newline between tokens inside brackets
    blockish  continuation lines (or lines inside a triple-quoted string) starting with a compound-statement keyword
    adjstr adjacent string literals with no separator
    fnl    a newline inside a replacement field of a single-quoted f-string (PEP 701)
    dotnum number literals starting with a dot (`.5`)
    kwdot  a float literal ending in its dot directly before a keyword (`3. else (c).r`)
    fromname identifiers ending in "from" followed by an attribute access (`date_from.year`)
    fquote f-strings whose literal part contains the delimiting quote character (escaped, or single inside triple)
    escq   triple-quoted strings ending in an escaped quote          (`\"\"\"a\\\"\"\"\"`)
Tiny identifier pools: names that are also string prefixes (f, rb, u, R, Br) on purpose.
"""

NAMES = ["a", "b", "x", "y", "foo", "bar_1", "_p", "self", "f", "rb", "u", "R", "Br", "bf", "cls", "i",
         "\u00e9t\u00e9", "\u540d\u524d", "x\u0663", "\u03b1_1", "If", "or_", "elif_", "data", "n0",
         "match", "type", "case"]          # soft keywords are ordinary identifiers outside match/type statements
XID_NAMES = ["e\u0301x", "a\u203fb", "a\u00b7b", "na\u0308ive", "x\u0300\u0301"]
ATTRS = ["a", "b", "x", "foo", "bar_1", "rb", "f", "u", "items", "\u00e9t\u00e9", "count", "_p"]
NUMBERS = ["0", "1", "42", "1_000", "0x1F", "0b101", "0o17", "1.5", "1e5", "2.5j", "10", "0.5", "3.0"]
PREFIXES = ["", "", "", "", "r", "R", "u", "U", "b", "B", "br", "Br", "bR", "BR", "rb", "rB", "Rb", "RB"]
FPREFIXES = ["f", "F", "fr", "fR", "Fr", "FR", "rf", "rF", "Rf", "RF"]
QUOTES = ["'", '"', "'''", '"""']
BINOPS = ["+", "-", "*", "/", "//", "%", "**", "<<", ">>", "&", "|", "^", "@", "==", "!=", "<", ">", "<=", ">=",
          "is", "in", "not in", "is not", "and", "or"]
COMMENT_BODIES = ["", " c", " 'quote", ' "dq" (', " ]})", " x = 1; y", " \\", " '''", ' """', " f\"{", "\tt", " #!", "\u00e9 \u540d",
                  " a.b(c)", " if x:"]


BLOCK_KW = ("def", "class", "if", "elif", "except", "for", "while", "with", "try", "else", "finally")


class W(str):
    """word-like token: name, keyword, number (needs a separator from a neighbouring word-like token)"""


class S(str):
    """string literal token"""


class Gen:
    def __init__(self, rng, feat=()):
        self.r = rng
        self.feat = set(feat)
        self.used = set()

    # ------------------------------------------------------------------ small helpers
    def p(self, x):
        return self.r.random() < x

    def ch(self, seq):
        return seq[self.r.randrange(len(seq))]

    def name(self):
        if "fromname" in self.feat and self.p(0.3):
            return W(self.ch(["date_from", "xfrom", "_from", "copied_from"]))
        if "xid" in self.feat and self.p(0.3):
            self.used.add("xid")
            return W(self.ch(XID_NAMES))
        return W(self.ch(NAMES))

    def attr(self):
        if "fromname" in self.feat and self.p(0.3):
            return W(self.ch(["date_from", "xfrom", "_from"]))
        if "xid" in self.feat and self.p(0.2):
            self.used.add("xid")
            return W(self.ch(XID_NAMES))
        return W(self.ch(ATTRS))

    # ------------------------------------------------------------------ string literals
    def str_body(self, q, raw, is_bytes, fstring=False, depth=0):
        """text between the quotes"""
        q1 = q[0]
        other = '"' if q1 == "'" else "'"
        triple = len(q) == 3
        out = []
        n = self.ch([0, 0, 1, 1, 2, 3, 4, 6])
        for _ in range(n):
            k = self.r.random()
            if fstring and "fnest" in self.feat and self.p(0.5):
                k = 0.95
            if k < 0.30:
                pool = "abxyz 01_" if is_bytes else "abxyz 01_\u00e9\u540d"
                out.append("".join(self.ch(pool) for _ in range(self.r.randint(1, 4))))
            elif k < 0.42:
                s = self.ch(["#", "# c", "(", ")", "[", "]", ";", "\t", " ; ", "([", "])", other, other * 3, other + " " + other,
                             "import x", "def f(" if "blockish" in self.feat else "xdef f(", "a.b", "=", ":"])
                if fstring:
                    s = s.replace("{", "").replace("}", "")
                    if "fbrace" not in self.feat:
                        for c in "()[]":
                            s = s.replace(c, "")
                out.append(s)
            elif k < 0.50 and not fstring:
                out.append(self.ch(["{", "}", "{}", "{x}", "}{", "{{"]))
            elif k < 0.62:
                if raw:
                    out.append(self.ch(["\\" + q1, "\\\\", "\\n", "\\" + other, "\\d", "\\\\\\" + q1]))
                else:
                    out.append(self.ch(["\\" + q1, "\\\\", "\\n", "\\t", "\\x41", "\\" + other, "\\\\\\" + q1, "\\\\\\\\", "\\0",
                                        "\\'", '\\"'] + ([] if is_bytes else ["\\u00e9", "\\N{BULLET}"])))
            elif k < 0.68:
                out.append("\\\n")                      # backslash-newline inside a literal
            elif k < 0.80 and triple:
                out.append(self.ch(["\n", "\n\n", "\n    ", q1, q1 * 2, q1 + " " + q1 * 2, "\n# not a comment\n",
                                    "\ndef g():\n" if "blockish" in self.feat else "\n g():\n",
                                    " \\\n", "\n)" if (not fstring or "fbrace" in self.feat) else "\n."]))
            elif k < 0.90 and fstring:
                out.append(self.ch(["{{", "}}", "{{}}", "{{ }}"] if "fbrace" in self.feat else ["{{}}", "{{ }}", "{{x}}", "{{}}{{}}"]))
            elif fstring or (fstring and "fnest" in self.feat):
                out.append(self.ffield(q, depth))
            else:
                out.append(self.ch(["x", " ", "0"]))
        body = "".join(out)
        if fstring and "fquote" not in self.feat:
            # an f-string containing its own quote character is the fquote feature
            body = body.replace("\\" + q1, "").replace(q1, "")
        if fstring and "fbrace" in self.feat and self.p(0.6):
            self.used.add("fbrace")
            body += self.ch(["{{", "}}", " {{ ", "{{{{", "}}}}{{"])
        # keep the literal well-formed: no bare closing quote, no trailing lone backslash, no quote run at the end
        if triple:
            body = body.replace(q, q1 + "\\" + q1 + q1) if not raw else body.replace(q, q1 * 2 + " " + q1)
            while body.endswith(q1) and not body.endswith("\\" + q1):
                body = body[:-1]
            if "escq" in self.feat and self.p(0.6):
                self.used.add("escq")
                body += self.ch(["\\" + q1, "a\\" + q1, "\\\\\\" + q1])
            elif body.endswith(q1):
                body += " "
            if fstring and "fquote" in self.feat and self.p(0.7):
                body = self.ch(["a" + q1 + "b", q1 + " ", "x\\" + q1 + "y"]) + body                          # (an escaped quote right before the closing quotes is the escq feature)
        else:
            res = []
            i = 0
            while i < len(body):
                c = body[i]
                if c == "\\" and i + 1 < len(body):
                    res.append(body[i:i + 2])
                    i += 2
                    continue
                if c == q1:
                    res.append("\\" + q1)
                elif c == "\n":
                    res.append("\\n")
                else:
                    res.append(c)
                i += 1
            body = "".join(res)
            if fstring and "fquote" in self.feat and self.p(0.7):
                body = self.ch(["a\\" + q1 + "b", "\\" + q1, "it\\" + q1 + "s "]) + body
        # no odd run of backslashes right before the closing quote
        k = len(body) - len(body.rstrip("\\"))
        if k % 2 == 1:
            body += "\\" if not raw else " "
            if raw:
                body = body[:-2] + " "
        return body

    def ffield(self, q, depth):
        """one replacement field of an f-string delimited by q"""
        q1 = q[0]
        other = '"' if q1 == "'" else "'"
        k = self.r.random()
        if "fnest" in self.feat and depth < 2:
            k = 0.62 + 0.28 * self.r.random()
        if k < 0.35 or depth >= 2:
            e = self.ch(NAMES[:12])
        elif k < 0.5:
            e = "%s.%s" % (self.ch(NAMES[:12]), self.ch(ATTRS))
        elif k < 0.62:
            e = "%s(%s)" % (self.ch(NAMES[:12]), self.ch(["", "1", "x, y", "a.b"]))
        elif k < 0.80:
            inner_q = other
            if "fnest" in self.feat and self.p(0.7):
                inner_q = "\x01" * len(q)             # placeholder for the enclosing quote (see fstring_text)
                self.used.add("fnest")
            if len(q) == 3 and self.p(0.5) and inner_q[0] != "\x01":
                inner_q = self.ch([other, q1]) if len(q) == 3 else other
            e = "%s[%s%s%s]" % (self.ch(NAMES[:12]), inner_q, self.ch(["k", "a b", "", "(", "#", "]"] if "fbrace" in self.feat else ["k", "a b", "", "#", ";", "."]), inner_q)
        elif k < 0.9:
            inner_q = other
            same = False
            if "fnest" in self.feat and self.p(0.7):
                inner_q = q
                same = True
                self.used.add("fnest")
            inner = self.fstring_text(inner_q, depth + 1)
            e = inner.replace(q1, "\x01") if same else inner
        else:
            e = "%s + %s" % (self.ch(NAMES[:12]), self.ch(["1", "y", "(2)"]))
        conv = self.ch(["", "", "", "!r", "!s", "="])
        spec = self.ch(["", "", "", ":>10", ":{%s}" % self.ch(NAMES[:6]), ":.2f", ":x"])
        sp = self.ch(["", "", " "])
        if "fnl" in self.feat and len(q) == 1 and self.p(0.6):
            sp = self.ch(["\x02", "\x02  "])          # placeholder for a newline (see fstring_text)
            self.used.add("fnl")
        return "{" + sp + e + conv + spec + "}"

    def fstring_text(self, q=None, depth=0):
        q = q or self.ch(QUOTES)
        pre = self.ch(FPREFIXES)
        raw = "r" in pre.lower()
        res = pre + q + self.str_body(q, raw, False, fstring=True, depth=depth) + q
        return res.replace("\x01", q[0]).replace("\x02", "\n") if depth == 0 else res

    def string(self):
        if self.p(0.75 if ("fnest" in self.feat or "fbrace" in self.feat or "fquote" in self.feat or "fnl" in self.feat) else 0.3):
            return S(self.fstring_text())
        pre = self.ch(PREFIXES)
        q = self.ch(QUOTES)
        raw = "r" in pre.lower()
        return S(pre + q + self.str_body(q, raw, "b" in pre.lower()) + q)

    # ------------------------------------------------------------------ expressions (token lists)
    def atom(self, d):
        k = self.r.random()
        if k < 0.40 or d <= 0:
            return [self.name()]
        if k < 0.50:
            if "kwdot" in self.feat and self.p(0.5):
                # a float ending in its dot, a keyword, then a bracketed atom with an attribute: `3. else (c).r`
                return [W(self.ch(["3.", "1.", "0."])), W(self.ch(["if", "and", "or"])), "(", self.name(), ")", ".", self.attr(),
                        W("else"), "(", self.name(), ")", ".", self.attr()][:7 if self.p(0.5) else 13]
            if "dotnum" in self.feat and self.p(0.6):
                if self.p(0.5):
                    return [self.name(), self.ch(["(", "["]), W(self.ch([".5", ".25e3"])), None, ".", self.attr()]
                return [W(self.ch([".5", ".25e3", ".0"]))]
            return [W(self.ch(NUMBERS))]
        if k < 0.70:
            if "adjstr" in self.feat and self.p(0.4):
                q1 = self.ch("'\"")
                return [S(self.ch(["", "r", "u"]) + q1 + self.ch(["a", "", "x y"]) + q1), S(q1 * 3 + self.ch(["", "b", "\n"]) + q1 * 3)]
            t = [self.string()]
            if self.p(0.15):
                for _ in range(6):
                    t2 = self.string()               # implicit concatenation (bytes only with bytes)
                    isb = lambda x: "b" in x[:x.index(x.lstrip("rRbBuUfF")[0])].lower() if x.lstrip("rRbBuUfF") else False
                    if isb(t[0]) == isb(t2):
                        t.append(t2)
                        break
            return t
        if k < 0.78:
            return ["("] + self.expr(d - 1) + [")"]
        if k < 0.86:
            return ["["] + self.exprlist(d - 1) + ["]"]
        if k < 0.92:
            items = []
            for _ in range(self.r.randint(0, 2)):
                items += self.expr(d - 1) + [":"] + self.expr(d - 1) + [","]
            return ["{"] + items[:-1] + ["}"]
        if k < 0.96:
            return ["("] + self.expr(d - 1) + [","] + self.expr(d - 1) + [")"]
        return ["["] + self.expr(d - 1) + [W("for")] + [self.name()] + [W("in")] + self.expr(d - 1) + ["]"]

    def exprlist(self, d):
        out = []
        for _ in range(self.r.randint(0, 3)):
            out += self.expr(d) + [","]
        if out and self.p(0.7):
            out.pop()
        return out

    def primary(self, d):
        t = self.atom(d)
        if None in t:                                 # (dotnum pattern: close the bracket that was opened)
            i = t.index(None)
            t[i] = ")" if t[i - 2] == "(" else "]"
            return t
        if isinstance(t[0], W) and t[0][:1].isdigit() or t[0][:1] == ".":
            return t                                  # no trailers on numbers
        for _ in range(self.ch([0, 0, 1, 1, 2, 3])):
            k = self.r.random()
            if k < 0.5:
                t += [".", self.attr()]
            elif k < 0.8:
                args = []
                kw = False
                for _ in range(self.r.randint(0, 2)):
                    if kw or self.p(0.3):
                        kw = True
                        args += [self.name(), "="]
                    args += self.expr(d - 1) + [","]
                if args and self.p(0.8):
                    args.pop()
                t += ["("] + args + [")"]
            else:
                t += ["["] + self.expr(d - 1) + ([":"] + self.expr(d - 1) if self.p(0.2) else []) + ["]"]
        return t

    def expr(self, d):
        k = self.r.random()
        if d <= 0 or k < 0.55:
            return self.primary(d)
        if k < 0.75:
            return self.expr(d - 1) + [self.kwop(self.ch(BINOPS))] + self.expr(d - 1)
        if k < 0.82:
            if self.p(0.25):
                return ["(", W("not")] + self.primary(d - 1) + [")"]
            return [self.ch(["-", "~", "+"])] + self.primary(d - 1)
        if k < 0.90:
            return self.expr(d - 1) + [W("if")] + self.primary(d - 1) + [W("else")] + self.expr(d - 1)
        if k < 0.95:
            return ["(", W("lambda"), self.name(), ":"] + self.expr(d - 1) + [")"]
        return ["("] + self.expr(d - 1) + [")"]

    def kwop(self, op):
        if op[0].isalpha():
            return W(op)
        return op

    # ------------------------------------------------------------------ joining tokens into text
    def sep(self, prev, nxt, depth, must):
        """whitespace between two tokens; `must` = a separator is syntactically required"""
        k = self.r.random()
        if isinstance(nxt, W) and str(nxt) in BLOCK_KW and "blockish" not in self.feat:
            return " "
        if depth > 0 and k < 0.08:
            ind = " " * self.r.randint(0, 8)
            if self.p(0.3):
                return " #" + self.ch(COMMENT_BODIES) + "\n" + ind
            return self.ch(["", " "]) + "\n" + ind
        if k < 0.12 and self.cont_ok and (depth == 0 or "bsbr" in self.feat):
            return " \\\n" + " " * self.r.randint(0, 6)
        if k < 0.17:
            return self.ch(["\t", "  ", " \t", "\t\t"])
        if must or k < 0.75:
            return " "
        return ""

    def join(self, toks, cont_ok=True):
        self.cont_ok = cont_ok
        out = []
        depth = 0
        prev = None
        for t in toks:
            if prev is not None:
                must = False
                if isinstance(prev, W) and isinstance(t, (W, S)):
                    must = True
                    if (isinstance(t, S) and t[:1] in "'\"" and "glue" in self.feat and str(prev) in ("if", "elif", "or", "in", "and", "not", "else", "return", "is")
                            and self.p(0.8)):
                        must = False
                        self.used.add("glue")
                        out.append("")
                        out.append(t)
                        prev = t
                        continue
                if isinstance(prev, S) and isinstance(t, S) and "adjstr" not in self.feat:
                    must = True
                if isinstance(prev, W) and prev[-1:] == "." and t == ".":
                    must = True
                if isinstance(prev, W) and prev[:1].isdigit() and t == ".":
                    must = True                       # `1 .real`
                if prev in ("-", "+", "*", "/", "<", ">", "=", "!", "&", "|", "^", "%", "@", ":") and isinstance(t, str) \
                        and not isinstance(t, (W, S)) and t[:1] in "-+*/<>=!&|^%@:.":
                    must = True
                if prev == "." and not isinstance(t, W):
                    must = True
                if t in (",", ")", "]", "}", ":", ".") or prev in ("(", "[", "{", ".", "~"):
                    s = self.sep(prev, t, depth, must) if self.p(0.25) else (" " if must else "")
                else:
                    s = self.sep(prev, t, depth, must)
                out.append(s)
            if t in ("(", "[", "{"):
                depth += 1
            elif t in (")", "]", "}"):
                depth -= 1
            out.append(t)
            prev = t
        return "".join(out)

    # ------------------------------------------------------------------ statements
    def raw_fstring(self):
        """a valid raw f-string (every spelling of r+f), fields holding names, attribute chains and calls"""
        pre = self.ch(["rf", "Rf", "rF", "RF", "fr", "Fr", "fR", "FR"])
        q = self.ch(QUOTES)
        other = '"' if q[0] == "'" else "'"
        parts = []
        for _ in range(self.r.randint(1, 4)):
            parts.append(self.ch(["\\d+", "\\w", " ", "x=", "\\.", "a b", "\\\\", "{{}}"]) if self.p(0.5) else "")
            chain = self.ch(NAMES[:12])
            for _ in range(self.r.randint(0, 3)):
                t = self.r.random()
                if t < 0.55:
                    chain += "." + self.ch(ATTRS)
                elif t < 0.8:
                    chain += "(%s)" % self.ch(["", "x", "a.b, y", "n0 + 1", other + "k" + other])
                else:
                    chain += "[%s]" % self.ch(["0", "i", other + "k" + other, "a.b"])
            parts.append("{" + self.ch(["", " "]) + chain + self.ch(["", "", "!r", ":>10", ":{%s}" % self.ch(NAMES[:6]), "="]) + "}")
        body = "".join(parts)
        if len(q) == 3 and self.p(0.4):
            body = body.replace("}{", "}\n{", 1)
        return S(pre + q + body + q)

    def simple(self, in_def, d=2):
        k = self.r.random()
        if self.p(0.06):
            return [self.name(), "="] + [self.raw_fstring()] + ([".", self.attr()] if self.p(0.3) else [])
        if k < 0.30:
            tgt = self.primary(1) if self.p(0.4) else [self.name()]
            if tgt[-1] == ")" or not isinstance(tgt[0], W) or tgt[0][:1].isdigit() or tgt[0][:1] == ".":
                tgt = [self.name()]
            if self.p(0.15):
                tgt = tgt + [","] + [self.name()]
            return tgt + ["="] + self.expr(d)
        if k < 0.38:
            return [self.name(), self.ch(["+=", "-=", "*=", "|=", "//=", "**=", ">>="])] + self.expr(d)
        if k < 0.43:
            return [self.name(), ":", self.name()] + (["="] + self.expr(d) if self.p(0.6) else [])
        if k < 0.65:
            return self.expr(d)
        if k < 0.70 and in_def:
            return [W("return")] + (self.expr(d) if self.p(0.8) else [])
        if k < 0.74:
            return [W("pass")]
        if k < 0.80:
            mods = [self.name()]
            while self.p(0.3):
                mods += [".", self.attr()]
            t = [W("import")] + mods
            if self.p(0.3):
                t += [W("as"), self.name()]
            if self.p(0.2):
                t += [",", self.name()]
            return t
        if k < 0.87:
            mod = ([self.ch([".", "..", "."])] if self.p(0.25) else []) + [self.name()]
            if self.p(0.3):
                mod += [".", self.attr()]
            names = [self.name()]
            if self.p(0.3):
                names += [W("as"), self.name()]
            if self.p(0.4):
                names += [",", self.name()]
            if self.p(0.3):
                names = ["("] + names + ([","] if self.p(0.5) else []) + [")"]
            return [W("from")] + mod + [W("import")] + names
        if k < 0.90:
            return [W("del"), self.name()]
        if k < 0.94:
            return [W("assert")] + self.expr(d) + ([","] + [self.string()] if self.p(0.4) else [])
        if k < 0.96:
            return [W("global"), self.name()]
        return [W("raise")] + (self.primary(1) if self.p(0.7) else [])

    def comment(self):
        return "#" + self.ch(COMMENT_BODIES)

    def logical(self, toks, ind, allow_semi=True, in_def=False):
        """one logical line (with optional `;`-joined statements and trailing comment), newline included"""
        s = self.join(toks)
        if allow_semi:
            while self.p(0.12):
                s += self.ch([";", "; ", " ;", ";\t"]) + self.join(self.simple(in_def, 1))
            if self.p(0.03):
                s += ";"
        if self.p(0.15):
            s += self.ch(["  ", " ", "", "\t"]) + self.comment()
        elif self.p(0.05):
            s += self.ch([" ", "  ", "\t"])
        return ind + s + "\n"

    def filler(self, ind):
        """blank and comment-only lines"""
        out = []
        while self.p(0.18):
            k = self.r.random()
            if k < 0.4:
                out.append(self.ch(["", "", "   ", "\t", "    "]) + "\n")
            elif k < 0.8:
                out.append(ind + self.comment() + "\n")
            else:
                out.append(self.ch(["", "  ", "        ", "\t"]) + self.comment() + "\n")
        return "".join(out)

    def block(self, ind, depth, in_def, n=None):
        n = n or self.ch([1, 1, 2, 2, 3, 4])
        out = []
        for _ in range(n):
            out.append(self.filler(ind))
            out.append(self.stmt(ind, depth, in_def))
        return "".join(out)

    def suite(self, ind, depth, in_def):
        """`:` + body, either on the same line or as an indented block"""
        if self.p(0.2):
            return ":" + self.ch([" ", "", "\t"]) + self.logical(self.simple(in_def, 1), "", in_def=in_def)
        unit = self.ch(["    ", "    ", "  ", "\t", "        ", " "])
        tail = ":" + (self.ch(["  ", " "]) + self.comment() if self.p(0.1) else "") + "\n"
        return tail + self.block(ind + unit, depth - 1, in_def, self.ch([1, 1, 2, 3]))

    def hash_text_literal(self, ind):
        """a multi-line triple-quoted literal whose inner lines and/or closing line start (after stripping) with '#':
        Markdown headings, shell comments, a closing line such as `# Usage\"\"\"` that carries the closing quotes"""
        q = self.ch(['"""', "'''"])
        pre = self.ch(["", "", "", "r", "R", "u", "b", "rb", "f", "rf"])
        first = self.ch(["", "Title", "summary line", " "])
        inner = []
        for _ in range(self.r.randint(0, 3)):
            inner.append(self.ch(["# Heading", "## Sub (x", "#!/bin/sh", "  # indented", "#", "text", "", "# a = [1,", "#\\d+" if "r" in pre.lower() else "# n",
                                  "* item", "# 'quoted", '# "dq'])) 
        last = self.ch(["# Usage", "#", "# end]", "  # x", "## see (y", "", "done", "# \\" + q[0] + " "])
        body = "\n".join([first] + [ind + l for l in inner] + [ind + last])
        if "f" in pre.lower():
            body = body.replace("{", "").replace("}", "").replace("(", "").replace("[", "").replace("]", "")
        body = body.replace(q, "")
        return S(pre + q + body + q)

    def stmt(self, ind, depth, in_def):
        k = self.r.random()
        if self.p(0.07):
            lit = self.hash_text_literal(ind)
            form = self.r.random()
            if form < 0.4:
                return ind + lit + "\n"
            if form < 0.8:
                return ind + self.join([self.name(), "="]) + " " + lit + self.ch(["", ".strip()", "  # c"]) + "\n"
            return ind + self.join([self.name(), "(", lit, ")"]) + "\n"
        if depth <= 0 or k < 0.62:
            return self.logical(self.simple(in_def), ind, in_def=in_def)
        if k < 0.72:
            s = ind + self.join([W("if")] + self.expr(1)) + self.suite(ind, depth, in_def)
            while self.p(0.3):
                s += self.filler(ind) + ind + self.join([W("elif")] + self.expr(1)) + self.suite(ind, depth, in_def)
            if self.p(0.4):
                s += ind + "else" + self.ch(["", " "]) + self.suite(ind, depth, in_def)
            return s
        if k < 0.78:
            s = ind + self.join([W("for"), self.name(), W("in")] + self.expr(1)) + self.suite(ind, depth, in_def)
            if self.p(0.2):
                s += ind + "else" + self.suite(ind, depth, in_def)
            return s
        if k < 0.82:
            return ind + self.join([W("while")] + self.expr(1)) + self.suite(ind, depth, in_def)
        if k < 0.86:
            t = [W("with")] + self.primary(1)
            if self.p(0.6):
                t += [W("as"), self.name()]
            return ind + self.join(t) + self.suite(ind, depth, in_def)
        if k < 0.90:
            s = ind + "try" + self.suite(ind, depth, in_def)
            if self.p(0.7):
                t = [W("except")]
                if self.p(0.7):
                    t += [self.name()]
                    if self.p(0.5):
                        t += [W("as"), self.name()]
                s += ind + self.join(t) + self.suite(ind, depth, in_def)
                if self.p(0.3):
                    s += ind + "else" + self.suite(ind, depth, in_def)
                if self.p(0.3):
                    s += ind + "finally" + self.ch(["", " "]) + self.suite(ind, depth, in_def)
            else:
                s += ind + "finally" + self.suite(ind, depth, in_def)
            return s
        if k < 0.96:
            s = ""
            while self.p(0.25):
                s += ind + "@" + self.join(self.primary(1)[:6] if False else [self.name()] + ([".", self.attr()] if self.p(0.3) else [])
                                         + (["("] + self.exprlist(1) + [")"] if self.p(0.4) else [])) + "\n"
            params = []
            dflt = False
            for _ in range(self.r.randint(0, 3)):
                params += [self.name()]
                if self.p(0.25):
                    params += [":", self.name()]
                if dflt or self.p(0.3):
                    dflt = True
                    params += ["="] + self.expr(1)
                params += [","]
            if self.p(0.2):
                params += ["*", self.name(), ","]
            if self.p(0.2):
                params += ["**", self.name(), ","]
            if params and self.p(0.8):
                params.pop()
            t = [W("def"), self.name(), "("] + params + [")"]
            if self.p(0.2):
                t += ["->"] + self.primary(1)
            head = self.join(t, cont_ok=False) if self.p(0.5) else self.join(t)
            s += ind + ("async " if self.p(0.05) else "") + head
            unit = self.ch(["    ", "    ", "  ", "\t"])
            if self.p(0.15):
                return s + ":" + " " + self.logical(self.simple(True, 1), "", in_def=True)
            s += ":\n"
            if self.p(0.3):
                docs = [self.hash_text_literal(ind + unit), self.hash_text_literal(ind + unit), '"""doc"""', "'''doc\n" + ind + unit + "more'''", '"doc"', 'r"""x\\d"""']
                if "blockish" in self.feat:
                    docs.append('"""\n' + ind + unit + 'def f():\n' + ind + unit + '"""')
                s += ind + unit + S(self.ch(docs)) + "\n"
            return s + self.block(ind + unit, depth - 1, True, self.ch([1, 2, 3]))
        t = [W("class"), self.name()]
        if self.p(0.5):
            t += ["("] + self.exprlist(0) + [")"]
        return ind + self.join(t) + self.suite(ind, depth, in_def)

    def program(self):
        out = []
        if self.p(0.08):
            out.append("#!/usr/bin/env python\n")
        if self.p(0.1):
            out.append(S(self.ch(['"""module doc"""', "'''a\nb'''", '"""\n# x\n"""', self.hash_text_literal(""), self.hash_text_literal("")])) + "\n")
        out.append(self.block("", 2, False, self.ch([1, 2, 3, 4, 5, 6])))
        s = "".join(out)
        k = self.r.random()
        if k < 0.15:
            s = s.rstrip("\n")
        elif k < 0.25:
            s += self.ch(["\n", "\n\n", "   \n", "# end", "\n# end\n"])
        if self.p(0.03):
            s = self.ch(["\n", "\x0c", "\n\n", "# -*- coding: utf-8 -*-\n"]) + s
        return s


def fstring_call_chain(rng):
    """Small texts: attribute chains through calls/subscripts whose arguments are one-line f-strings (and, for comparison,
    plain strings) with bracket characters in their literal text — balanced or not, opening or closing, alone or paired
    with a second literal that restores the balance: obj.method(f'({x}').attr"""
    ch = lambda seq: seq[rng.randrange(len(seq))]
    names = ["obj", "a", "self", "foo", "rb", "f", "x1", "\u00e9t\u00e9"]
    attrs = ["attr", "b", "items", "rb", "f", "count", "x_1"]

    def lit(kind):
        pre = ch(["f", "F", "rf", "fr", "Rf", "fR", "FR", "f", "f"]) if kind == "f" else ch(["", "r", "b", "u", "R"])
        q = ch(["'", "'", '"'])
        br = ch(["(", "[", "{{", ")", "]", "}}", "((", "([", "(", "(", ")("])
        if kind != "f":
            br = br.replace("{{", "{").replace("}}", "}")
        fld = ch(["{x}", "{a.b}", "{x!r}", "{n:>{w}}", "{x} {y}"]) if kind == "f" else ch(["x", "a.b", "%s", ""])
        body = ch([br + fld, fld + br, br + fld + ch([" ", ":", "-"]) + fld, ch(["id=", "p "]) + br + fld])
        return pre + q + body + q, br

    def args():
        out, brs = [], []
        n = ch([1, 1, 2, 3])
        pos = rng.randrange(n)
        for i in range(n):
            if i == pos:
                t, br = lit("f")
                brs.append(br)
            else:
                t = ch([ch(names), "1", ch(names) + "." + ch(attrs), lit("s")[0]])
            out.append(t)
        if rng.random() < 0.35:              # a second f-literal closing what the first one opened
            closing = {"(": ")", "[": "]", "{{": "}}", "((": "))", "([": "])"}.get(brs[0])
            if closing:
                out.append(ch(["f", "F", "rf"]) + "'" + ch(["{y}", "{x.a}"]) + closing + "'")
        if rng.random() < 0.2:
            out.append("k=" + ch(names))
        return ch([", ", ","]).join(out)

    def chain():
        c = ch(names)
        for _ in range(rng.randint(0, 2)):
            c += "." + ch(attrs)
        c += ch([".", "."]) + ch(["method", "m", "get", "format"]) if rng.random() < 0.8 else ""
        c += "(" + args() + ")"
        for _ in range(rng.randint(1, 3)):
            t = rng.random()
            c += "." + ch(attrs) if t < 0.7 else ("[0]" if t < 0.85 else "()")
        if not c.rstrip(")]").endswith(tuple(attrs)) or c[-1] in ")]":
            c += "." + ch(attrs)
        return c

    lines = []
    for _ in range(rng.randint(1, 3)):
        k = rng.random()
        if k < 0.4:
            lines.append(ch(names) + " = " + chain())
        elif k < 0.7:
            lines.append(chain())
        elif k < 0.85:
            lines.append("print(" + chain() + ", " + ch(names) + ")")
        else:
            lines.append("if " + chain() + ": pass")
    return "\n".join(lines) + ch(["\n", "\n", "", "\ny = 1\n"])


def mutate(rng, s):
    """malformed stream: a few random character edits of a (usually valid) text"""
    s = list(s)
    for _ in range(rng.randint(1, 3)):
        if not s:
            break
        i = rng.randrange(len(s))
        k = rng.random()
        if k < 0.35:
            del s[i]
        elif k < 0.7:
            s.insert(i, rng.choice("'\"\\#()[]{}\n;\tbfr ."))
        elif k < 0.85:
            s[i] = rng.choice("'\"\\#()[]{}\n;\t ")
        else:
            j = rng.randrange(len(s))
            s[i], s[j] = s[j], s[i]
    return "".join(s)


TINY_ALPHABET = ["'", '"', "\\", "#", "\n", "(", ")", "[", "{", "}", "a", "f", "r", "b", " ", ".", ";", "\t", "=", "'''", '"""', "x", "\u00e9"]


def tiny(rng):
    """very short texts over a small alphabet (exhaustive-ish coverage of scanner corner cases)"""
    if rng.random() < 0.25:                  # a run of prefix letters glued to a literal
        q = rng.choice(["'", '"', "'''", '"""'])
        return (rng.choice(["", "x", " ", "1"]) + "".join(rng.choice("bBfFrRuU") for _ in range(rng.randint(1, 6))) + q
                + "".join(rng.choice(TINY_ALPHABET) for _ in range(rng.randint(0, 3))) + rng.choice([q, q, ""]))
    return "".join(rng.choice(TINY_ALPHABET) for _ in range(rng.randint(0, 9)))
