"""C05 generators: project trees, movers, destinations, client modules in every import style."""
from harness.c05_lib import (mk_module, res_of_relpath, relpath_of_res, canon, tree_dirs, Resolver)

TOPS = ["a", "c", "d"]
SUBS = ["p", "q", "b"]
MODS = ["b", "s", "t"]
# names that extend another module name without a dot boundary ("a.bb".startswith("a.b")): the AddingVisitor's
# "already imported" test must not confuse them
LONGER = {"b": "bb", "s": "st", "t": "tt"}
ALIASES = ["x", "y", "z"]


def gen_tree(rng, want_depth=None):
    """A project whose root contains at least two packages (so the root is rope's only source folder)."""
    files = {}
    pkgs = []

    def add_pkg(path):
        pkgs.append(path)
        files["/".join(path + ("__init__.py",))] = mk_module(globals_=(["g"] if rng.random() < 0.35 else []))
        for m in rng.sample(MODS, rng.choice([0, 1, 1, 2, 2, 3])):
            files["/".join(path + (m + ".py",))] = mk_module(globals_=rng.choice([["f"], ["f", "g"], ["f"]]))
        if rng.random() < 0.45:
            files["/".join(path + (LONGER[rng.choice(MODS)] + ".py",))] = mk_module(globals_=["f"])

    depth = want_depth or rng.choice([1, 2, 2, 3])
    for t in rng.sample(TOPS, rng.choice([2, 2, 3])):
        add_pkg((t,))
        if depth >= 2:
            for s in rng.sample(SUBS, rng.choice([0, 1, 1, 2])):
                if "/".join((t, s + ".py")) in files:
                    continue
                add_pkg((t, s))
                if depth >= 3 and rng.random() < 0.6:
                    add_pkg((t, s, "r"))
    for m in rng.sample(["b", "m"], rng.choice([0, 0, 1])):
        files[m + ".py"] = mk_module(globals_=["f"])
    return {"files": files, "dirs": []}, pkgs


def movers_of(tree, pkgs):
    """every module file (not __init__) and every package folder that contains at least one module"""
    out = [res_of_relpath(rel) for rel in sorted(tree["files"]) if not rel.endswith("__init__.py")]
    out += [("D", p) for p in pkgs]
    return out


def res_path(r):
    """folder path a resource occupies: for a package its own folder, for a file the folder + name"""
    return r[1] if r[0] == "D" else r[1] + (r[2],)


def res_name(r):
    return r[1][-1] if r[0] == "D" else r[2]


def res_parent(r):
    return r[1][:-1] if r[0] == "D" else r[1]


def legal_dests(tree, pkgs, src, include_root=True):
    """packages (and the project root) that are not the mover's own folder, not inside the mover, and have
    no child of the mover's name"""
    dirs = tree_dirs(tree)
    out = []
    cands = list(pkgs) + ([()] if include_root else [])
    for d in cands:
        if d == res_parent(src):
            continue
        if src[0] == "D" and d[:len(src[1])] == src[1]:
            continue
        child = "/".join(d + (res_name(src),))
        if child in dirs or (child + ".py") in tree["files"]:
            continue
        out.append(d)
    return out


def relative_forms(folder, module_path):
    """ways to spell the module at absolute dotted path `module_path` relatively from a module in `folder`:
    list of (level, rest)"""
    out = []
    for level in range(1, len(folder) + 1):
        base = tuple(folder[:len(folder) - (level - 1)])
        if base and tuple(module_path[:len(base)]) == base:
            out.append((level, tuple(module_path[len(base):])))
    return out


def gen_stmt(rng, rs, tree, folder, target, prefer_rel=0.4):
    """one import statement reaching `target` (a canonical resource) from a module in `folder`."""
    d = res_path(target)
    subs = []
    if target[0] == "D":
        for rel in tree["files"]:
            r = canon(res_of_relpath(rel))
            if r != target and res_parent(r) == target[1]:
                subs.append(res_name(r))
        subs = sorted(set(subs))
    names_in = sorted(set(rs.globals_of(target)) | set(subs))
    alias = rng.choice(ALIASES) if rng.random() < 0.5 else None
    styles = ["import", "import_as"]
    if len(d) >= 2:
        styles += ["from_pkg", "from_pkg", "from_pkg_as"]
    if names_in:
        styles += ["from_mod", "from_mod_as"]
    # a star import also brings the names the module itself imported: keep to modules without imports
    trel = relpath_of_res(target) if target[0] == "P" else "/".join(target[1] + ("__init__.py",))
    if rs.globals_of(target) and not tree["files"].get(trel, {"imports": [1]})["imports"]:
        styles += ["star"]
    if len(d) >= 2 and rng.random() < 0.25:
        styles += ["from_pkg_multi"]
    style = rng.choice(styles)
    if style == "import":
        pairs = [(d, None)]
        if rng.random() < 0.15:
            pairs.append((d[:1], None) if rng.random() < 0.5 else (d, rng.choice(ALIASES)))
        return ("N", pairs)
    if style == "import_as":
        return ("N", [(d, rng.choice(ALIASES))])
    if style in ("from_pkg", "from_pkg_as", "from_pkg_multi"):
        modpart, name = d[:-1], d[-1]
        al = rng.choice(ALIASES) if style == "from_pkg_as" else None
        names = [(name, al)]
        if style == "from_pkg_multi":
            sib = [res_name(canon(res_of_relpath(rel))) for rel in tree["files"]
                   if res_parent(canon(res_of_relpath(rel))) == tuple(modpart) and not rel.endswith("__init__.py")]
            sib = sorted(set(sib) - {name})
            pk = ("D", tuple(modpart))
            extra = sib + list(rs.globals_of(pk))
            if extra:
                names.append((rng.choice(extra), None))
                rng.shuffle(names)
        rel = relative_forms(folder, modpart)
        if rel and rng.random() < prefer_rel:
            level, rest = rng.choice(rel)
            return ("F", level, rest, names)
        return ("F", 0, tuple(modpart), names)
    if style in ("from_mod", "from_mod_as"):
        n = rng.choice(names_in)
        al = rng.choice(ALIASES) if style == "from_mod_as" else None
        names = [(n, al)]
        rel = [x for x in relative_forms(folder, d) if x[1]]
        if rel and rng.random() < prefer_rel:
            level, rest = rng.choice(rel)
            return ("F", level, rest, names)
        return ("F", 0, tuple(d), names)
    if style == "star":
        rel = [x for x in relative_forms(folder, d) if x[1]]
        if rel and rng.random() < prefer_rel:
            level, rest = rng.choice(rel)
            return ("F", level, rest, [("*", None)])
        return ("F", 0, tuple(d), [("*", None)])
    raise AssertionError(style)


def candidate_refs(rs, rel, m):
    """references that mean something in Python for this module: bound names and attribute chains"""
    env, ok, loaded = rs.analyse(rel, m)
    if not ok:
        return []
    out = []
    for x, o in env.items():
        if o is None:
            continue
        out.append((x,))
        if o[0] == "M":
            stack = [((x,), o[1], 0)]
            while stack:
                pre, r, depth = stack.pop()
                for g in rs.globals_of(r):
                    out.append(pre + (g,))
                if r[0] == "D" and depth < 3:
                    for c in sorted(loaded, key=repr):
                        if res_parent(c) == r[1] and c != r:
                            out.append(pre + (res_name(c),))
                            stack.append((pre + (res_name(c),), c, depth + 1))
    return sorted(set(out))


def gen_client(rng, tree, pkgs, mover, folder, nstmts=None, focus=0.7, prefer_rel=0.4, near=False):
    """an abstract module in `folder` importing (mostly) the mover in some style, with references."""
    rs = Resolver(tree["files"], tree_dirs(tree))
    targets = [canon(res_of_relpath(rel)) for rel in sorted(tree["files"])]
    targets = sorted(set(t for t in targets if t[1] or t[0] == "P"), key=repr)
    inside = [t for t in targets if mover[0] == "D" and res_path(t)[:len(mover[1])] == mover[1] and t != mover]
    stmts = []
    for _ in range(nstmts or rng.choice([1, 1, 2, 2, 3])):
        k = rng.random()
        if k < focus * 0.75 or not targets:
            t = mover
        elif k < focus and inside:
            t = rng.choice(inside)
        else:
            pool = targets
            if near:    # modules of the same package or of the enclosing one: reachable by relative imports
                close = [t for t in targets if res_parent(t) in (tuple(folder), tuple(folder[:-1])) and t[1]
                         and t != mover]
                pool = close or targets
            t = rng.choice(pool)
        stmts.append(gen_stmt(rng, rs, tree, folder, t, prefer_rel))
    m = mk_module(imports=stmts)
    rel = "/".join(tuple(folder) + ("k.py",))
    cands = candidate_refs(rs, rel, m)
    if cands:
        k = min(len(cands), rng.choice([1, 2, 2, 3, 4]))
        m["refs"] = rng.sample(cands, k)
    return m


def is_crashy(m, mover_name):
    """statement shapes on which MoveModule raises AttributeError (kept out of multi-client projects)"""
    for s in m["imports"]:
        if s[0] == "F" and s[1] >= 1 and any(n == mover_name for n, _ in s[3]) and (s[1] >= 2 or s[2]):
            return True
    return False


def style_clients(rng, tree, pkgs, mover):
    """one-statement clients in each of the styles of theorem C05_move_module_refs (mover: a module file)"""
    if mover[0] != "P":
        return []
    rs = Resolver(tree["files"], tree_dirs(tree))
    p, b = mover[1], mover[2]
    gl = list(rs.globals_of(mover))
    d = tuple(p) + (b,)
    folders = [()] + list(pkgs)
    out = []

    def refs_for(base):
        cands = [tuple(base)] + [tuple(base) + (g,) for g in gl]
        k = rng.randint(1, len(cands))
        return [rng.choice(cands) for _ in range(k)]

    al = rng.choice(ALIASES)
    out.append((rng.choice(folders), mk_module([("N", [(d, None)])], refs_for(d))))
    out.append((rng.choice(folders), mk_module([("N", [(d, al)])], refs_for((al,)))))
    if p:
        out.append((rng.choice(folders), mk_module([("F", 0, tuple(p), [(b, None)])], refs_for((b,)))))
        out.append((rng.choice(folders), mk_module([("F", 0, tuple(p), [(b, al)])], refs_for((al,)))))
        out.append((tuple(p), mk_module([("F", 1, (), [(b, None)])], refs_for((b,)))))
        out.append((tuple(p), mk_module([("F", 1, (), [(b, al)])], refs_for((al,)))))
    if gl:
        g = rng.choice(gl)
        k = rng.choice([None, rng.choice(ALIASES)])
        out.append((rng.choice(folders), mk_module([("F", 0, d, [(g, k)])], [(k or g,)])))
        out.append((rng.choice(folders), mk_module([("F", 0, d, [("*", None)])], [(x,) for x in gl])))
        if p:
            out.append((tuple(p), mk_module([("F", 1, (b,), [(g, k)])], [(k or g,)])))
    return out


def prefix_sibling_clients(rng, tree, pkgs, mover):
    """clients that reach the mover through a statement that makes MoveModule ADD `import dest.b`, and that already
    hold an un-aliased `import E.bX` where bX merely starts with b: when the mover goes to E the new import must
    still be added.  Returns (clients, destinations to include)."""
    if mover[0] != "P" or not mover[1]:
        return [], []
    p, b = mover[1], mover[2]
    longer = LONGER.get(b)
    rs = Resolver(tree["files"], tree_dirs(tree))
    gl = list(rs.globals_of(mover))
    out, dests = [], []
    for E in pkgs:
        rel = "/".join(tuple(E) + (longer + ".py",)) if longer else None
        if rel and rel in tree["files"] and tuple(E) != tuple(p):
            base_refs = [(b,)] + [(b, g) for g in gl[:1]] + [tuple(E) + (longer, "f")]
            out.append((tuple(p), mk_module([("N", [(tuple(E) + (longer,), None)]), ("F", 1, (), [(b, None)])],
                                            base_refs)))
            out.append((tuple(p), mk_module([("F", 1, (), [(b, None)]), ("N", [(tuple(E) + (longer,), None)])],
                                            base_refs)))
            dests.append(tuple(E))
    return out, dests
