"""C17 — the remaining class-level refactorings preserve behaviour or are refused.

Per generated project (class C used from three modules) and per refactoring:
  * rope computes the changes (real library, get_changes on a real project on disk);
  * independent oracle: the entry module is executed before and after in a subprocess
    (`/venv/bin/python -I`), stdout and exit status are compared, every module must parse;
  * correspondence (EncapsulateField, IntroduceFactory): rope's result is parsed back into the Obj
    fragment and compared INSIDE Coq with the model's result (coq/C17/Refactor.v), the model's own run of
    the original program is compared with what CPython printed (validates the semantics the theorems are
    about), and the case is classified as inside / outside the theorems' domain by the boolean [side];
  * MethodObject, LocalToField, UseFunction: execution oracle only (plus refusal bookkeeping).
"""
import ast
import io
import os
import re
import shutil
import subprocess
import tempfile
import tokenize
from concurrent.futures import ThreadPoolExecutor

from harness import c17_gen as G

PROPERTY = "C17"
PY = "/venv/bin/python"
BOOT = ("import sys, runpy; sys.path.insert(0, sys.argv[1]); sys.setrecursionlimit(400); "
        "runpy.run_path(sys.argv[1] + '/main.py', run_name='__main__')")
HEADER = ("From Coq Require Import List NArith ZArith Bool.\nImport ListNotations.\n"
          "From RopeVerif.C17 Require Import Obj Refactor Runner.\n")
HAZARDS = ['aug-precedence', 'effectful-primary', 'comment', 'semicolon', 'chained', 'name-clash', 'misread-write',
           'tuple']
# shapes that still are open findings (or a refusal): the main stream avoids them and only they enter a signature.
# The shapes of the fixed defects (aug-precedence, comment, semicolon, name-clash, misread-write) are regression
# streams now: rope must handle them (name-clash: refuse) and the models must agree.
OPEN_FEATURES = {"effectful-primary", "chained", "tuple"}
ASSIGN_OPS = {"=", "+=", "-=", "*=", "/=", "%=", "&=", "|=", "^=", "@=", "//=", "**=", ">>=", "<<="}


def misread_as_write(src, fld):
    """Occurrences `.fld` that worder.get_assignment_type classifies as written although the text that follows
    is not an assignment operator (e.g. `(a.x) == 1`: the three characters `) =` end with '=').  Re-implemented
    here from the text, independent of rope."""
    hits = []
    for m in re.finditer(r"\.%s\b" % re.escape(fld), src):
        i = m.end()
        while i < len(src) and src[i].isspace() and src[i] != "\n":
            i += 1
        single, double, triple = src[i:i + 1], src[i:i + 2], src[i:i + 3]
        if double in ("==", "<=", ">=", "!="):
            continue
        for op in (single, double, triple):
            if op.endswith("="):
                if op not in ASSIGN_OPS:
                    hits.append(m.start())
                break
    return hits



# ----------------------------------------------------------------------------------------- execution
def materialize(srcs):
    d = tempfile.mkdtemp(prefix="ropeverif-")
    for m, s in srcs.items():
        with open(os.path.join(d, m + ".py"), "w") as f:
            f.write(s)
    return d


def execute3(srcs):
    """-> (exit status or 'timeout', stdout, name of the uncaught exception or '')"""
    d = materialize(srcs)
    try:
        try:
            p = subprocess.run([PY, "-I", "-c", BOOT, d], stdout=subprocess.PIPE, stderr=subprocess.PIPE,
                               timeout=20, text=True, cwd=d)
        except subprocess.TimeoutExpired:
            return ("timeout", "", "")
        last = (p.stderr.strip().split("\n") or [""])[-1]
        m = re.match(r"(\w+(?:\.\w+)*)(:|$)", last)
        return (p.returncode, p.stdout, m.group(1) if (m and p.returncode != 0) else "")
    finally:
        shutil.rmtree(d, ignore_errors=True)


def execute(srcs):
    """-> (exit status or 'timeout', stdout): what the oracle compares"""
    return execute3(srcs)[:2]


def all_parse(srcs):
    for m, s in srcs.items():
        try:
            ast.parse(s)
        except SyntaxError as e:
            return "%s.py does not parse: %s" % (m, e.msg)
    return None


# ----------------------------------------------------------------------------------------- rope drivers
def with_project(srcs, fn):
    """fn(project, {mod: resource}) -> changes; returns ('ok', new sources) / ('refused', msg) / ('error', repr)"""
    from rope.base.project import Project
    from rope.base import exceptions
    d = materialize(srcs)
    prj = None
    try:
        prj = Project(d, ropefolder=None)
        res = {m: prj.get_resource(m + ".py") for m in srcs}
        try:
            changes = fn(prj, res)
        except exceptions.RefactoringError as e:
            return ("refused", str(e))
        except Exception as e:            # any other exception out of get_changes is a crash, not a refusal
            return ("error", "%s: %s" % (type(e).__name__, e))
        new = dict(srcs)
        for c in changes.changes:
            m = c.resource.path[:-3]
            if c.__class__.__name__ != "ChangeContents" or m not in srcs:
                return ("error", "unexpected change %r" % (c,))
            new[m] = c.new_contents
        return ("ok", new)
    finally:
        if prj is not None:
            prj.close()
        shutil.rmtree(d, ignore_errors=True)


def field_offset(src, defining, fld):
    i = src.index("def %s(" % defining)
    j = src.index("self.%s" % fld, i)
    return j + 5


def do_encapsulate(srcs, defining, fld="x", getter=None, setter=None, found=None):
    """found: optional dict filled with {module: set of word offsets} the occurrence finder yielded while
    get_changes ran (run-time observation at the boundary between the finder (C02) and this refactoring)."""
    from rope.refactor.encapsulate_field import EncapsulateField
    from rope.refactor import occurrences

    def fn(prj, res):
        orig = occurrences.Finder.find_occurrences
        if found is not None:
            def recording(self, resource=None, pymodule=None):
                r = resource if resource is not None else pymodule.get_resource()
                for o in orig(self, resource, pymodule):
                    found.setdefault(r.path[:-3], set()).add(o.get_word_range()[0])
                    yield o
            occurrences.Finder.find_occurrences = recording
        try:
            return EncapsulateField(prj, res["ma"], field_offset(srcs["ma"], defining, fld)).get_changes(
                getter=getter, setter=setter)
        finally:
            occurrences.Finder.find_occurrences = orig
    return with_project(srcs, fn)


def finder_tags(srcs, found, fld="x"):
    """{module: [bool per textual `.fld` occurrence]}"""
    tags = {}
    for m, s in srcs.items():
        offs = found.get(m, set())
        tags[m] = [(mm.start() + 1) in offs for mm in re.finditer(r"\.%s\b" % re.escape(fld), s)]
    return tags


def do_factory(srcs, cls="C", name="create", global_=False):
    from rope.refactor.introduce_factory import IntroduceFactory

    def fn(prj, res):
        off = srcs["ma"].index("class %s(" % cls) + 6
        return IntroduceFactory(prj, res["ma"], off).get_changes(name, global_factory=global_)
    return with_project(srcs, fn)


def find_def(src, name):
    m = re.search(r"^( *)def %s\(" % re.escape(name), src, re.M)
    return m.start() + len(m.group(1)) + 4


def do_method_object(srcs, mod, fname, classname="_K"):
    from rope.refactor.method_object import MethodObject

    def fn(prj, res):
        return MethodObject(prj, res[mod], find_def(srcs[mod], fname)).get_changes(classname=classname)
    return with_project(srcs, fn)


def do_local_to_field(srcs, mod, offset):
    from rope.refactor.localtofield import LocalToField

    def fn(prj, res):
        return LocalToField(prj, res[mod], offset).get_changes()
    return with_project(srcs, fn)


def do_use_function(srcs, mod, fname):
    from rope.refactor.usefunction import UseFunction

    def fn(prj, res):
        return UseFunction(prj, res[mod], find_def(srcs[mod], fname)).get_changes()
    return with_project(srcs, fn)


# ----------------------------------------------------------------------------------------- structural features
def _line_comments(src):
    res = set()
    try:
        for t in tokenize.generate_tokens(io.StringIO(src).readline):
            if t.type == tokenize.COMMENT:
                res.add(t.start[0])
    except (tokenize.TokenError, SyntaxError, IndentationError):
        pass
    return res


def _has_call(n):
    return any(isinstance(x, ast.Call) for x in ast.walk(n))


def features(srcs, fld="x"):
    """Structural hazards of the INPUT project for EncapsulateField on attribute `fld` (see findings.d):
    each is a syntactic shape of a statement that writes `<primary>.fld`."""
    feats = set()
    for m, s in srcs.items():
        if misread_as_write(s, fld):
            feats.add("misread-write")
        try:
            tree = ast.parse(s)
        except SyntaxError:
            continue
        comments = _line_comments(s)
        lines = s.split("\n")
        for n in ast.walk(tree):
            if isinstance(n, ast.ClassDef):
                names = [b.name for b in n.body if isinstance(b, ast.FunctionDef)]
                if "get_" + fld in names or "set_" + fld in names:
                    feats.add("name-clash")
            tgt = None
            if isinstance(n, ast.Assign) and any(
                    isinstance(t, (ast.Tuple, ast.List)) and any(isinstance(e, ast.Attribute) and e.attr == fld for e in t.elts)
                    for t in n.targets):
                feats.add("tuple")
            if isinstance(n, ast.Assign):
                ts = [t for t in n.targets if isinstance(t, ast.Attribute) and t.attr == fld]
                if ts:
                    tgt = ts[0]
                    if len(n.targets) > 1:
                        feats.add("chained")
            elif isinstance(n, ast.AugAssign) and isinstance(n.target, ast.Attribute) and n.target.attr == fld:
                tgt = n.target
                v = n.value
                seg = ast.get_source_segment(s, v) or ""
                low = isinstance(v, (ast.BinOp, ast.Compare, ast.BoolOp, ast.IfExp, ast.Lambda))
                if low:
                    # parenthesised in the source?  (the node's own segment never includes enclosing parens)
                    before = lines[v.lineno - 1][:v.col_offset].rstrip()
                    if not before.endswith("("):
                        pa = G.PREC.get(G.AST_OPS.get(type(n.op)), 0)
                        pv = (G.PREC.get(G.AST_OPS.get(type(v.op))) if isinstance(v, ast.BinOp) else 0) or 0
                        if pv <= pa:
                            feats.add("aug-precedence")
            if tgt is None:
                continue
            if _has_call(tgt.value):
                feats.add("effectful-primary")
            end = getattr(n, "end_lineno", n.lineno)
            if end in comments:
                feats.add("comment")
            rest = lines[end - 1][n.end_col_offset:]
            if rest.lstrip().startswith(";"):
                feats.add("semicolon")
    return sorted(feats)


def class_attributes(src, cls="C"):
    names = set()
    for n in ast.walk(ast.parse(src)):
        if isinstance(n, ast.ClassDef) and n.name == cls:
            for b in ast.walk(n):
                if isinstance(b, ast.FunctionDef):
                    names.add(b.name)
                if isinstance(b, ast.Attribute) and isinstance(b.ctx, ast.Store) and isinstance(b.value, ast.Name) \
                        and b.value.id == "self":
                    names.add(b.attr)
    return names


def usef_features(srcs, mod, fname):
    feats = set()
    for n in ast.parse(srcs[mod]).body:
        if isinstance(n, ast.FunctionDef) and n.name == fname:
            params = [a.arg for a in n.args.args]
            stored = {x.id for x in ast.walk(n) if isinstance(x, ast.Name) and isinstance(x.ctx, ast.Store)}
            if stored - set(params):
                feats.add("temps")
            loads = [x.id for x in ast.walk(n) if isinstance(x, ast.Name) and isinstance(x.ctx, ast.Load)]
            # a parameter used more than once in the body AND, somewhere in the project, a simple statement that
            # contains the same call expression twice (the expression with an effect that is evaluated once afterwards)
            if any(loads.count(p) > 1 for p in params) and _repeated_call(srcs):
                feats.add("dup-param")
    return sorted(feats)


def _repeated_call(srcs):
    for s in srcs.values():
        try:
            tree = ast.parse(s)
        except SyntaxError:
            continue
        for st in ast.walk(tree):
            if isinstance(st, ast.stmt) and not hasattr(st, "body"):
                calls = [ast.dump(c) for c in ast.walk(st) if isinstance(c, ast.Call)
                         and not (isinstance(c.func, ast.Name) and c.func.id == "print")]
                if len(calls) != len(set(calls)):
                    return True
    return False


def signature(obj):
    k = obj.get("kind", "")
    f = ":" + str(obj.get("failure", ""))
    if k == "enc":
        return "enc:" + "+".join(f for f in features(obj["sources"], obj.get("field", "x")) if f in OPEN_FEATURES) + f
    if k == "l2f":
        src = obj["sources"][obj["mod"]]
        name = re.match(r"\w+", src[obj["offset"]:]).group(0)
        return "l2f:" + ("clash" if name in class_attributes(src) else "") + f
    if k == "usef":
        return "usef:" + "+".join(usef_features(obj["sources"], obj["mod"], obj["target"])) + f
    if k == "fac":
        return "fac:" + "+".join(fac_features(obj["sources"], obj.get("global", False))) + f
    if k == "mobj":
        return k + ":" + str(obj.get("shape", ""))
    return None


def fac_features(srcs, global_, cls="C", name="create"):
    """Structural shapes of two FIXED IntroduceFactory defects (f54ee77, e8eb856; regression streams, no open finding
    carries these shapes any more, so any failure on them is a VIOLATION), both only for global factories: class-level
    statements after the last method of the class; a client module that imports from the class's module with
    `from ma import ...` and defines a top-level name spelled like the factory."""
    feats = set()
    if not global_:
        return []
    for n in ast.parse(srcs["ma"]).body:
        if isinstance(n, ast.ClassDef) and n.name == cls:
            defs = [i for i, b in enumerate(n.body) if isinstance(b, ast.FunctionDef)]
            if defs and defs[-1] != len(n.body) - 1:
                feats.add("class-tail")
    for m, s in srcs.items():
        if m == "ma":
            continue
        try:
            body = ast.parse(s).body
        except SyntaxError:
            continue
        from_style = any(isinstance(b, ast.ImportFrom) and b.module == "ma" for b in body)
        defined = set()
        for b in body:
            if isinstance(b, (ast.FunctionDef, ast.ClassDef)):
                defined.add(b.name)
            elif isinstance(b, ast.Assign):
                defined.update(t.id for t in b.targets if isinstance(t, ast.Name))
        uses = any(isinstance(x, ast.Call) and ((isinstance(x.func, ast.Name) and x.func.id == cls) or
                                                (isinstance(x.func, ast.Attribute) and x.func.attr == cls))
                   for x in ast.walk(ast.parse(s)))
        if from_style and uses and name in defined:
            feats.add("client-name-clash")
    return sorted(feats)


# ----------------------------------------------------------------------------------------- text-level cases
ACCESSORS = "\n\n    def get_x(self):\n        return self.x\n\n    def set_x(self, value):\n        self.x = value"


def line_offsets(src):
    offs, o = [0], 0
    for l in src.split("\n"):
        o += len(l) + 1
        offs.append(o)
    return offs                      # offs[i] = offset of the start of line i+1


def logical_line_ends(src):
    """{physical line number: offset of the end (excluding the newline) of the last physical line of the logical
    line it belongs to}, from CPython's tokenizer (independent of rope's LogicalLineFinder)."""
    offs = line_offsets(src)
    res = {}
    first = None
    for t in tokenize.generate_tokens(io.StringIO(src).readline):
        if t.type in (tokenize.NL, tokenize.COMMENT, tokenize.INDENT, tokenize.DEDENT, tokenize.ENDMARKER):
            continue
        if first is None:
            first = t.start[0]
        if t.type == tokenize.NEWLINE:
            last = t.start[0]
            end = offs[last] - 1
            for ln in range(first, last + 1):
                res[ln] = end
            first = None
    return res


def occurrence_data(src, found, fld="x"):
    """[(start, end, primary start, in tuple assignment, end of the statement, value is a primary)] of the occurrences
    the finder yielded, every component except the word range computed from CPython's ast (end of the enclosing
    simple statement = end of the value, before a trailing comment or `;`; for compound statements the end of the
    logical line from tokenize, it is only used for written occurrences)."""
    offs = line_offsets(src)
    lends = logical_line_ends(src)
    tree = ast.parse(src)
    info = {}
    parents = {}
    for n in ast.walk(tree):
        for c in ast.iter_child_nodes(n):
            parents[c] = n
    for n in ast.walk(tree):
        if isinstance(n, ast.Attribute) and n.attr == fld:
            end = offs[n.end_lineno - 1] + n.end_col_offset
            start = end - len(fld)
            prim = offs[n.lineno - 1] + n.col_offset
            par = parents.get(n)
            tup = isinstance(n.ctx, ast.Store) and isinstance(par, (ast.Tuple, ast.List))
            st = n
            while st in parents and not isinstance(st, ast.stmt):
                st = parents[st]
            if isinstance(st, (ast.Assign, ast.AugAssign, ast.AnnAssign, ast.Expr, ast.Return, ast.Delete)):
                stmt_end = offs[st.end_lineno - 1] + st.end_col_offset
            else:
                stmt_end = lends[n.end_lineno]
            primary = True
            if isinstance(par, ast.AugAssign) and par.target is n:
                primary = isinstance(par.value, (ast.Constant, ast.Name, ast.Attribute, ast.Call, ast.Subscript))
            info[start] = (start, end, prim, tup, stmt_end, primary)
    res = []
    for o in sorted(found):
        if o not in info:
            return None              # an occurrence that is not an attribute node (outside the generated shapes)
        res.append(info[o])
    return res


def skip_region(src, defining, cls="C"):
    offs = line_offsets(src)
    for n in ast.walk(ast.parse(src)):
        if isinstance(n, ast.ClassDef) and n.name == cls:
            for b in n.body:
                if isinstance(b, ast.FunctionDef) and b.name == defining:
                    return (offs[b.body[0].lineno - 1], offs[b.body[-1].end_lineno])
    return (0, 0)


def g_text(s):
    return "[" + "; ".join("%d%%N" % ord(c) for c in s) + "]"


def scase_terms(rec):
    """Gallina terms of the text-level cases of one EncapsulateField record (one per module)."""
    srcs, found = rec["srcs"], rec.get("found") or {}
    terms = []
    for m, src in sorted(srcs.items()):
        occs = occurrence_data(src, found.get(m, set()))
        if occs is None:
            continue
        skip = skip_region(src, rec["defining"]) if m == "ma" else (0, 0)
        refused = False
        if rec["status"] == "ok":
            new = rec["new"][m]
            if m == "ma":
                if new.count(ACCESSORS) != 1:
                    continue
                new = new.replace(ACCESSORS, "")
                expect = "(Some (Some %s))" % g_text(new)
            else:
                expect = "(Some None)" if new == src else "(Some (Some %s))" % g_text(new)
        elif rec["status"] == "refused":
            expect = "None"
            refused = any(o[3] for o in occs)
        else:
            continue
        occ_t = G.g_list(["(%d%%N, %d%%N, %d%%N, %s, %d%%N, %s)" % (a, b, c, G.g_bool(d), e, G.g_bool(f))
                           for (a, b, c, d, e, f) in occs])
        terms.append("{| s_src := %s; s_get := %s; s_set := %s; s_skip := (%d%%N, %d%%N); s_occs := %s; "
                     "s_expect := %s; s_holding := %s; s_refused := %s |}" % (
                         g_text(src), g_text("get_x"), g_text("set_x"), skip[0], skip[1], occ_t, expect,
                         G.g_bool(m == "ma"), G.g_bool(refused)))
    return terms


# ----------------------------------------------------------------------------------------- one case
def oracle(before, after_srcs):
    """before = (rc, out) of the original project; returns a description of the failure or None"""
    bad = all_parse(after_srcs)
    if bad:
        return bad
    after = execute(after_srcs)
    if after != before:
        return "behaviour differs: before exit=%r stdout=%r, after exit=%r stdout=%r" % (
            before[0], before[1][-200:], after[0], after[1][-200:])
    return None


def parse_out(out):
    try:
        return [G.g_value(l) for l in out.split("\n") if l.strip() != ""]
    except ValueError:
        return None


# The code parenthesises the right-hand side of an augmented write (fix f343c81): the model instance compared with
# rope is k_augparen = true.  (k_augparen = false is the pre-fix behaviour, kept in Coq as documentation.)
AUGPAREN = True


def cfg_term(kind, prj, I, fname="create"):
    if kind == "enc":
        return "(enc_cfg %s %s %s %s %s %s %s %s)" % ("true" if AUGPAREN else "false", I("C"), I("x"),
                                                       I("get_x"), I("set_x"), I(prj["defining"]), I("self"), I("value"))
    return "(fac_cfg %s %s %s)" % ("true" if kind == "facg" else "false", I("C"), I(fname))


def case_term(kind, prj, rope_prj, before, refused=None, after=None):
    I = G.Interner()
    cfg = cfg_term(kind, prj, I)
    P = G.g_prog(prj, I)
    R = "None" if rope_prj is None else "(Some %s)" % G.g_prog(rope_prj, I)
    outs = parse_out(before[1]) if before[0] == 0 else None
    O = "None" if outs is None else "(Some %s)" % G.g_list(outs)
    F = "None" if refused is None else "(Some %s)" % G.g_bool(refused)
    A = "None"
    if after is not None and after[0] == 0 and parse_out(after[1]) is not None:
        A = "(Some %s)" % G.g_list(parse_out(after[1]))
    return ("{| c_cfg := %s; c_prog := %s; c_rope := %s; c_out := %s; c_refused := %s; c_after := %s; "
            "c_fuel := 60%%nat |}" % (cfg, P, R, O, F, A))


def accessor_refusal(rec):
    """EncapsulateField: True = refused because an accessor name is taken, False = not refused, None = not compared
    (other refusal, crash, other refactoring)"""
    if rec["kind"] != "enc":
        return None
    if rec["status"] == "ok":
        return False
    if rec["status"] == "refused" and "already has an attribute" in rec.get("msg", ""):
        return True
    return None


def evaluate_project(prj, kinds):
    """Phase 1 (sequential, uses rope): print the project and compute the refactorings."""
    srcs = G.print_project(prj)
    recs = []
    parser = G.Parser([c["name"] for c in prj["classes"]])
    forder = [d["name"] for d in prj["funcs"]]
    corder = [c["name"] for c in prj["classes"]]
    # sanity of the printer/parser pair on the original project
    try:
        back = parser.project(srcs, forder, corder)
        rt_ok = (G.erase_project(prj) == {k: back[k] for k in ("classes", "funcs", "main")})
    except (G.Unsupported, SyntaxError):
        rt_ok = False
    layout_hazard = prj.get("hazard") in ("chained", "tuple")
    if layout_hazard:
        rt_ok = True          # the planted statement is deliberately outside the Obj fragment's text shapes
    for kind in kinds:
        rec = {"kind": kind, "prj": prj, "srcs": srcs, "before": None, "rt_ok": rt_ok, "rope_prj": None,
               "oracle": None, "status": None, "new": None}
        if kind == "enc":
            found = {}
            st, new = do_encapsulate(srcs, prj["defining"], found=found)
            rec["found"] = found
            rec["defining"] = prj["defining"]
            if st == "ok" and not layout_hazard:
                # the model is given the occurrences the finder reported (which ones it finds is C02's subject);
                # the generator's own prediction is only counted
                tagged, diff = G.retag_project(prj, "x", finder_tags(srcs, found))
                rec["prj"] = tagged
                rec["tag_diff"] = diff
        elif kind == "fac":
            st, new = do_factory(srcs, global_=False)
        elif kind == "facg":
            st, new = do_factory(srcs, global_=True)
        else:
            raise ValueError(kind)
        rec["status"] = st
        if st == "ok":
            rec["new"] = new
            try:
                rp = parser.project(new, forder, corder)
                rec["rope_prj"] = {k: rp[k] for k in ("classes", "funcs", "main")}
            except (G.Unsupported, SyntaxError):
                rec["rope_prj"] = None
            if layout_hazard:
                rec["rope_prj"] = None
                rec["skip_model"] = True
        else:
            rec["msg"] = new
        recs.append(rec)
    return recs


def execute_records(recs, workers=12):
    """Phase 2 (parallel subprocesses): the execution oracle."""
    cache = {}

    def key(srcs):
        return tuple(sorted(srcs.items()))
    todo = {}
    for r in recs:
        todo.setdefault(key(r["srcs"]), r["srcs"])
        if r["status"] == "ok" and all_parse(r["new"]) is None:
            todo.setdefault(key(r["new"]), r["new"])
    keys = list(todo)
    with ThreadPoolExecutor(max_workers=workers) as ex:
        for k, res in zip(keys, ex.map(lambda k: execute3(todo[k]), keys)):
            cache[k] = res
    for r in recs:
        r["before"] = cache[key(r["srcs"])][:2]
        r["failure"] = None
        if r["status"] == "error":
            r["failure"] = "crash"
        if r["status"] == "ok":
            bad = all_parse(r["new"])
            if bad:
                r["oracle"] = bad
                r["failure"] = "parse"
            else:
                after3 = cache[key(r["new"])]
                after = after3[:2]
                r["after"] = after
                if after != r["before"]:
                    r["oracle"] = "behaviour differs: before exit=%r stdout=%r, after exit=%r stdout=%r" % (
                        r["before"][0], r["before"][1][-200:], after[0], after[1][-200:])
                    # the class of the failure: a different output with the same (zero) exit status, or an exception
                    if after[0] == r["before"][0]:
                        r["failure"] = "behaviour"
                    else:
                        r["failure"] = "exception:" + (after3[2] or str(after[0]))


# which failure each open finding predicts (brief item 3: a failure is attributed to a finding only if the input has
# exactly the finding's shape AND the failure is the predicted one AND, where a model predicts the defective result
# exactly, rope's result and the observed output are the model's)
EXPECTED_FAILURE = {
    ("enc", "effectful-primary"): ("behaviour",),
    ("enc", "chained"): ("behaviour", "parse"),
    ("l2f", "clash"): ("behaviour", "exception:TypeError", "exception:AttributeError"),
    ("usef", "temps"): ("exception:NameError", "exception:UnboundLocalError"),
    ("usef", "dup-param"): ("behaviour",),
}


def failure_class(rec, obj, code, text_ok):
    """'expected' iff the observed failure is the one the matching finding predicts (and is explained by the models)"""
    sig = signature(dict(obj, failure=""))
    if sig is None:
        return rec.get("failure") or "?"
    kind, feats = sig.split(":")[0], sig.split(":")[1]
    fail = rec.get("failure") or "?"
    if fail not in EXPECTED_FAILURE.get((kind, feats), ()):
        return fail
    if (kind, feats) == ("enc", "effectful-primary"):
        # Refactor.tP reproduces the duplicated / reordered primary: rope's result must be the model's and the
        # output of the refactored project must be the one the model computes
        if rec.get("skip_model") or rec.get("rope_prj") is None or (code & (1 | 32)):
            return fail + "/not-the-model's-prediction"
    if (kind, feats) == ("l2f", "clash") and rec.get("unit") and fail == "behaviour":
        # Local.local_to_field reproduces the overwritten field: rope's result must be the model's and the output
        # of the refactored project the one the Obj run of the model's result gives
        if rec.get("o_rope") is None or (rec.get("o_code", 0) & (1 | 8)):
            return fail + "/not-the-model's-prediction"
    if (kind, feats) == ("enc", "chained"):
        # Splice.changed_module reproduces the exact text
        if not text_ok:
            return fail + "/not-the-model's-prediction"
    return "expected"


def evaluate_others(prj, rng):
    """MethodObject on every function / method, LocalToField on every local of C's methods (oracle only)."""
    srcs = G.print_project(prj)
    recs = []

    def add(kind, target, res, extra):
        st, new = res
        rec = dict({"kind": kind, "prj": prj, "srcs": srcs, "before": None, "rt_ok": True, "rope_prj": None,
                    "oracle": None, "status": st, "new": new if st == "ok" else None, "skip_model": True,
                    "target": target}, **extra)
        if st != "ok":
            rec["msg"] = new
        recs.append(rec)
    targets = [(prj["where"][d["name"]], d["name"], ("func", d["name"])) for d in prj["funcs"]]
    targets += [("ma", d["name"], ("method", "C", d["name"])) for d in prj["classes"][0]["methods"]]
    rng.shuffle(targets)
    for mod, name, unit in targets[:3]:
        add("mobj", name, do_method_object(srcs, mod, name), {"mod": mod, "unit": unit, "var": "self"})
    locs = G.method_locals(prj)
    rng.shuffle(locs)
    for meth, var in locs[:2]:
        i = srcs["ma"].index("def %s(" % meth)
        m = re.compile(r"^\s+%s = " % re.escape(var), re.M).search(srcs["ma"], i)
        off = m.end() - len(var) - 3
        add("l2f", "%s.%s" % (meth, var), do_local_to_field(srcs, "ma", off),
            {"mod": "ma", "offset": off, "unit": ("method", "C", meth), "var": var})
    # LocalToField requested on things that are NOT locals of a method: locals and parameters of plain functions,
    # parameters of methods, module-level variables.  (HEAD refuses; whatever is answered goes through the oracle.)
    others = []
    for mod in ("ma", "mb", "main"):
        src = srcs[mod]
        for m in re.finditer(r"^def \w+\((\w+)", src, re.M):
            others.append((mod, m.start(1), "param"))
        for m in re.finditer(r"^    def \w+\(self, (\w+)", src, re.M):
            others.append((mod, m.start(1), "method-param"))
        for m in re.finditer(r"^(\w+) = ", src, re.M):
            others.append((mod, m.start(1), "global"))
        in_func = None
        for m in re.finditer(r"^(def )|^(class )|^    (\w+) = ", src, re.M):
            if m.group(1):
                in_func = True
            elif m.group(2):
                in_func = False
            elif in_func:
                others.append((mod, m.start(3), "function-local"))
    rng.shuffle(others)
    seen = set()
    for mod, off, what in others:
        if what in seen:
            continue
        seen.add(what)
        unit, var = unit_at(srcs[mod], off)
        add("l2f", "%s@%s:%d" % (what, mod, off), do_local_to_field(srcs, mod, off),
            {"mod": mod, "offset": off, "l2f_target": what, "unit": unit, "var": var})
    return recs


def unit_at(src, off):
    """(unit, name) of the identifier at offset `off`: ('method', class, m) / ('func', f) / ('main',)"""
    offs = line_offsets(src)
    var = re.match(r"\w+", src[off:]).group(0)
    line = src.count("\n", 0, off) + 1
    best = ("main",)
    for n in ast.parse(src).body:
        if isinstance(n, ast.FunctionDef) and n.lineno <= line <= n.end_lineno:
            best = ("func", n.name)
        if isinstance(n, ast.ClassDef) and n.lineno <= line <= n.end_lineno:
            for b in n.body:
                if isinstance(b, ast.FunctionDef) and b.lineno <= line <= b.end_lineno:
                    best = ("method", n.name, b.name)
    return best, var


def g_unit(u, I):
    if u[0] == "method":
        return "(UMethod %s %s)" % (I(u[1]), I(u[2]))
    if u[0] == "func":
        return "(UFunc %s)" % I(u[1])
    return "UMain"


def check_others(ctx, recs):
    """LocalToField / MethodObject on the generated Obj projects: rope's result (parsed back) and rope's refusal are
    compared in Coq with Local.local_to_field / Local.l2f_refuses / Local.method_object, and the Obj run of the
    model's MethodObject result with CPython's output of the original project."""
    sel = [r for r in recs if r["kind"] in ("mobj", "l2f") and r.get("unit") and r["status"] in ("ok", "refused")
           and not r["prj"].get("nest")]
    terms = []
    for r in sel:
        prj = r["prj"]
        I = G.Interner()
        parser = G.Parser([c["name"] for c in prj["classes"]] + ["_K"])
        rp = None
        if r["status"] == "ok":
            try:
                back = parser.project(r["new"], [d["name"] for d in prj["funcs"]], [c["name"] for c in prj["classes"]])
                rp = {k: back[k] for k in ("classes", "funcs", "main")}
            except (G.Unsupported, SyntaxError):
                rp = None
        r["o_rope"] = rp
        outs = parse_out(r["before"][1]) if r["before"][0] == 0 else None
        terms.append("{| oc_kind := %s; oc_prog := %s; oc_unit := %s; oc_var := %s; oc_names := {| mo_cls := %s; "
                     "mo_self := %s; mo_host := %s; mo_call := %s |}; oc_rope := %s; oc_refused := %s; oc_out := %s; "
                     "oc_after := %s |}" % (
                         "0%N" if r["kind"] == "l2f" else "1%N", G.g_prog(prj, I), g_unit(r["unit"], I), I(r["var"]),
                         I("_K"), I("self"), I("host"), I("__call__"),
                         "None" if rp is None else "(Some %s)" % G.g_prog(rp, I),
                         G.g_bool(r["status"] == "refused"),
                         "None" if outs is None else "(Some %s)" % G.g_list(outs),
                         ("(Some %s)" % G.g_list(parse_out(r["after"][1])))
                         if (r["kind"] == "l2f" and r.get("failure") == "behaviour" and parse_out(r["after"][1]) is not None)
                         else "None"))
        r["o_code"] = 0
    shard = 40
    bodies = [HEADER + "From RopeVerif.C17 Require Import Local.\nDefinition cases : list ocase := %s.\n"
              "Eval vm_compute in (omismatches cases).\n" % G.g_list(terms[s:s + shard]).replace("; {| oc_kind", ";\n {| oc_kind")
              for s in range(0, len(terms), shard)]
    outs = ctx.coq_files_parallel(bodies)
    ctx.extra["l2f_mobj_model_cases"] = ctx.extra.get("l2f_mobj_model_cases", 0) + len(terms)
    ctx.traces += len(terms)
    pending = []          # reported after the oracle-based violations (which carry a failing input)
    for si, out in enumerate(outs):
        pairs = ctx.parse_pairs(out)
        for (i, code) in (pairs[0] if pairs else []):
            r = sel[si * shard + i]
            r["o_code"] = code
            if r["status"] == "ok" and r["o_rope"] is None:
                continue          # result outside the Obj fragment: execution oracle only
            code &= ~8            # bit 8 only qualifies an oracle failure (see failure_class)
            if not code:
                continue
            what = []
            if code & 1:
                what.append("rope's result differs from the model's (Local.%s)" % (
                    "local_to_field" if r["kind"] == "l2f" else "method_object"))
            if code & 2:
                what.append("rope's refusal differs from Local.l2f_refuses")
            if code & 4:
                what.append("the Obj run of the model's result differs from CPython's output of the original")
            pending.append((dict(replay_obj(r), mismatch=what, new_sources=r.get("new"),
                                 broken="correspondence RopeVerif.C17.Runner.run_ocase (Local.v vs rope/refactor/"
                                        "localtofield.py, method_object.py)"),
                            "C17 %s: %s" % (r["kind"], "; ".join(what))))
    return pending


def evaluate_nest(rng):
    """MethodObject / LocalToField / UseFunction on hosts at nesting depth 1-3 (text scenario, oracle only)."""
    srcs, funcs, locs = G.nest_project(rng)
    prj = {"hazard": None, "nest": True}
    recs = []

    def add(kind, target, res, extra):
        st, new = res
        rec = dict({"kind": kind, "prj": prj, "srcs": srcs, "before": None, "rt_ok": True, "rope_prj": None,
                    "oracle": None, "status": st, "new": new if st == "ok" else None, "skip_model": True,
                    "target": target, "mod": "ma"}, **extra)
        if st != "ok":
            rec["msg"] = new
        recs.append(rec)
    special = [f for f in funcs if f in ("vary", "spread", "gather")]
    funcs = [f for f in funcs if f not in special]
    rng.shuffle(funcs)
    for f in funcs[:3] + [rng.choice(special)]:
        add("mobj", f, do_method_object(srcs, "ma", f), {})
    for f in [rng.choice(["inner", "helper"]), rng.choice(["top", "solo", "plain"])]:
        add("usef", f, do_use_function(srcs, "ma", f), {})
    rng.shuffle(locs)
    meth = [x for x in locs if x[1]]
    for anchor, is_method_local in meth[:2] + [x for x in locs if not x[1]][:2]:
        off = srcs["ma"].index(anchor)
        add("l2f", anchor.strip(), do_local_to_field(srcs, "ma", off),
            {"offset": off, "l2f_target": "method-local" if is_method_local else "not-a-method-local"})
    return recs


def evaluate_usef(prj):
    srcs = G.print_project(prj)
    name = prj["usef"]["helper"]
    st, new = do_use_function(srcs, "ma", name)
    rec = {"kind": "usef", "prj": prj, "srcs": srcs, "before": None, "rt_ok": True, "rope_prj": None, "oracle": None,
           "status": st, "new": new if st == "ok" else None, "skip_model": True, "target": name, "mod": "ma"}
    if st != "ok":
        rec["msg"] = new
    return [rec]


def evaluate_augrhs(rng):
    """EncapsulateField on the right-hand-side scenario: text-level model + oracle (no Obj model: tuples, conditional
    expressions ... are outside Obj)."""
    srcs = G.augrhs_project(rng)
    found = {}
    st, new = do_encapsulate(srcs, "__init__", found=found)
    rec = {"kind": "enct", "prj": {"hazard": None, "textonly": "augrhs", "defining": "__init__"}, "srcs": srcs,
           "before": None, "rt_ok": True, "rope_prj": None, "oracle": None, "status": st,
           "new": new if st == "ok" else None, "skip_model": True, "found": found, "defining": "__init__"}
    if st != "ok":
        rec["msg"] = new
    return [rec]


def class_indentation(src, cls="C"):
    m = re.search(r"^( *)class %s\(" % cls, src, re.M)
    return len(m.group(1))


def evaluate_compound(rng):
    """IntroduceFactory on a class inside a module-level compound statement: the static factory must preserve
    behaviour; the global factory is refused exactly when the class is indented (compared with rope's answer)."""
    srcs = G.compound_class_project(rng)
    recs = []
    for kind, glob in (("fact", False), ("fact", True)):
        st, new = do_factory(srcs, global_=glob)
        rec = {"kind": kind, "prj": {"hazard": None, "textonly": "compound"}, "srcs": srcs, "before": None, "rt_ok": True,
               "rope_prj": None, "oracle": None, "status": st, "new": new if st == "ok" else None, "skip_model": True,
               "global": glob, "expect_refusal": bool(glob and class_indentation(srcs["ma"]) > 0)}
        if st != "ok":
            rec["msg"] = new
        recs.append(rec)
    return recs


def evaluate_fac_shape(rng, which):
    srcs = G.factory_shape_project(rng, which)
    recs = []
    for glob in (False, True):
        st, new = do_factory(srcs, global_=glob)
        rec = {"kind": "fact", "prj": {"hazard": None, "textonly": "factory-" + which}, "srcs": srcs, "before": None,
               "rt_ok": True, "rope_prj": None, "oracle": None, "status": st, "new": new if st == "ok" else None,
               "skip_model": True, "global": glob,
               # current code: a global factory is refused exactly when a from-import client already has the name
               "expect_refusal": "client-name-clash" in fac_features(srcs, glob)}
        if st != "ok":
            rec["msg"] = new
        recs.append(rec)
    return recs


def replay_obj(rec):
    if rec["kind"] == "enct":
        return {"kind": "enc", "sources": rec["srcs"], "defining": "__init__", "field": "x"}
    if rec["kind"] == "fact":
        return {"kind": "fac", "sources": rec["srcs"], "global": rec["global"],
                "shape": "global" if rec["global"] else "static"}
    if rec["kind"] in ("mobj", "usef"):
        return {"kind": rec["kind"], "sources": rec["srcs"], "mod": rec["mod"], "target": rec["target"]}
    if rec["kind"] == "l2f":
        return {"kind": "l2f", "sources": rec["srcs"], "mod": rec["mod"], "offset": rec["offset"], "target": rec["target"]}
    kind = {"enc": "enc", "fac": "fac", "facg": "fac"}[rec["kind"]]
    o = {"kind": kind, "sources": rec["srcs"], "defining": rec["prj"]["defining"], "field": "x"}
    if rec["kind"] in ("fac", "facg"):
        o["global"] = rec["kind"] == "facg"
        o["shape"] = "global" if o["global"] else "static"
    return o


def check_records(ctx, recs):
    """Coq comparison + reporting for the records of EncapsulateField / IntroduceFactory."""
    shard = 40
    bodies = []
    recs = [r for r in recs if r["kind"] in ("enc", "fac", "facg")] + [r for r in recs if r["kind"] not in ("enc", "fac", "facg")]
    n_model = len([r for r in recs if r["kind"] in ("enc", "fac", "facg")])
    for s in range(0, n_model, shard):
        terms = [case_term(r["kind"], r["prj"], r["rope_prj"], r["before"], accessor_refusal(r),
                           r.get("after") if (r["kind"] == "enc" and r.get("failure") == "behaviour") else None)
                 for r in recs[s:min(s + shard, n_model)]]
        bodies.append(HEADER + "Definition cases : list case := %s.\nEval vm_compute in (mismatches cases).\n"
                      "Eval vm_compute in (count_domain cases).\n" % G.g_list(terms).replace("; {| c_cfg", ";\n {| c_cfg"))
    # text-level cases: every EncapsulateField record, including the layout hazards
    sterms, sowner = [], []
    for i, r in enumerate(recs):
        if r["kind"] in ("enc", "enct"):
            for t in scase_terms(r):
                sterms.append(t)
                sowner.append(i)
    sshard = 60
    sbodies = []
    for s in range(0, len(sterms), sshard):
        sbodies.append(HEADER + "From RopeVerif.C17 Require Import Splice.\nDefinition cases : list scase := %s.\n"
                       "Eval vm_compute in (smismatches cases).\n" % G.g_list(sterms[s:s + sshard]).replace("; {| s_src", ";\n {| s_src"))
    outs_all = ctx.coq_files_parallel(bodies + sbodies)
    outs, souts = outs_all[:len(bodies)], outs_all[len(bodies):]
    smism = {}
    for si, out in enumerate(souts):
        pairs = ctx.parse_pairs(out)
        for (i, code) in (pairs[0] if pairs else []):
            smism.setdefault(sowner[si * sshard + i], []).append(code)
    ctx.extra["text_level_cases"] = ctx.extra.get("text_level_cases", 0) + len(sterms)
    ctx.traces += len(sterms)
    mism, dom = {}, 0
    for si, out in enumerate(outs):
        pairs = ctx.parse_pairs(out)
        for (i, code) in (pairs[0] if pairs else []):
            mism[si * shard + i] = code
        nums = ctx.parse_nums(out)
        dom += nums[-1][0] if nums and nums[-1] else 0
    ctx.extra["cases_inside_theorem_domain"] = ctx.extra.get("cases_inside_theorem_domain", 0) + dom
    for idx, r in enumerate(recs):
        kind = r["kind"]
        if kind in ("enc", "fac", "facg"):
            ctx.traces += 1
        ctx.count("%s:%s" % (kind, r["status"]))
        hz = r["prj"].get("hazard")
        ctx.count("%s:stream:%s" % (kind, hz or "main"))
        if r["prj"].get("textonly"):
            ctx.count("%s:%s:%s" % (kind, r["prj"]["textonly"], r["status"]))
        if kind == "fact" and r["expect_refusal"] is not None and (r["status"] == "refused") != r["expect_refusal"]:
            ctx.violation(dict(replay_obj(r), observed="status %s%s" % (r["status"], (": " + r.get("msg", ""))[:120]),
                               broken="refusal rule of IntroduceFactory for global factories: refused iff the class "
                                      "statement is indented or a from-import client already has the factory's name"),
                          "C17 fac: global factory %s although %s" % (
                              "refused" if r["status"] == "refused" else "accepted",
                              ("the class statement is indented / a client already has the factory's name"
                               if r["expect_refusal"] else "nothing asks for a refusal")),
                          no_input=(r["status"] == "refused"))
        if kind == "l2f" and r.get("l2f_target"):
            ctx.count("l2f:target:%s:%s" % (r["l2f_target"], r["status"]))
        if r["prj"].get("nest"):
            ctx.count("%s:nested-host:%s" % (kind, r["status"]))
        if r["prj"].get("inherit"):
            ctx.count("%s:inheritance-%s:%s" % (kind, r["prj"]["inherit"], r["status"]))
        if r.get("tag_diff"):
            ctx.count("enc:occurrences where the finder differs from the generator's prediction", r["tag_diff"])
        ctx.case((kind, sorted(r["srcs"].items())), nontrivial=(r["status"] == "ok" and r["new"] != r["srcs"]))
        if not r["rt_ok"]:
            ctx.violation({"kind": "harness", "sources": r["srcs"],
                           "broken": "harness printer/parser round trip on the generated project"},
                          "C17 harness: parse(print(project)) differs from the project", no_input=True)
            continue
        if r["before"][0] != 0:
            ctx.count("%s:original-exits-nonzero" % kind)
        ro = replay_obj(r)
        if r["status"] == "error":
            ro["failure"] = failure_class(r, ro, mism.get(idx, 0), idx not in smism)
        if r["status"] == "error":
            ctx.violation(dict(ro, observed=r["msg"]), "C17 %s: get_changes crashed: %s" % (kind, r["msg"][:200]))
            continue
        if r["status"] == "refused":
            if mism.get(idx, 0) & 16:
                ctx.violation(dict(ro, observed=r["msg"], broken="correspondence RopeVerif.C17.Runner.run_case "
                                   "(Refactor.enc_refuses vs the refusal of EncapsulateField.get_changes)"),
                              "C17 enc: rope refuses (%s) but the model does not" % r["msg"][:100], no_input=True)
            continue
        if r["status"] == "error" or r["oracle"]:
            ro["failure"] = failure_class(r, ro, mism.get(idx, 0), idx not in smism)
        if r["oracle"]:
            ctx.violation(dict(ro, observed=r["oracle"]), "C17 %s: %s" % (kind, r["oracle"][:300]))
            continue
        code = mism.get(idx, 0)
        if r["rope_prj"] is None and r["status"] == "ok" and not r.get("skip_model"):
            code |= 8
        if r.get("skip_model"):
            code = 0
        if code:
            what = []
            if code & 1:
                what.append("rope's result differs from the model's (Refactor.tP)")
            if code & 2:
                what.append("the model's run of the original program differs from CPython's output")
            if code & 4:
                what.append("inside the theorem's domain but the model's run of the refactored program differs")
            if code & 16:
                what.append("the model refuses the accessor names (Refactor.enc_refuses) but rope does not")
            if code & 8:
                what.append("rope's result is outside the Obj fragment")
            thm = "C17_encapsulate" if kind == "enc" else "C17_factory"
            ctx.violation(dict(ro, mismatch=what, new_sources=r["new"],
                               broken="correspondence RopeVerif.C17.Runner.run_case; theorem %s no longer speaks "
                                      "about the code" % thm),
                          "C17 %s: %s" % (kind, "; ".join(what)), no_input=True)
        if ctx.too_many():
            break
    for i, codes in smism.items():
        r = recs[i]
        ctx.violation(dict(replay_obj(r), mismatch="text-level model (Splice.changed_module) differs: codes %r" % codes,
                           new_sources=r["new"],
                           broken="correspondence RopeVerif.C17.Runner.run_scase (model Splice.changed_module vs "
                                  "_FindChangesForModule.get_changed_module); theorem C17_setter_calls_closed no "
                                  "longer speaks about the code"),
                      "C17 enc: rope's new text differs from the text-level model's", no_input=True)
        if ctx.too_many():
            break


# ----------------------------------------------------------------------------------------- run / replay
def gen_projects(ctx, n_main, n_haz):
    prjs = []
    i = 0
    while i < n_main:
        g = G.Gen(ctx.rng)
        prj = g.project()
        if set(features(G.print_project(prj))) & OPEN_FEATURES:
            ctx.count("main-stream:rejected (contains a known-defect shape)")
            continue
        i += 1
        prjs.append(prj)
        for k, v in g.counts.items():
            ctx.count(k, v)
    for i in range(n_haz):
        h = HAZARDS[i % len(HAZARDS)]
        for _ in range(20):
            g = G.Gen(ctx.rng, hazard=h)
            prj = g.project()
            # exactly the planted shape and no other known-defect shape
            if prj["hazard"] and features(G.print_project(prj)) == [h]:
                prjs.append(prj)
                break
    return prjs


def run(ctx):
    ctx.rule = ("projects of three modules (ma: class C with fields x, y and 0-4 methods, optionally class D holding "
                "a C and a field of the same name; mb: 1-3 functions; main: entry script) generated from one PRNG in "
                "the Obj fragment: reads, writes, augmented writes of C.x through locals, self, parameters (not "
                "resolved by rope: must stay untouched), attribute chains d.c.x, call results, fresh instances; "
                "layouts: tight/wide '=', multi-line parenthesised and backslash-continued right-hand sides; "
                "import styles 'from ma import C' / 'import ma'; unrelated identifiers, a method, comments and strings "
                "spelled like the factory / class; a base class defining (or not) methods spelled like the accessors; "
                "a separate text scenario with hosts at nesting depth 1-3 (class in class, function in method, function "
                "in function) followed by further members; LocalToField also requested on parameters, locals of plain "
                "functions and globals. A case = (project, refactoring); non-trivial when "
                "rope produced a change; distinct by the project's sources. Hazard streams plant exactly one "
                "statement of a known-defect shape (findings.d).")
    n_main = ctx.scale(60, 700)
    n_haz = ctx.scale(18, 120)
    prjs = gen_projects(ctx, n_main, n_haz)
    recs = []
    for p in prjs:
        recs.extend(evaluate_project(p, ["enc"] if p.get("hazard") else ["enc", "fac", "facg"]))
    # MethodObject / LocalToField on a part of the main-stream projects; UseFunction on planted scenarios
    n_other = ctx.scale(25, 300)
    for p in prjs[:n_other]:
        if not p.get("hazard"):
            recs.extend(evaluate_others(p, ctx.rng))
    for i in range(ctx.scale(12, 120)):
        recs.extend(evaluate_nest(ctx.rng))
    for i in range(ctx.scale(20, 200)):
        recs.extend(evaluate_augrhs(ctx.rng))
    for i in range(ctx.scale(8, 60)):
        recs.extend(evaluate_compound(ctx.rng))
    for i in range(ctx.scale(8, 60)):
        recs.extend(evaluate_fac_shape(ctx.rng, "tail" if i % 2 == 0 else "clash"))
    # inheritance: the field's class has a base class that defines (or not) methods spelled like the accessors
    n_inh = ctx.scale(12, 120)
    i = 0
    while i < n_inh:
        g = G.Gen(ctx.rng, inherit=("clash" if i % 2 == 0 else "plain"))
        p = g.project()
        if set(features(G.print_project(p))) & OPEN_FEATURES:
            continue
        i += 1
        for k, v in g.counts.items():
            ctx.count(k, v)
        recs.extend(evaluate_project(p, ["enc", "fac"]))
    n_usef = ctx.scale(24, 240)
    for i in range(n_usef):
        g = G.Gen(ctx.rng)
        p = g.project()
        hz = [None, None, None, None, "temp-live", "dup-effect"][i % 6]
        G.plant_use_function(p, ctx.rng, hz)
        ctx.count("usef:helper:%s%s" % (p["usef"]["kind"], (":" + hz) if hz else ""))
        recs.extend(evaluate_usef(p))
    execute_records(recs)
    pending = check_others(ctx, recs)
    for r in recs[:2]:
        ctx.sample({"kind": r["kind"], "ma.py": r["srcs"]["ma"][:600], "after ma.py": (r["new"] or {}).get("ma", "")[:800]})
    check_records(ctx, recs)
    for obj, summary in pending:
        if ctx.too_many(8):
            break
        ctx.violation(obj, summary, no_input=True)


def replay(ctx, obj):
    kind = obj.get("kind")
    srcs = obj["sources"]
    before = execute(srcs)
    if kind == "enc":
        st, new = do_encapsulate(srcs, obj.get("defining", "__init__"), obj.get("field", "x"))
    elif kind == "fac":
        st, new = do_factory(srcs, global_=obj.get("global", False))
    elif kind == "mobj":
        st, new = do_method_object(srcs, obj["mod"], obj["target"])
    elif kind == "l2f":
        st, new = do_local_to_field(srcs, obj["mod"], obj["offset"])
    elif kind == "usef":
        st, new = do_use_function(srcs, obj["mod"], obj["target"])
    else:
        return False
    if st == "refused":
        return False
    if st == "error":
        return True
    return oracle(before, new) is not None
